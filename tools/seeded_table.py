#!/venv/bin/python
"""Print a markdown table of seeded/<name>/{meta,result}.json (used for DESIGN.md section 11)."""
import os, json
ROOT = os.path.dirname(os.path.dirname(os.path.abspath(__file__)))
rows = []
for n in sorted(os.listdir(os.path.join(ROOT, 'seeded'))):
    d = os.path.join(ROOT, 'seeded', n)
    try:
        m = json.load(open(os.path.join(d, 'meta.json')))
    except Exception:
        continue
    r = {}
    if os.path.exists(os.path.join(d, 'result.json')):
        r = json.load(open(os.path.join(d, 'result.json')))
    what = (m.get('what_breaks') or '').replace('\n', ' ').replace('|', '/')
    what = what[:150] + ('...' if len(what) > 150 else '')
    by = r.get('replay_why') or ''
    if isinstance(by, list):
        by = '; '.join(by)
    by = str(by).replace('\n', ' ').replace('|', '/')[:110]
    st = 'caught (failing input)' if r.get('caught') and r.get('replay_kind') == 'failing-input' else \
         'caught (no-failing-input-found)' if r.get('caught') else ('not run' if not r else 'MISSED')
    if m.get('history'):
        st += ' ' + m['history']
    rows.append('| %s | %s | %s | %s | %s |' % (n, m.get('property'), what, st, by))
print('| seeded change | property | what it breaks | result of `./check <property> --tier quick` | first red obligation / oracle message |')
print('|---|---|---|---|---|')
print('\n'.join(rows))
