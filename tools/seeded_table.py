#!/venv/bin/python
"""Print a markdown table of seeded/<name>/{meta,result}.json (used for DESIGN.md section 11)."""
import os, json
ROOT = os.path.dirname(os.path.dirname(os.path.abspath(__file__)))
rows = []
for n in sorted(os.listdir(os.path.join(ROOT, 'seeded'))):
    d = os.path.join(ROOT, 'seeded', n)
    try:
        m = json.load(open(os.path.join(d, 'meta.json')))
    except Exception:
        continue
    r = {}
    if os.path.exists(os.path.join(d, 'result.json')):
        r = json.load(open(os.path.join(d, 'result.json')))
    what = (m.get('what_breaks') or '').replace('\n', ' ').replace('|', '/')
    what = what[:150] + ('...' if len(what) > 150 else '')
    by = r.get('replay_why') or ''
    if isinstance(by, list):
        by = '; '.join(by)
    by = str(by).replace('\n', ' ').replace('|', '/')[:110]
    st = 'caught (failing input)' if r.get('caught') and r.get('replay_kind') == 'failing-input' else \
         'caught (no-failing-input-found)' if r.get('caught') else ('not run' if not r else 'MISSED')
    if st == 'MISSED':
        for f in sorted(os.listdir(d)):
            if f.startswith('result_') and f.endswith('.json'):
                r2 = json.load(open(os.path.join(d, f)))
                if r2.get('caught'):
                    st = 'not its own property\'s check, but caught by `./check %s` (failing input)' % r2['property']
                    by = str(r2.get('replay_why') or '').replace('\n', ' ').replace('|', '/')[:110]
                    rows_by = by
    if m.get('history'):
        st += ' ' + m['history']
    rows.append('| %s | %s | %s | %s | %s |' % (n, m.get('property'), what, st, by))
print('| seeded change | property | what it breaks | result of `./check <property> --tier quick` | first red obligation / oracle message |')
print('|---|---|---|---|---|')
print('\n'.join(rows))
