#!/venv/bin/python
"""Markdown status table per property from evidence/*.json and coq/props/*.v (for DESIGN.md section 0.1)."""
import os, json, re
ROOT = os.path.dirname(os.path.dirname(os.path.abspath(__file__)))
print('| property | theorems (all closed under the global context) | quick: cases / in domain / distinct non-trivial | wall s |')
print('|---|---|---|---|')
for i in range(1, 21):
    p = 'C%02d' % i
    ev = os.path.join(ROOT, 'evidence', p + '.json')
    if not os.path.exists(ev):
        print('| %s | not built | | |' % p)
        continue
    e = json.load(open(ev))
    c = e['coverage']
    print('| %s | %d: %s | %d / %d / %d | %.0f |' % (p, c['obligations'], ', '.join(t.replace(p + '_', '') for t in c['theorems']),
          c['evaluations'], c.get('in_domain', 0), c['distinct_nontrivial'], e['wall_s']))
