#!/venv/bin/python
"""Run the checks against every behaviour-preserving rewrite in /verif/benign/<name>/ (patch.diff, meta.json).

For each rewrite: the check of the property it was written for, and the check of every other property whose modelled functions
(MODELLED_FUNCS) live in a file the rewrite touches. Expected outcome everywhere: exit 0, no VIOLATION line.
usage: tools/run_benign.py [name ...]   (results: benign/<name>/result.json, result_<P>.json; summary on stdout)
"""
import os, sys, json, subprocess, importlib
ROOT = os.path.dirname(os.path.dirname(os.path.abspath(__file__)))
sys.path.insert(0, os.path.join(ROOT, 'tools'))
B = os.path.join(ROOT, 'benign')
files_of = {}
for f in sorted(os.listdir(os.path.join(ROOT, 'tools', 'props'))):
    if f.startswith('c') and f.endswith('.py'):
        m = importlib.import_module('props.' + f[:-3])
        files_of[m.ID] = set(getattr(m, 'MODELLED_FUNCS', {}) or {})
names = [a for a in sys.argv[1:] if a[:1] == 'C' and '-' in a] or sorted(os.listdir(B))
bad = 0
for n in names:
    meta = json.load(open(os.path.join(B, n, 'meta.json')))
    touched = set(meta.get('files_touched') or [])
    others = sorted(p for p, fs in files_of.items() if p != meta['property'] and fs & touched)
    if '--own-only' in sys.argv:
        others = []
    elif '--cross-max' in sys.argv:      # a rotating sample of the other properties (each run takes about a minute)
        k = int(sys.argv[sys.argv.index('--cross-max') + 1])
        r = sum(map(ord, n)) % max(len(others), 1)
        others = (others[r:] + others[:r])[:k]
    props = [meta['property']] + others
    for i, p in enumerate(props):
        if os.path.exists(os.path.join(B, n, 'result.json' if i == 0 else 'result_%s.json' % p)) and '--force' not in sys.argv:
            r = json.load(open(os.path.join(B, n, 'result.json' if i == 0 else 'result_%s.json' % p)))
        else:
            cmd = [os.path.join(ROOT, 'tools', 'run_seeded.py'), '--benign', '--no-final', n] + (['--as', p, '--no-tests'] if i else [])
            subprocess.run(cmd, capture_output=True, text=True)
            r = json.load(open(os.path.join(B, n, 'result.json' if i == 0 else 'result_%s.json' % p)))
        ok = r.get('patch_applies') and r.get('check_exit') == 0 and not r.get('violation_line')
        bad += not ok
        print('%-8s %s %s %s' % (n, p, 'green' if ok else 'ALARM', '' if ok else (r.get('violation_line') or r.get('error') or r.get('summary_line'))), flush=True)
print('alarms: %d' % bad)
