"""Bundled substitution matrices: raw bytes of every file of sugar/data/data_submat -> coq/gen/G_submat_<k>.v
(k = position in sugar.data._submat_files()) and coq/gen/G_submat_index.v (names, directory listing, checksums).

Nothing is parsed here: the Coq model parses the same bytes that submat() reads."""
import os, re
from gen_data import emit, need, GEN

MASK = 0xFFFFFFFF


def cksum(b):
    a = 0
    for c in b:
        a = (a * 31 + c) & MASK
    return a


def chunks(b):
    """list of Coq terms of type str whose concatenation is b: printable runs as literals, other bytes explicitly"""
    out, run = [], []

    def flush():
        if run:
            out.append('(bs "%s"%%bs)' % bytes(run).decode('ascii').replace('"', '""'))
            del run[:]
    for c in b:
        if 32 <= c < 127:
            run.append(c)
            if len(run) >= 200:
                flush()
        else:
            flush()
            out.append('nl' if c == 10 else '[x%02x]' % c)
    flush()
    return out


def name_lit(s):
    need(isinstance(s, str) and s != '' and all(32 < ord(c) < 127 and c != '"' for c in s), 'file name %r is not printable ASCII' % (s,))
    return '(bs "%s"%%bs)' % s


def gen_submat():
    import sugar.data as D
    d = os.path.join(os.path.dirname(D.__file__), 'data_submat')
    need(os.path.isdir(d), 'sugar/data/data_submat is not a directory')
    names = D._submat_files()
    need(isinstance(names, list) and names and all(isinstance(n, str) for n in names), '_submat_files() is not a non-empty list of str')
    need(len(set(names)) == len(names), '_submat_files() has duplicates')
    need(len(names) < 2000, 'too many matrix files')
    listing = sorted(os.listdir(d))
    need(set(names) <= set(listing), '_submat_files() names an entry that is not in data_submat')
    others = [n for n in listing if n not in names]
    for n in others:
        # what the directory holds beside matrices must be something _submat_files() is known to hide
        need(n.startswith('README') or n == '__pycache__' or n == '__init__.py', 'unexpected entry %r in data_submat' % n)
    sums = []
    for k, n in enumerate(names):
        p = os.path.join(d, n)
        need(os.path.isfile(p), '%s is not a regular file' % n)
        b = open(p, 'rb').read()
        need(len(b) < 100000, '%s is too large (%d bytes) for a literal' % (n, len(b)))
        need(all(c < 128 for c in b), '%s contains non-ASCII bytes' % n)
        need(b'\r' not in b, '%s contains carriage returns (text-mode newline translation is not represented)' % n)
        body = ['Definition nl : str := [x0a].',
                'Definition sm_name_%d : str := %s.' % (k, name_lit(n)),
                'Definition sm_raw_%d : str := Eval vm_compute in concat\n  [' % k + ';\n   '.join(
                    '; '.join(chunks(line)) for line in b.splitlines(keepends=True)) + '].' if b else
                'Definition sm_raw_%d : str := [].' % k]
        emit('G_submat_%d' % k, 'sugar/data/data_submat/%s (raw bytes)' % n, '\n'.join(body) + '\n')
        sums.append((len(b), cksum(b)))
    body = 'From SV Require ' + ' '.join('G_submat_%d' % k for k in range(len(names))) + '.\n'
    body += ('(* (name, raw bytes) in the order of sugar.data._submat_files() *)\n'
             'Definition submat_files : list (str * str) :=\n  [' +
             ';\n   '.join('(G_submat_%d.sm_name_%d, G_submat_%d.sm_raw_%d)' % (k, k, k, k) for k in range(len(names))) + '].\n')
    body += ('(* other entries of the directory (hidden by _submat_files, but they exist for os.path.exists) *)\n'
             'Definition submat_dir_other : list str := [' + '; '.join(name_lit(n) for n in others) + '].\n')
    body += ('(* (length, checksum) of the bytes read by the translator, recomputed in Coq by the case files *)\n'
             'Definition submat_sums : list (N * N) := [' + '; '.join('(%d, %d)' % s for s in sums) + ']%N.\n')
    emit('G_submat_index', 'sugar/data/data_submat (index), sugar.data._submat_files()', body)
    for f in os.listdir(GEN):
        m = re.fullmatch(r'G_submat_(\d+)\.(v|vo|vok|vos|glob)', f)
        if m and int(m.group(1)) >= len(names):
            os.remove(os.path.join(GEN, f))


GENERATORS = [gen_submat]
