"""Column tables of the tabular hit readers (sugar/_io/tab/core.py, mmseqs.py, infernal.py) -> coq/gen/G_tab.v

Emitted: HEADER_<dialect> (name, long_name, type, blast_equivalent), CONVERTH_<dialect> (the dict items as the
interpreter built them), DEFAULT_OUTFMT, MMSEQS_HEADER_NAMES, copyattrs, INFERNAL_HEADER_KW, and the two literals that
live inside function bodies (read from the AST, fail-closed): the column-count map of read_tabular
({18: '1', 29: '2', 20: '3', 27: '2old'}) and the column-count tuple of is_fts_infernal."""
import ast, inspect, textwrap
from gen_data import emit, need, blit

TYPES = {str: 'TStr', int: 'TInt', float: 'TFloat'}


def _opt(s):
    if s is None:
        return 'None'
    need(isinstance(s, str), 'expected str or None, got %r' % (s,))
    return '(Some %s)' % blit(s)


def _strlist(xs):
    for x in xs:
        need(isinstance(x, str), 'expected str, got %r' % (x,))
    return '[' + '; '.join(blit(x) for x in xs) + ']'


def _fn_ast(fn):
    return ast.parse(textwrap.dedent(inspect.getsource(fn)))


def gen_tab():
    import sugar._io.tab.core as C
    import sugar._io.tab.mmseqs as M
    import sugar._io.tab.infernal as I
    # the tables are only ever indexed by key / searched by unique name: they are emitted in a canonical order, so that a
    # reordering of the source (which cannot change any lookup) does not change the generated file
    DIALECTS = ['blast', 'mmseqs', 'infernal']
    need(isinstance(C._HEADER, dict) and sorted(C._HEADER) == sorted(DIALECTS), '_HEADER keys are %r' % (list(C._HEADER),))
    body = ['Inductive coltype := TStr | TInt | TFloat.']
    for d in DIALECTS:
        hs = C._HEADER[d]
        need(isinstance(hs, list) and hs, '_HEADER[%r] is not a non-empty list' % d)
        for attr in ('name', 'long_name'):      # the two attributes _headers_from_fmtstrings searches by
            vals = [getattr(h, attr) for h in hs if hasattr(h, attr)]
            need(len(set(vals)) == len(vals), '%s values of %s are not unique (then the order of the list matters)' % (attr, d))
        rows = []
        for h in sorted(hs, key=lambda h: h.name):
            need(isinstance(h, tuple) and hasattr(h, 'name') and hasattr(h, 'type'), 'header entry %r' % (h,))
            need(h.type in TYPES, 'column type %r of %s.%s' % (h.type, d, h.name))
            need(set(h._fields) <= {'name', 'long_name', 'type', 'blast_equivalent'}, 'header fields %r' % (h._fields,))
            long_name = getattr(h, 'long_name', '')
            beq = getattr(h, 'blast_equivalent', h.name) if 'blast_equivalent' in h._fields else h.name
            need(isinstance(h.name, str) and isinstance(long_name, str), 'names of %r' % (h,))
            rows.append('(%s, %s, %s, %s)' % (blit(h.name), blit(long_name), TYPES[h.type], _opt(beq)))
        body.append('Definition HEADER_%s : list (str * str * coltype * option str) :=\n  [' % d + ';\n   '.join(rows) + '].')
    need(isinstance(C._CONVERTH, dict) and sorted(C._CONVERTH) == sorted(DIALECTS), '_CONVERTH keys')
    for d in DIALECTS:
        m = C._CONVERTH[d]
        need(isinstance(m, dict), '_CONVERTH[%r]' % d)
        m = dict(sorted(m.items(), key=lambda kv: (kv[0] is not None, kv[0] or '')))
        body.append('Definition CONVERTH_%s : list (option str * str) :=\n  [' % d +
                    '; '.join('(%s, %s)' % (_opt(k), blit(v)) for k, v in m.items()) + '].')
    need(isinstance(C._DEFAULT_OUTFMT, dict), '_DEFAULT_OUTFMT')
    body.append('Definition DEFAULT_OUTFMT : list (str * list str) :=\n  [' +
                ';\n   '.join('(%s, %s)' % (blit(k), _strlist(v)) for k, v in sorted(C._DEFAULT_OUTFMT.items())) + '].')
    need(isinstance(C._MMSEQS_HEADER_NAMES, list) and M._MMSEQS_HEADER_NAMES is C._MMSEQS_HEADER_NAMES, '_MMSEQS_HEADER_NAMES')
    body.append('Definition MMSEQS_HEADER_NAMES : list str := %s.' % _strlist(C._MMSEQS_HEADER_NAMES))
    need(isinstance(C.copyattrs, list) and all(isinstance(t, tuple) and len(t) == 2 for t in C.copyattrs), 'copyattrs')
    body.append('Definition copyattrs : list (str * str) := [' +
                '; '.join('(%s, %s)' % (blit(a), blit(b)) for a, b in C.copyattrs) + '].')
    need(isinstance(I._HEADER_KW, (set, frozenset)), 'infernal._HEADER_KW')
    body.append('Definition INFERNAL_HEADER_KW : list str := %s.' % _strlist(sorted(I._HEADER_KW)))
    # literal {ncols: version} inside read_tabular
    dicts = [n for n in ast.walk(_fn_ast(C.read_tabular)) if isinstance(n, ast.Dict) and n.keys and
             all(isinstance(k, ast.Constant) and isinstance(k.value, int) for k in n.keys)]
    need(len(dicts) == 1, 'expected exactly one {int: ...} literal in read_tabular, found %d' % len(dicts))
    dn = dicts[0]
    need(all(isinstance(v, ast.Constant) and isinstance(v.value, str) for v in dn.values), 'column-count map values')
    body.append('Definition INFERNAL_NCOLS : list (Z * str) := [' +
                '; '.join('(%d%%Z, %s)' % (k.value, blit(v.value)) for k, v in sorted(zip(dn.keys, dn.values), key=lambda kv: kv[0].value)) + '].')
    tups = [n for n in ast.walk(_fn_ast(I.is_fts_infernal)) if isinstance(n, ast.Tuple) and n.elts and
            all(isinstance(e, ast.Constant) and isinstance(e.value, int) and not isinstance(e.value, bool) for e in n.elts)]
    need(len(tups) == 1, 'expected exactly one tuple of ints in is_fts_infernal, found %d' % len(tups))
    body.append('Definition INFERNAL_SNIFF_NCOLS : list Z := [' + '; '.join('%d%%Z' % v for v in sorted(e.value for e in tups[0].elts)) + '].')
    # signature defaults of the reader wrappers (sep)
    import sugar._io.tab.blast as B
    for nm, fn in (('blast', B.read_fts_blast), ('mmseqs', M.read_fts_mmseqs)):
        sepd = inspect.signature(fn).parameters['sep'].default
        need(isinstance(sepd, str) and len(sepd) == 1 and ord(sepd) < 128, 'default sep of read_fts_%s is %r' % (nm, sepd))
        body.append('Definition DEFAULT_SEP_%s : byte := x%02x.' % (nm, ord(sepd)))
    need('sep' not in inspect.signature(I.read_fts_infernal).parameters, 'read_fts_infernal grew a sep parameter')
    emit('G_tab', 'sugar._io.tab.core._HEADER/_CONVERTH/_DEFAULT_OUTFMT/copyattrs, mmseqs, infernal', '\n'.join(body) + '\n')


GENERATORS = [gen_tab]
