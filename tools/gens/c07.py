"""C07: the list of all shipped genetic-code tables as records -> coq/gen/G_c07_tabs.v.

Nothing of a table's content is written here: the fields are the regenerated G_gc_<id> definitions (tools/gens/gcode.py,
which checks that every codon of tt/starts/stops/astarts/astops is a 3-letter word over ACGTRYSWKMBDHVN)."""
import json, os
from gen_data import emit, need


def gen_c07_tabs():
    import sugar.data
    gcs = json.load(open(os.path.join(os.path.dirname(sugar.data.__file__), 'data_gcode', 'gc.json')))
    need(isinstance(gcs, dict) and gcs, 'gc.json is not a non-empty object')
    keys = list(gcs)
    for k in keys:
        need(k.isdigit() and str(int(k)) == k, 'table key %r' % k)
        # gcode(tt) looks a table up by str(tt); values must be one-character strings
        need(all(isinstance(v, str) and len(v) == 1 for v in gcs[k]['tt'].values()), 'tt values of table %s' % k)
    body = 'From SV Require Import %s.\n' % ' '.join('G_gc_%s' % k for k in keys)
    body += ('Record gtab := { g_tt : list (N * byte); g_starts : list N; g_astarts : list N;\n'
             '                 g_stops : list N; g_astops : list N }.\n')
    for k in keys:
        body += ('Definition tab_%s : gtab := {| g_tt := G_gc_%s.tt; g_starts := G_gc_%s.starts; g_astarts := G_gc_%s.astarts;\n'
                 '  g_stops := G_gc_%s.stops; g_astops := G_gc_%s.astops |}.\n') % ((k,) * 6)
    body += 'Definition tabs : list (N * gtab) :=\n  [' + '; '.join('(%s%%N, tab_%s)' % (k, k) for k in keys) + '].\n'
    emit('G_c07_tabs', 'sugar/data/data_gcode/gc.json (all tables, as records for C07)', body)


def gen_c07_ok():
    """Per-table finite theorems (all 15^3 IUPAC codons), one file per table so that make checks them in parallel."""
    import sugar.data
    gcs = json.load(open(os.path.join(os.path.dirname(sugar.data.__file__), 'data_gcode', 'gc.json')))
    keys = list(gcs)
    for k in keys:
        body = ('From SV Require Import G_c07_tabs C07_Model.\n'
                '(* finite theorem: every one of the 15^3 codons of table %s satisfies aa_check (C07_Model.v) *)\n'
                'Lemma aa_ok : table_aa_ok tab_%s = true.\nProof. vm_cast_no_check (@eq_refl bool true). Qed.\n'
                'Lemma symbols_ok : tt_symbols_ok tab_%s = true.\nProof. vm_cast_no_check (@eq_refl bool true). Qed.\n') % (k, k, k)
        emit('G_c07_ok_%s' % k, 'gc.json table %s (finite theorems for C07)' % k, body)
    body = 'From SV Require Import G_c07_tabs C07_Model %s.\n' % ' '.join('G_c07_ok_%s' % k for k in keys)
    body += 'Lemma tabs_aa_ok : forallb (fun kt => table_aa_ok (snd kt)) tabs = true.\nProof.\n  unfold tabs. cbn [forallb snd].\n'
    body += ''.join('  rewrite G_c07_ok_%s.aa_ok.\n' % k for k in keys) + '  reflexivity.\nQed.\n'
    body += 'Lemma tabs_symbols_ok : forallb (fun kt => tt_symbols_ok (snd kt)) tabs = true.\nProof.\n  unfold tabs. cbn [forallb snd].\n'
    body += ''.join('  rewrite G_c07_ok_%s.symbols_ok.\n' % k for k in keys) + '  reflexivity.\nQed.\n'
    emit('G_c07_ok', 'gc.json (all tables, finite theorems for C07)', body)
    gen = os.path.join(os.path.dirname(os.path.abspath(__file__)), '..', '..', 'coq', 'gen')
    import re
    for f in os.listdir(gen):
        m = re.fullmatch(r'G_c07_ok_(\d+)\.v', f)
        if m and m.group(1) not in keys:
            os.remove(os.path.join(gen, f))


GENERATORS = [gen_c07_tabs, gen_c07_ok]
