"""C03 translator: detection chains, sniffer/extension tables, archive extensions, tabular header tables
of sugar._io -> coq/gen/G_c03.v (fail-closed)."""
from gen_data import emit, need, blit

_TYPES = {str: 0, int: 1, float: 2}


def _strlist(xs, what):
    need(isinstance(xs, (list, tuple)), '%s is not a list/tuple: %r' % (what, xs))
    for x in xs:
        need(isinstance(x, str), '%s contains a non-string: %r' % (what, x))
    return '[' + '; '.join(blit(x) for x in xs) + ']'


def gen_c03_io():
    import sugar._io.util as U
    import sugar._io.main as M
    import sugar._io.tab.core as T
    import sugar._io.tab.infernal as I
    import sugar._io.sjson as SJ
    out = []
    need(set(U.FMTS) == {'seqs', 'fts'} and set(U.FMTS_ALL) == {'seqs', 'fts'}, 'FMTS/FMTS_ALL keys changed')
    need(M.FMTS_ALL is U.FMTS_ALL and M.EPS is U.EPS, 'main.py no longer uses util.FMTS_ALL/EPS')
    for what in ('seqs', 'fts'):
        out.append('Definition FMTS_%s : list str := %s.' % (what, _strlist(U.FMTS[what], 'FMTS')))
        out.append('Definition FMTS_ALL_%s : list str := %s.' % (what, _strlist(U.FMTS_ALL[what], 'FMTS_ALL')))
        out.append('Definition EPS_names_%s : list str := %s.' % (what, _strlist(sorted(U.EPS[what].names), 'EPS names')))
        suf = '' if what == 'seqs' else '_fts'
        rows = []
        for fmt in U.FMTS_ALL[what]:
            module = U.EPS[what][fmt].load()
            has_sniffer = hasattr(module, 'is%s_%s' % (suf, fmt))
            binary = bool(M._binary(module, what))
            exts = getattr(module, 'filename_extensions%s_%s' % (suf, fmt), None)
            has_ext = exts is not None
            if has_ext:
                need(isinstance(exts, (list, tuple)), 'filename_extensions%s_%s is not a list (a str would make `in` a substring test)' % (suf, fmt))
            # (fmt, has sniffer, binary plugin, has extension list, extensions)
            rows.append('(%s, (%s, (%s, (%s, %s))))' % (blit(fmt), 'true' if has_sniffer else 'false', 'true' if binary else 'false',
                                                       'true' if has_ext else 'false', _strlist(exts or [], 'extensions')))
        out.append('Definition PLUGINS_%s : list (str * (bool * (bool * (bool * list str)))) :=\n  [%s].' % (what, ';\n   '.join(rows)))
    # which reader / writer functions every plugin offers: (fmt, (read_, (iter_, (write_, append_)))) for sequences,
    # (fmt, (read_fts_, (false, (write_fts_, false)))) for features  (main.py read / iter_ / write / read_fts / write_fts dispatch)
    for what in ('seqs', 'fts'):
        need(set(U.FMTS_ALL[what]) == set(U.EPS[what].names), 'FMTS_ALL[%s] is not the set of entry points' % what)
        rows = []
        for fmt in U.FMTS_ALL[what]:
            module = U.EPS[what][fmt].load()
            if what == 'seqs':
                flags = [hasattr(module, p + fmt) for p in ('read_', 'iter_', 'write_', 'append_')]
            else:
                flags = [hasattr(module, 'read_fts_' + fmt), False, hasattr(module, 'write_fts_' + fmt), False]
            rows.append('(%s, (%s, (%s, (%s, %s))))' % ((blit(fmt),) + tuple('true' if x else 'false' for x in flags)))
        out.append('Definition SUPPORT_%s : list (str * (bool * (bool * (bool * bool)))) :=\n  [%s].' % (what, ';\n   '.join(rows)))
    out.append('Definition ARCHIVE_EXTS : list str := %s.' % _strlist(U.ARCHIVE_EXTS, 'ARCHIVE_EXTS'))
    need(M.ARCHIVE_EXTS is U.ARCHIVE_EXTS, 'main.py no longer uses util.ARCHIVE_EXTS')
    # tabular tables
    for fmt in ('blast', 'mmseqs'):
        hs = T._HEADER[fmt]
        for h in hs:
            need(h.type in _TYPES, 'unexpected column type %r' % (h.type,))
        out.append('Definition HEADER_%s : list (str * N) :=\n  [%s].' % (
            fmt, '; '.join('(%s, %d%%N)' % (blit(h.name), _TYPES[h.type]) for h in hs)))
        out.append('Definition DEFAULT_OUTFMT_%s : list str := %s.' % (fmt, _strlist(T._DEFAULT_OUTFMT[fmt], 'DEFAULT_OUTFMT')))
        c = T._CONVERTH[fmt]
        for k in ('sstart', 'send', 'qstart', 'qend'):
            need(k in c and isinstance(c[k], str), '_CONVERTH[%s] lacks %s' % (fmt, k))
            out.append('Definition COL_%s_%s : str := %s.' % (fmt, k, blit(c[k])))
        for k, _ in T.copyattrs:
            need(k in c, 'copyattrs key %s missing in _CONVERTH[%s] (KeyError on every line)' % (k, fmt))
        need(c.get('sstrand', 'sstrand') == 'sstrand', 'sstrand is renamed for %s' % fmt)
    out.append('Definition MMSEQS_HEADER_NAMES : list str := %s.' % _strlist(T._MMSEQS_HEADER_NAMES, '_MMSEQS_HEADER_NAMES'))
    need(isinstance(I._HEADER_KW, (set, frozenset)), 'infernal._HEADER_KW is not a set')
    out.append('Definition INFERNAL_HEADER_KW : list str := %s.' % _strlist(sorted(I._HEADER_KW), '_HEADER_KW'))
    counts = [c for c in I.is_fts_infernal.__code__.co_consts if isinstance(c, tuple) and c and all(isinstance(x, int) for x in c)]
    need(len(counts) == 1, 'cannot find the tuple of admissible column counts in is_fts_infernal')
    out.append('Definition INFERNAL_NCOLS : list nat := [%s].' % '; '.join('%d%%nat' % x for x in counts[0]))
    need(isinstance(SJ.COMMENT, str), 'sjson.COMMENT is not a str')
    out.append('Definition SJSON_COMMENT : str := %s.' % blit(SJ.COMMENT))
    emit('G_c03', 'sugar._io.util FMTS/FMTS_ALL/EPS/ARCHIVE_EXTS, plugin sniffer/extension tables, sugar._io.tab.core tables, '
         'infernal._HEADER_KW, sjson.COMMENT', '\n'.join(out) + '\n')


GENERATORS = [gen_c03_io]
