"""C16: attribute names of sugar.core.meta.Meta that getattr(meta, name, None) resolves to a method instead of None
(metadata keys with these names are outside wf_C16, open finding F20) -> coq/gen/G_c16.v"""
from gen_data import emit, need, blit


def gen_c16_reserved():
    from sugar.core.meta import Meta, Attr
    import collections.abc
    need(issubclass(Meta, Attr) and issubclass(Attr, collections.abc.MutableMapping), 'Meta is no longer an Attr/MutableMapping')
    names = sorted(n for n in dir(Meta) if not n.startswith('_'))
    need(all(isinstance(n, str) and n.isascii() and n.isidentifier() for n in names), 'unexpected attribute name')
    # a missing key must still read as None through getattr(meta, key, None), everything else being a class attribute
    m = Meta()
    need(getattr(m, 'no_such_key', None) is None, 'getattr(meta, missing, None) is not None')
    need(all(getattr(m, n, None) is not None for n in names), 'class attribute reads as None')
    emit('G_c16', 'dir(sugar.core.meta.Meta)',
         'Definition meta_reserved_names : list str :=\n  [' + '; '.join(blit(n) for n in names) + '].\n')


# the operator semantics the model knows, by number (C16_Model.fop_of_code); written with plain Python operators
_REF = [lambda a, v: a < v, lambda a, v: a <= v, lambda a, v: a == v, lambda a, v: a != v, lambda a, v: a >= v, lambda a, v: a > v,
        lambda a, v: a in v, lambda a, v: a.lower() in v, lambda a, v: a.lower() == v, lambda a, v: v in a]
_NAMES = ['max', 'min', 'in', 'lowerin', 'lowereq', 'lt', 'le', 'eq', 'ne', 'ge', 'gt', 'contains']


def gen_c16_ops():
    """Which of the model's operator semantics does cane._filter give each documented operator name?  The table of aliases is a
    local of _filter (or wherever a refactoring puts it), so it is recovered by probing: every name is run on a battery of
    (element value, condition value) pairs and must behave exactly like ONE of the ten reference semantics."""
    import types
    from sugar.core.cane import _filter
    A = [None, 0, 1, 2, 'a', 'ab', 'AB', 'Ab', '', 'b']
    V = [None, 1, 2, 'a', 'ab', 'xabx', 'xABx', 'AB', '', ['a', 1, None], [], ('ab',), ['AB'], (0, 2)]

    def run(f):
        try:
            return bool(f())
        except Exception:
            return 'E'
    refs = [[run(lambda: r(a, v)) for a in A for v in V] for r in _REF]
    need(len(set(map(str, refs))) == len(refs), 'the battery does not separate the reference semantics')
    rows = []
    for name in _NAMES:
        obs = [run(lambda: len(_filter([types.SimpleNamespace(x=a)], attr=None, **{'x_' + name: v})) == 1) for a in A for v in V]
        codes = [i for i, r in enumerate(refs) if r == obs]
        need(len(codes) == 1, 'filter operator %r behaves like none of the documented operators' % name)
        rows.append('(%s, %d%%N)' % (blit(name), codes[0]))
    emit('G_c16_ops', 'probing sugar.core.cane._filter with every documented operator name',
         'Definition filter_op_codes : list (str * N) :=\n  [' + '; '.join(rows) + '].\n')


GENERATORS = [gen_c16_reserved, gen_c16_ops]
