"""C16: attribute names of sugar.core.meta.Meta that getattr(meta, name, None) resolves to a method instead of None
(metadata keys with these names are outside wf_C16, open finding F20) -> coq/gen/G_c16.v"""
from gen_data import emit, need, blit


def gen_c16_reserved():
    from sugar.core.meta import Meta, Attr
    import collections.abc
    need(issubclass(Meta, Attr) and issubclass(Attr, collections.abc.MutableMapping), 'Meta is no longer an Attr/MutableMapping')
    names = sorted(n for n in dir(Meta) if not n.startswith('_'))
    need(all(isinstance(n, str) and n.isascii() and n.isidentifier() for n in names), 'unexpected attribute name')
    # a missing key must still read as None through getattr(meta, key, None), everything else being a class attribute
    m = Meta()
    need(getattr(m, 'no_such_key', None) is None, 'getattr(meta, missing, None) is not None')
    need(all(getattr(m, n, None) is not None for n in names), 'class attribute reads as None')
    emit('G_c16', 'dir(sugar.core.meta.Meta)',
         'Definition meta_reserved_names : list str :=\n  [' + '; '.join(blit(n) for n in names) + '].\n')


GENERATORS = [gen_c16_reserved]
