"""Constants of the sequence-file plugins used by C01 -> coq/gen/G_c01_io.v
(FASTA id pattern text, SJSON comment line, file-name extensions, which writer entry points each plugin has)."""
from gen_data import emit, need, blit


def gen_c01_io():
    import sugar._io.fasta as FA
    import sugar._io.stockholm as ST
    import sugar._io.sjson as SJ
    import sugar._io.gff as GF
    body = []
    for nm in ('CHS', 'IDPATTERN'):
        v = getattr(FA, nm, None)
        need(isinstance(v, str), 'fasta.%s is not a str' % nm)
        body.append('Definition FASTA_%s_TEXT : str := %s.' % (nm, blit(v)))
    need(isinstance(SJ.COMMENT, str), 'sjson.COMMENT is not a str')
    body.append('Definition SJSON_COMMENT : str := %s.' % blit(SJ.COMMENT))
    for fmt, mod in (('fasta', FA), ('stockholm', ST), ('sjson', SJ), ('gff', GF)):
        ext = getattr(mod, 'filename_extensions_' + fmt, None)
        need(isinstance(ext, list) and all(isinstance(e, str) for e in ext), 'filename_extensions_%s' % fmt)
        body.append('Definition EXT_%s : list str := [%s].' % (fmt, '; '.join(blit(e) for e in ext)))
        # entry points looked up by sugar._io.main.write / read (main.py:262-277, 322-330, 403-414)
        for ep in ('append', 'write', 'read', 'iter'):
            body.append('Definition HAS_%s_%s : bool := %s.' % (ep, fmt, 'true' if hasattr(mod, '%s_%s' % (ep, fmt)) else 'false'))
        need(not getattr(mod, 'binary_fmt', False), '%s became a binary format' % fmt)
    emit('G_c01_io', 'sugar._io.fasta/stockholm/sjson/gff constants', '\n'.join(body) + '\n')


GENERATORS = [gen_c01_io]
