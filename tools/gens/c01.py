"""Constants of the sequence-file plugins used by C01 -> coq/gen/G_c01_io.v
(FASTA id pattern text, SJSON comment line, file-name extensions, which writer entry points each plugin has)."""
from gen_data import emit, need, blit


def canon_regex(pattern):
    """Canonical structural form of a regular expression (CPython's own parse tree, normalised): spellings that CPython parses to
    the same structure - [^\\s] / \\S, [|] / \\|, reordered character sets, reordered prefix-free literal alternatives - get
    the same text. Anything the walker does not know is rendered by repr, i.e. stays pinned as it is."""
    import re
    P = re._parser
    C = re._constants

    def seq(sub):
        out = []
        for op, av in sub:
            x = node(op, av)
            if out and x[0] == 'lit' and out[-1][0] == 'lit':
                out[-1] = ('lit', out[-1][1] + x[1])
            else:
                out.append(x)
        return ('seq', tuple(out)) if len(out) != 1 else out[0]

    def setitem(op, av):
        if op is C.LITERAL:
            return ('c', chr(av))
        if op is C.RANGE:
            return ('r', chr(av[0]), chr(av[1]))
        if op is C.CATEGORY:
            return ('cat', str(av))
        return ('?', repr((op, av)))

    def node(op, av):
        if op is C.LITERAL:
            return ('lit', chr(av))
        if op is C.NOT_LITERAL:
            return ('set', True, (('c', chr(av)),))
        if op is C.IN:
            neg = bool(av) and av[0][0] is C.NEGATE
            items = tuple(sorted(setitem(o, a) for o, a in av if o is not C.NEGATE))
            if items == (('cat', 'CATEGORY_SPACE'),):
                return ('space', not neg)
            if items == (('cat', 'CATEGORY_NOT_SPACE'),):
                return ('space', neg)
            if len(items) == 1 and items[0][0] == 'c' and not neg:
                return ('lit', items[0][1])
            # a negated set mentioning \s: record it as a set item so that [^,|;\s] keeps one spelling
            return ('set', neg, items)
        if op in (C.MAX_REPEAT, C.MIN_REPEAT):
            lo, hi, sub = av
            return ('rep', 'greedy' if op is C.MAX_REPEAT else 'lazy', lo, 'inf' if hi is C.MAXREPEAT else hi, seq(sub))
        if op is C.SUBPATTERN:
            gid, addf, delf, sub = av
            need(not addf and not delf, 'inline flags in the id pattern')
            return ('group', gid, seq(sub)) if gid is not None else seq(sub)
        if op is C.BRANCH:
            alts = [seq(a) for a in av[1]]
            lits = [a[1] for a in alts if a[0] == 'lit']
            if len(lits) == len(alts) and not any(x != y and y.startswith(x) for x in lits for y in lits):
                alts = sorted(alts)      # at most one of prefix-free literals matches at a position: order is irrelevant
            return ('alt', tuple(alts))
        return ('?', repr((op, av)))
    need(isinstance(pattern, str), 'pattern is not a str')
    return repr(seq(P.parse(pattern)))


def gen_c01_io():
    import sugar._io.fasta as FA
    import sugar._io.stockholm as ST
    import sugar._io.sjson as SJ
    import sugar._io.gff as GF
    body = []
    for nm in ('CHS', 'IDPATTERN'):
        v = getattr(FA, nm, None)
        need(isinstance(v, str), 'fasta.%s is not a str' % nm)
        body.append('Definition FASTA_%s_TEXT : str := %s.' % (nm, blit(v)))
    # structural form of the id pattern: what the hand-written matcher of the model is pinned to (C01_idpattern_pinned)
    body.append('Definition FASTA_IDPATTERN_CANON : str := %s.' % blit(canon_regex(FA.IDPATTERN)))
    need(isinstance(SJ.COMMENT, str), 'sjson.COMMENT is not a str')
    body.append('Definition SJSON_COMMENT : str := %s.' % blit(SJ.COMMENT))
    for fmt, mod in (('fasta', FA), ('stockholm', ST), ('sjson', SJ), ('gff', GF)):
        ext = getattr(mod, 'filename_extensions_' + fmt, None)
        need(isinstance(ext, list) and all(isinstance(e, str) for e in ext), 'filename_extensions_%s' % fmt)
        body.append('Definition EXT_%s : list str := [%s].' % (fmt, '; '.join(blit(e) for e in ext)))
        # entry points looked up by sugar._io.main.write / read (main.py:262-277, 322-330, 403-414)
        for ep in ('append', 'write', 'read', 'iter'):
            body.append('Definition HAS_%s_%s : bool := %s.' % (ep, fmt, 'true' if hasattr(mod, '%s_%s' % (ep, fmt)) else 'false'))
        need(not getattr(mod, 'binary_fmt', False), '%s became a binary format' % fmt)
    # plugin order of the sequence formats (main.py:83-103 detect, 105-121 detect_ext iterate FMTS_ALL['seqs']):
    # which plugins have a sniffer is_<fmt>, and the file-name extension table, both in that order
    from sugar._io.util import FMTS_ALL, EPS
    order = list(FMTS_ALL['seqs'])
    known = {'fasta', 'genbank', 'stockholm', 'gff', 'sjson'}
    need(set(order) == known, 'sequence plugins changed: %r' % (order,))
    sniff, exts = [], []
    for fmt in order:
        module = EPS['seqs'][fmt].load()
        if hasattr(module, 'is_' + fmt):
            sniff.append(fmt)
        if hasattr(module, 'filename_extensions_' + fmt):
            e = getattr(module, 'filename_extensions_' + fmt)
            need(isinstance(e, (list, tuple)) and all(isinstance(x, str) for x in e), 'filename_extensions_%s' % fmt)
            exts.append((fmt, list(e)))
    body.append('Definition SEQ_SNIFF_ORDER : list str := [%s].' % '; '.join(blit(x) for x in sniff))
    body.append('Definition SEQ_EXT_TABLE : list (str * list str) := [%s].'
                % '; '.join('(%s, [%s])' % (blit(f), '; '.join(blit(x) for x in e)) for f, e in exts))
    emit('G_c01_io', 'sugar._io.fasta/stockholm/sjson/gff constants', '\n'.join(body) + '\n')


GENERATORS = [gen_c01_io]
