"""Entrez rate-limit constants -> coq/gen/G_entrez.v"""
from gen_data import emit, need


def gen_entrez():
    from sugar.web._entrez import Entrez
    body = []
    for nm in ('_requests', '_requests_api_key', '_seconds'):
        v = getattr(Entrez, nm)
        need(isinstance(v, int) and not isinstance(v, bool) and 0 < v < 1000, 'Entrez.%s = %r is not a small positive int' % (nm, v))
        body.append('Definition entrez%s : nat := %d%%nat.' % (nm, v))
    # virtual clock: 1024 ticks per second
    body.append('Definition ticks_per_second : Z := 1024%Z.')
    emit('G_entrez', 'sugar.web._entrez.Entrez._requests/_requests_api_key/_seconds', '\n'.join(body) + '\n')


GENERATORS = [gen_entrez]
