"""C17 round 7: the raw text of gc.prt (input of convert.py) and, per table of gc.json, the fields the older generator does not
emit (aa_line, sc_line) together with the finite theorem "the Gallina model of convert.py, run on the text of gc.prt and
sugar.data.CODES, produces this table of gc.json" (coq/gen/G_gcconv_<id>.v, G_gc_conv_all.v)."""
import json, os, re
from gen_data import emit, need, blit


def _dir():
    import sugar.data
    return os.path.join(os.path.dirname(sugar.data.__file__), 'data_gcode')


def gen_gcode_prt_text():
    raw = open(os.path.join(_dir(), 'gc.prt'), 'rb').read()
    need(all(b < 128 for b in raw), 'gc.prt is not ASCII')
    emit('G_gc_prt_text', 'sugar/data/data_gcode/gc.prt (raw bytes)',
         'Definition prt_text : str :=\n  [' + '; '.join('x%02x' % b for b in raw) + '].\n')


def gen_gcode_conv():
    gcs = json.load(open(os.path.join(_dir(), 'gc.json')))
    keys = list(gcs)
    for n, k in enumerate(keys):
        t = gcs[k]
        need(isinstance(t.get('aa_line'), str) and isinstance(t.get('sc_line'), str), 'aa_line / sc_line of table %s' % k)
        body = ('From SV Require Import C17_Model C17_Convert C17_ConvSpec G_codes G_gc_ids G_gc_prt_text G_gcrec_%s.\n'
                'Definition aa_line : str := %s.\nDefinition sc_line : str := %s.\n'
                'Definition pos : nat := %d%%nat.\n'
                '(* finite theorem: the model of convert.py run on gc.prt yields exactly this table of gc.json *)\n'
                'Lemma conv_matches_json : conv_ok CODES prt_text pos G_gcrec_%s.rec aa_line sc_line = true.\n'
                'Proof. vm_compute. reflexivity. Qed.\n') % (k, blit(t['aa_line']), blit(t['sc_line']), n, k)
        emit('G_gcconv_%s' % k, 'gc.json table %s vs the model of convert.py on gc.prt' % k, body)
    body = 'From SV Require Import C17_Model C17_Convert C17_ConvSpec G_codes G_gc_ids G_gc_prt_text G_gc_all %s.\n' % ' '.join(
        'G_gcconv_%s' % k for k in keys)
    body += ('Definition all_lines : list (str * str) := [' +
             '; '.join('(G_gcconv_%s.aa_line, G_gcconv_%s.sc_line)' % (k, k) for k in keys) + '].\n')
    body += ('Lemma all_conv_ok : forallb (fun x => conv_ok CODES prt_text (fst (fst x)) (snd (fst x)) (fst (snd x)) (snd (snd x)))\n'
             '  (combine (combine (seq 0 (length all_tables)) all_tables) all_lines) = true.\nProof.\n'
             '  unfold all_tables, all_lines. cbn [length seq combine forallb fst snd].\n')
    for n, k in enumerate(keys):
        body += '  rewrite (G_gcconv_%s.conv_matches_json : conv_ok CODES prt_text %d%%nat _ _ _ = true).\n' % (k, n)
    body += '  reflexivity.\nQed.\n'
    body += ('(* the tables are emitted in the key order of gc.json, each id once (no table is overwritten) *)\n'
             'Lemma emitted_ids_ok : emitted_ids_check prt_text json_ids = true.\nProof. vm_compute. reflexivity. Qed.\n'
             'Lemma all_lines_len : length all_lines = length all_tables.\nProof. reflexivity. Qed.\n')
    emit('G_gc_conv_all', 'gc.json vs the model of convert.py (all tables)', body)
    gen = os.path.join(os.path.dirname(os.path.abspath(__file__)), '..', '..', 'coq', 'gen')
    for f in os.listdir(gen):
        m = re.fullmatch(r'G_gcconv_(\d+)\.v', f)
        if m and m.group(1) not in keys:
            os.remove(os.path.join(gen, f))


GENERATORS = [gen_gcode_prt_text, gen_gcode_conv]
