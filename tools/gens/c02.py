"""GFF constants of sugar -> coq/gen/G_gff.v (copyattrs, reserved Attr names, urllib always-safe set)."""
from gen_data import emit, need, blit


def gen_gff():
    import sugar._io.gff as G
    from sugar.core.meta import Attr
    import urllib.parse as U
    ca = G.copyattrs
    need(isinstance(ca, (list, tuple)) and all(isinstance(p, tuple) and len(p) == 2 and all(isinstance(x, str) for x in p)
                                               for p in ca), 'gff.copyattrs is not a list of str pairs: %r' % (ca,))
    body = ['Definition copyattrs : list (str * str) :=\n  [' + '; '.join('(%s, %s)' % (blit(a), blit(b)) for a, b in ca) + '].']
    # names that shadow mapping methods when stored in the instance __dict__ of Attr (finding F20)
    res = sorted(n for n in dir(Attr) if not n.startswith('_'))
    need(all(n.isidentifier() for n in res) and 5 <= len(res) <= 40, 'unexpected public names of Attr: %r' % (res,))
    body.append('Definition attr_reserved : list str :=\n  [' + '; '.join(blit(n) for n in res) + '].')
    # the gff module must use urllib's quote/unquote with default arguments
    need(G.quote is U.quote and G.unquote is U.unquote, 'gff.py no longer uses urllib.parse.quote/unquote')
    safe = ''.join(chr(c) for c in range(128) if U.quote(chr(c)) == chr(c))
    need(all(U.quote(chr(c)) == '%%%02X' % c for c in range(128) if chr(c) not in safe), 'quote() is not %XX on unsafe ASCII')
    body.append('Definition quote_safe_chars : str := %s.' % blit(safe))
    fe = G.filename_extensions_fts_gff
    need(fe == ['gff'], 'filename_extensions_fts_gff changed: %r' % (fe,))
    # read_fts / write_fts dispatch: the registered feature formats in the order detect_ext() tries them, with their extensions
    from sugar._io.util import EPS, FMTS_ALL
    rows = []
    for fmt in FMTS_ALL['fts']:
        mod = EPS['fts'][fmt].load()
        exts = getattr(mod, 'filename_extensions_fts_' + fmt, [])
        need(isinstance(exts, (list, tuple)) and all(isinstance(e, str) for e in exts), 'filename_extensions_fts_%s: %r' % (fmt, exts))
        need(fmt == fmt.lower(), 'format name %r is not lower case (read_fts lower-cases fmt before the lookup)' % fmt)
        rows.append((fmt, list(exts), hasattr(mod, 'read_fts_' + fmt), hasattr(mod, 'write_fts_' + fmt)))
    need(all(any(r[0] == f and r[2] and r[3] for r in rows) for f in ('gff', 'tsv', 'csv')), 'gff/tsv/csv no longer have a feature reader and writer')
    body.append('Definition fts_exts : list (str * list str) :=\n  [' + '; '.join('(%s, [%s])' % (blit(f), '; '.join(blit(e) for e in ex))
                                                                             for f, ex, _, _ in rows) + '].')
    emit('G_gff', 'sugar._io.gff.copyattrs, dir(sugar.core.meta.Attr), urllib.parse.quote safe set, sugar._io.util.FMTS_ALL[fts] + filename_extensions_fts_*', '\n'.join(body) + '\n')


GENERATORS = [gen_gff]
