"""Genetic-code tables: sugar/data/data_gcode/gc.json (what gcode() loads) and gc.prt (NCBI definition,
parsed here by an independent parser) -> coq/gen/G_gc_<id>.v, G_gc_prt.v, G_gc_ids.v.

Codons are numbers in base 15 over the letter order LETTERS (c = 225*l1 + 15*l2 + l3)."""
import json, os, re
from gen_data import emit, need, bstr, b1, blit

LETTERS = 'ACGTRYSWKMBDHVN'


def codon_num(c):
    need(isinstance(c, str) and len(c) == 3 and all(ch in LETTERS for ch in c), 'codon %r not over %s' % (c, LETTERS))
    return LETTERS.index(c[0]) * 225 + LETTERS.index(c[1]) * 15 + LETTERS.index(c[2])


def nlist(cs):
    return '[' + '; '.join('%d' % codon_num(c) for c in cs) + ']%N'


def gen_gcode_json():
    import sugar.data
    d = os.path.join(os.path.dirname(sugar.data.__file__), 'data_gcode')
    gcs = json.load(open(os.path.join(d, 'gc.json')))
    need(isinstance(gcs, dict) and gcs, 'gc.json is not a non-empty object')
    ids = []
    for key, t in gcs.items():
        need(key.isdigit(), 'table key %r' % key)
        need(isinstance(t, dict) and set(t) >= {'id', 'name', 'tt', 'ttinv', 'starts', 'astarts', 'stops', 'astops'},
             'table %s lacks expected fields' % key)
        need(isinstance(t['id'], int), 'id of table %s' % key)
        ids.append(int(key))
        for fld in ('starts', 'astarts', 'stops', 'astops'):
            need(isinstance(t[fld], list), '%s of table %s is not a list' % (fld, key))
        need(isinstance(t['tt'], dict) and isinstance(t['ttinv'], dict), 'tt/ttinv of table %s' % key)
        body = []
        body.append('Definition key : N := %d%%N.' % int(key))
        body.append('Definition gc_id : N := %d%%N.' % t['id'])
        body.append('Definition gc_name : str := %s.' % blit(t['name']))
        body.append('Definition tt : list (N * byte) :=\n  [' +
                    '; '.join('(%d%%N, %s)' % (codon_num(c), b1(a)) for c, a in t['tt'].items()) + '].')
        for fld in ('starts', 'stops', 'astarts', 'astops'):
            body.append('Definition %s : list N := %s.' % (fld, nlist(t[fld])))
        body.append('Definition ttinv : list (byte * list N) :=\n  [' +
                    '; '.join('(%s, %s)' % (b1(a), nlist(cs)) for a, cs in t['ttinv'].items()) + '].')
        emit('G_gc_%s' % key, 'sugar/data/data_gcode/gc.json table %s' % key, '\n'.join(body) + '\n')
    emit('G_gc_ids', 'sugar/data/data_gcode/gc.json keys',
         'Definition json_ids : list N := [' + '; '.join('%d' % i for i in ids) + ']%N.\n' +
         'Definition letters : str := %s.\n' % blit(LETTERS))
    # remove stale table files
    gen = os.path.join(os.path.dirname(os.path.dirname(os.path.abspath(__file__))), '..', 'coq', 'gen')
    for f in os.listdir(gen):
        m = re.fullmatch(r'G_gc_(\d+)\.v', f)
        if m and int(m.group(1)) not in ids:
            os.remove(os.path.join(gen, f))


def gen_gcode_prt():
    """Independent reading of the NCBI ASN.1 print form: id, first name, ncbieaa, sncbieaa, base lines."""
    import sugar.data
    p = os.path.join(os.path.dirname(sugar.data.__file__), 'data_gcode', 'gc.prt')
    txt = open(p, encoding='latin-1').read()
    txt = re.sub(r'(?m)^\s*--[^\n]*$', '', txt)   # comment lines (the Base1..3 lines are comments: read from raw below)
    raw = open(p, encoding='latin-1').read()
    bases = re.findall(r'--\s*Base([123])\s+([TCAG]{64})', raw)
    need(len(bases) >= 3, 'Base1-3 lines not found in gc.prt')
    b = {k: v for k, v in bases[:3]}
    need(b['1'] == 'T' * 16 + 'C' * 16 + 'A' * 16 + 'G' * 16, 'unexpected Base1 order')
    need(b['2'] == ('TTTTCCCCAAAAGGGG') * 4 and b['3'] == 'TCAG' * 16, 'unexpected Base2/3 order')
    need(all(v == b[k] for k, v in bases), 'Base lines differ between tables')
    blocks = re.findall(r'\{([^{}]*)\}', txt)
    tabs = []
    for blk in blocks:
        names = re.findall(r'name\s+"([^"]*)"', blk, re.S)
        mid = re.search(r'\bid\s+(\d+)', blk)
        aa = re.search(r'\bncbieaa\s+"([^"]{64})"', blk)
        sc = re.search(r'\bsncbieaa\s+"([^"]{64})"', blk)
        if not (mid and aa and sc and names):
            continue
        full = [re.sub(r'\s+', ' ', n).strip() for n in names if not n.strip().startswith('SGC')]
        need(full, 'table %s has no long name' % mid.group(1))
        tabs.append((int(mid.group(1)), full[-1], aa.group(1), sc.group(1)))
    need(len(tabs) >= 20, 'only %d tables parsed from gc.prt' % len(tabs))
    body = ('Definition prt_tables : list (N * (str * str * str)) :=\n  [' +
            ';\n   '.join('(%d%%N, (%s, %s, %s))' % (i, blit(n), blit(a), blit(s)) for i, n, a, s in tabs) + '].\n')
    emit('G_gc_prt', 'sugar/data/data_gcode/gc.prt', body)


GENERATORS = [gen_gcode_json, gen_gcode_prt]
