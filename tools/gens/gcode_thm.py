"""Per-table instantiation files: coq/gen/G_gcrec_<id>.v (the table as a C17_Model.table record and the finite theorem
check_table_prt = true, decided by vm_compute over all 3375 IUPAC codons) and coq/gen/G_gc_all.v (the list of all shipped tables)."""
import json, os
from gen_data import emit, need


def gen_gcode_records():
    import sugar.data
    gcs = json.load(open(os.path.join(os.path.dirname(sugar.data.__file__), 'data_gcode', 'gc.json')))
    keys = list(gcs)
    for k in keys:
        body = ('From SV Require Import C17_Model G_gc_%s.\n'
                'Definition rec : table := {| t_key := G_gc_%s.key; t_id := G_gc_%s.gc_id; t_name := G_gc_%s.gc_name;\n'
                '  t_tt := G_gc_%s.tt; t_starts := G_gc_%s.starts; t_stops := G_gc_%s.stops; t_astarts := G_gc_%s.astarts;\n'
                '  t_astops := G_gc_%s.astops; t_ttinv := G_gc_%s.ttinv |}.\n'
                '(* finite theorem: every one of the 15^3 codons, all clauses *)\n'
                'Lemma json_matches_prt : check_table_prt rec = true.\nProof. vm_compute. reflexivity. Qed.\n') % ((k,) * 10)
        emit('G_gcrec_%s' % k, 'gc.json table %s (record + finite theorem)' % k, body)
    body = 'From SV Require Import C17_Model %s.\n' % ' '.join('G_gcrec_%s' % k for k in keys)
    body += 'Definition all_tables : list table := [' + '; '.join('G_gcrec_%s.rec' % k for k in keys) + '].\n'
    body += 'Lemma all_tables_ok : forallb check_table_prt all_tables = true.\nProof.\n  unfold all_tables. cbn [forallb].\n'
    body += ''.join('  rewrite G_gcrec_%s.json_matches_prt.\n' % k for k in keys)
    body += '  reflexivity.\nQed.\n'
    body += 'Lemma all_ids_ok : ids_match all_tables = true.\nProof. vm_compute. reflexivity. Qed.\n'
    emit('G_gc_all', 'gc.json (all tables)', body)
    gen = os.path.join(os.path.dirname(os.path.abspath(__file__)), '..', '..', 'coq', 'gen')
    import re
    for f in os.listdir(gen):
        m = re.fullmatch(r'G_gcrec_(\d+)\.v', f)
        if m and m.group(1) not in keys:
            os.remove(os.path.join(gen, f))


GENERATORS = [gen_gcode_records]
