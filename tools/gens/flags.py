"""Numeric values of sugar.core.fts.Defect / Strand members -> coq/gen/G_flags.v"""
from gen_data import emit, need, b1, blit


def gen_flags():
    from sugar.core.fts import Defect, Strand
    names = ['NONE', 'MISS_LEFT', 'MISS_RIGHT', 'BEYOND_LEFT', 'BEYOND_RIGHT', 'UNKNOWN_LEFT', 'UNKNOWN_RIGHT',
             'BETWEEN_CONSECUTIVE', 'UNKNOWN_SINGLE_BETWEEN']
    body = []
    for n in names:
        need(hasattr(Defect, n), 'Defect.%s missing' % n)
        v = getattr(Defect, n).value
        need(isinstance(v, int) and 0 <= v < 2 ** 16, 'Defect.%s value %r' % (n, v))
        body.append('Definition D_%s : N := %d%%N.' % (n, v))
    members = [m.name for m in Defect]
    need(set(members) <= set(names), 'unexpected Defect members %r' % (set(members) - set(names),))
    body.append('Definition defect_members : list (str * N) :=\n  [' +
                '; '.join('(%s, %d%%N)' % (blit(m.name), m.value) for m in Defect) + '].')
    for n in ('FORWARD', 'REVERSE', 'NONE', 'UNKNOWN'):
        v = getattr(Strand, n).value
        need(isinstance(v, str) and len(v) == 1, 'Strand.%s value %r' % (n, v))
        body.append('Definition S_%s : byte := %s.' % (n, b1(v)))
    need(len(list(Strand)) == 4, 'unexpected Strand members')
    emit('G_flags', 'sugar.core.fts.Defect, Strand', '\n'.join(body) + '\n')


GENERATORS = [gen_flags]
