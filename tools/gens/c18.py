"""C18: names that an Attr/Meta instance already resolves as attributes (dir(Meta)) -> coq/gen/G_attr.v

Attr keeps its items in the instance __dict__ (meta.py:46-57), so a key equal to one of these names shadows (or is shadowed
by) a method or data descriptor: that is the open finding F20.  The C18 domain predicate excludes exactly this set (plus all
__dunder__ names, which CPython protocols such as copy/pickle look up on the instance).  The set is read from the class as it
is NOW, so adding a method to Attr/Meta moves the domain boundary of the theorems and of the correspondence with it.
"""
from gen_data import emit, need, blit


def gen_attr_reserved():
    import collections.abc
    from sugar.core.meta import Attr, Meta
    need(issubclass(Meta, Attr), 'Meta is not a subclass of Attr')
    need(issubclass(Attr, collections.abc.MutableMapping), 'Attr is not a MutableMapping')
    # the storage scheme the model (and F20) rests on: items live in the instance __dict__
    a = Attr()
    a['k'] = 1
    need(vars(a) == {'k': 1}, 'Attr no longer stores its items in the instance __dict__')
    need(Attr.__setattr__ is Attr.__setitem__ and Attr.__delattr__ is Attr.__delitem__,
         'Attr.__setattr__/__delattr__ are no longer aliases of __setitem__/__delitem__')
    names = sorted(set(dir(Meta)) | set(dir(Attr)))
    need(all(isinstance(n, str) and n.isascii() for n in names), 'non-ASCII attribute name')
    for n in ('items', 'keys', 'values', 'get', 'update', 'pop', 'copy', 'setdefault', 'clear', 'popitem'):
        need(n in names, 'mapping method %s missing from dir(Meta)' % n)
    body = ('Definition ATTR_RESERVED : list str :=\n  [' + ';\n   '.join(blit(n) for n in names) + '].\n')
    emit('G_attr', 'dir(sugar.core.meta.Meta)', body)


# BioSeq.str.<m>() works in place (returns the sequence) for some m and returns a value for the others; BioBasket.str.<m>() must
# hand back the basket exactly for the first group -- for baskets of ANY size, the empty one included (seq.py:173-199).
# The table of OBSERVED behaviour is regenerated on every run; C18_str_namespace_agrees is proved over it by computation.
STR_ARGS = {'center': (9, '-'), 'count': ('A',), 'removeprefix': ('A',), 'removesuffix': ('A',), 'endswith': ('A',), 'find': ('A',),
            'index': ('A',), 'ljust': (9, 'N'), 'rjust': (9, 'N'), 'lstrip': ('A',), 'rstrip': ('A',), 'strip': ('A',),
            'replace': ('A', 'G'), 'rfind': ('A',), 'rindex': ('A',), 'split': ('A',), 'rsplit': ('A',), 'startswith': ('A',),
            'translate': ({65: 'T'},), 'maketrans': ('A', 'T')}


def str_table():
    """[(method, kind of BioSeq.str.m: 1 in place / 0 value / 2 raises, [BioBasket.str.m is the basket: 1 / 0 / 2 raises, for 0, 1, 2 sequences])]"""
    import warnings
    from sugar import BioSeq, BioBasket
    from sugar.core.seq import _BioSeqStr
    rows = []
    for m in sorted(n for n in dir(_BioSeqStr) if not n.startswith('_')):
        args = STR_ARGS.get(m, ())

        def seq_kind():
            s = BioSeq('ACGTA', id='a')
            try:
                r = getattr(s.str, m)(*args)
            except Exception:
                return 2
            return 1 if r is s else 0

        def basket_flag(n):
            b = BioBasket([BioSeq('ACGTA', id='a'), BioSeq('TTAGCA', id='b')][:n])
            try:
                r = getattr(b.str, m)(*args)
            except Exception:
                return 2
            return 1 if r is b else 0
        with warnings.catch_warnings():
            warnings.simplefilter('ignore')
            rows.append((m, seq_kind(), [basket_flag(n) for n in (0, 1, 2)]))
    return rows


def gen_c18_str():
    rows = str_table()
    need(len(rows) >= 20, 'BioSeq.str namespace has only %d public methods' % len(rows))
    need(any(m == 'lower' for m, _, _ in rows) and any(m == 'find' for m, _, _ in rows), 'str.lower / str.find missing')
    need(all(m.isascii() for m, _, _ in rows), 'non-ASCII method name')
    body = ('Definition STR_TABLE : list (str * (N * list N)) :=\n  [' +
            ';\n   '.join('(%s, (%d%%N, [%s]))' % (blit(m), k, '; '.join('%d%%N' % f for f in fl)) for m, k, fl in rows) + '].\n')
    emit('G_c18_str', 'observed behaviour of sugar.core.seq._BioSeqStr / _BioBasketStr', body)


GENERATORS = [gen_attr_reserved, gen_c18_str]
