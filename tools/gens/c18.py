"""C18: names that an Attr/Meta instance already resolves as attributes (dir(Meta)) -> coq/gen/G_attr.v

Attr keeps its items in the instance __dict__ (meta.py:46-57), so a key equal to one of these names shadows (or is shadowed
by) a method or data descriptor: that is the open finding F20.  The C18 domain predicate excludes exactly this set (plus all
__dunder__ names, which CPython protocols such as copy/pickle look up on the instance).  The set is read from the class as it
is NOW, so adding a method to Attr/Meta moves the domain boundary of the theorems and of the correspondence with it.
"""
from gen_data import emit, need, blit


def gen_attr_reserved():
    import collections.abc
    from sugar.core.meta import Attr, Meta
    need(issubclass(Meta, Attr), 'Meta is not a subclass of Attr')
    need(issubclass(Attr, collections.abc.MutableMapping), 'Attr is not a MutableMapping')
    # the storage scheme the model (and F20) rests on: items live in the instance __dict__
    a = Attr()
    a['k'] = 1
    need(vars(a) == {'k': 1}, 'Attr no longer stores its items in the instance __dict__')
    need(Attr.__setattr__ is Attr.__setitem__ and Attr.__delattr__ is Attr.__delitem__,
         'Attr.__setattr__/__delattr__ are no longer aliases of __setitem__/__delitem__')
    names = sorted(set(dir(Meta)) | set(dir(Attr)))
    need(all(isinstance(n, str) and n.isascii() for n in names), 'non-ASCII attribute name')
    for n in ('items', 'keys', 'values', 'get', 'update', 'pop', 'copy', 'setdefault', 'clear', 'popitem'):
        need(n in names, 'mapping method %s missing from dir(Meta)' % n)
    body = ('Definition ATTR_RESERVED : list str :=\n  [' + ';\n   '.join(blit(n) for n in names) + '].\n')
    emit('G_attr', 'dir(sugar.core.meta.Meta)', body)


GENERATORS = [gen_attr_reserved]
