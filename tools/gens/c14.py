"""C14: constants of sugar/_io/sjson.py and the attribute sets the SJSON encoder/decoder rest on -> coq/gen/G_sjson.v

Emitted (read from the classes as they are NOW, fail-closed):
  SJSON_CLASSES        names of the classes in sjson.SUGAR (the `_cls` tags, type(o).__name__)
  SJSON_COMMENT        sjson.COMMENT (value of the `_fmtcomment` entry written first)
  SJSON_VARS_<cls>     keys of vars(o) of a freshly constructed instance (what `o.__dict__.items()` enumerates in the encoder)
  SJSON_INIT_<cls>     parameter names of cls.__init__ / __new__ (what `cls(**d)` of _json_hook accepts)
  SJSON_ATTR_RESERVED  public names an Attr/Meta instance already resolves as attributes (F20 region: mapping methods, tostr)
The model pins these with reflexivity lemmas (proof/C14_Lemmas.v): a new public attribute, a renamed constructor parameter or a
renamed class breaks the build and is reported as a broken tie."""
import inspect
from gen_data import emit, need, blit


def _strlist(xs):
    for x in xs:
        need(isinstance(x, str) and x.isascii(), 'expected ASCII str, got %r' % (x,))
    return '[' + '; '.join(blit(x) for x in xs) + ']'


def _params(fn):
    ps = list(inspect.signature(fn).parameters.values())
    return [('*' if p.kind == p.VAR_POSITIONAL else '**' if p.kind == p.VAR_KEYWORD else '') + p.name for p in ps][1:]


def gen_sjson():
    import json
    import sugar._io.sjson as S
    from sugar.core.fts import Location, Feature, FeatureList, Strand, Defect, LocationTuple
    from sugar.core.meta import Attr, Meta
    from sugar.core.seq import BioSeq, BioBasket
    need(isinstance(S.SUGAR, tuple) and all(isinstance(c, type) for c in S.SUGAR), 'sjson.SUGAR is not a tuple of classes')
    # SUGAR is only ever the second argument of isinstance(): its order cannot matter, so it is emitted sorted
    names = sorted(c.__name__ for c in S.SUGAR)
    for c in S.SUGAR:
        need(getattr(S, c.__name__, None) is c, 'class %s is not reachable through globals() of sjson' % c.__name__)
    need(isinstance(S.COMMENT, str), 'COMMENT is not a str')
    # facts about the JSON text layer the tree-level model relies on: which objects reach _SJSONEncoder.default
    need(issubclass(Strand, str) and issubclass(Defect, int), 'Strand/Defect are no longer str/int subclasses (encoded natively by json)')
    need(issubclass(LocationTuple, tuple), 'LocationTuple is no longer a tuple (encoded natively as a JSON array)')
    for c in (Attr, Meta, BioSeq, BioBasket, FeatureList, Feature, Location):
        need(not issubclass(c, (dict, list, tuple, str, int, float)), '%s would be encoded natively by json' % c.__name__)
    need(issubclass(Meta, Attr), 'Meta is not a subclass of Attr')
    a = Attr()
    a['k'] = 1
    need(vars(a) == {'k': 1}, 'Attr no longer stores its items in the instance __dict__')
    need(S.read_sjson.__code__.co_names[:2] == ('json', 'load') or 'load' in S.read_sjson.__code__.co_names, 'read_sjson does not call json.load')
    loc = Location(1, 2)
    samples = {'BioSeq': BioSeq('A'), 'BioBasket': BioBasket(), 'FeatureList': FeatureList(), 'Location': loc,
               'Feature': Feature(locs=[loc])}
    body = ['Definition SJSON_CLASSES : list str := %s.' % _strlist(names),
            'Definition SJSON_COMMENT : str := %s.' % blit(S.COMMENT)]
    for n, o in samples.items():
        body.append('Definition SJSON_VARS_%s : list str := %s.' % (n, _strlist(list(vars(o)))))
    inits = {'BioSeq': BioSeq.__init__, 'BioBasket': BioBasket.__init__, 'FeatureList': FeatureList.__init__,
             'Location': Location.__init__, 'Feature': Feature.__init__, 'LocationTuple': LocationTuple.__new__,
             'Attr': Attr.__init__}
    need(Meta.__init__ is Attr.__init__, 'Meta overrides __init__')
    for n, f in inits.items():
        body.append('Definition SJSON_INIT_%s : list str := %s.' % (n, _strlist(_params(f))))
    # is_sjson: content = f.read(N); COMMENT[:M].lower() in content.lower()   (constants live in the function body: read from the AST)
    import ast, textwrap
    tree = ast.parse(textwrap.dedent(inspect.getsource(S.is_sjson)))
    reads = [n.args[0].value for n in ast.walk(tree) if isinstance(n, ast.Call) and isinstance(n.func, ast.Attribute)
             and n.func.attr == 'read' and len(n.args) == 1 and isinstance(n.args[0], ast.Constant)]
    slices = [n.slice.upper.value for n in ast.walk(tree) if isinstance(n, ast.Subscript) and isinstance(n.value, ast.Name)
              and n.value.id == 'COMMENT' and isinstance(n.slice, ast.Slice) and n.slice.lower is None
              and isinstance(n.slice.upper, ast.Constant)]
    need(len(reads) == 1 and isinstance(reads[0], int) and 0 < reads[0] < 5000, 'is_sjson: cannot find the single f.read(N)')
    need(len(slices) == 1 and isinstance(slices[0], int) and 0 < slices[0] < 5000, 'is_sjson: cannot find COMMENT[:M]')
    src = inspect.getsource(S.is_sjson)
    need('.lower() in content.lower()' in src.replace(' ', ' '), 'is_sjson is no longer a case-insensitive substring test')
    body.append('Definition SJSON_SNIFF_READ : nat := %d%%nat.' % reads[0])
    body.append('Definition SJSON_SNIFF_PREFIX : nat := %d%%nat.' % slices[0])
    glob = sorted(k for k in vars(S) if isinstance(k, str) and k.isascii())
    body.append('Definition SJSON_GLOBALS : list str := %s.' % _strlist(glob))
    # json.dump is called with default separators / ensure_ascii (the text-head model and every transport rest on it)
    wsrc = inspect.getsource(S.write_sjson)
    need('json.dump(seqs, f, cls=_SJSONEncoder)' in wsrc, 'write_sjson no longer calls json.dump(seqs, f, cls=_SJSONEncoder) with default options')
    res = sorted(n for n in set(dir(Meta)) | set(dir(Attr)) if not n.startswith('_'))
    body.append('Definition SJSON_ATTR_RESERVED : list str := %s.' % _strlist(res))
    emit('G_sjson', 'sugar._io.sjson (SUGAR, COMMENT), vars()/signatures of the serialised classes, dir(Meta)', '\n'.join(body) + '\n')


GENERATORS = [gen_sjson]
