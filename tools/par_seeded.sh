#!/bin/bash
# usage: tools/par_seeded.sh <nclones> [--benign] [--no-tests] name ...
# Evaluates seeded (or benign) changes in parallel: makes <nclones> scratch copies of /verif under /tmp (each with its own
# coq/ build, lock and replays), deals the names round-robin, runs tools/run_seeded.py in each copy, copies every
# result.json back to /verif/{seeded,benign}/<name>/ and removes the copies. Nothing under /tmp is needed afterwards.
N=$1; shift
FLAGS=""; DIR=seeded
while [[ "$1" == --* ]]; do FLAGS="$FLAGS $1"; [ "$1" == "--benign" ] && DIR=benign; shift; done
NAMES=("$@")
for k in $(seq 1 $N); do
  ( c=/tmp/vpar-$$-$k; rm -rf $c; cp -a /verif $c; rm -rf $c/.git $c/build/.lock $c/build/.commit.lock
    mine=(); i=0; for n in "${NAMES[@]}"; do [ $((i % N + 1)) -eq $k ] && mine+=($n); i=$((i+1)); done
    if [ ${#mine[@]} -gt 0 ]; then
      (cd $c && /venv/bin/python tools/run_seeded.py "${mine[@]}" $FLAGS 2>&1 | grep -v conda)
      for n in "${mine[@]}"; do [ -f $c/$DIR/$n/result.json ] && cp $c/$DIR/$n/result.json /verif/$DIR/$n/result.json; done
    fi
    rm -rf $c ) &
done
wait
