#!/bin/sh
# run the repository's pinned test suite (guard off) and print the summary line
cd /repo && env -u SUGAR_VERIF /venv/bin/python -m pytest -q -p no:cacheprovider --timeout=900 --continue-on-collection-errors 2>&1 | tail -${1:-8}
