"""C01 -- sequence files round-trip (FASTA, Stockholm, SJSON, GFF3 + ##FASTA):
cases, implementation driver, model terms, property oracle."""
import io, os, re, json, itertools, tempfile, shutil
from framework import coq_bs, coq_N, coq_opt, coq_list, coq_pair, coq_nat

ID = 'C01'
COQ_IMPORTS = ['C01_Model', 'C01_Detect']
GENERATORS = ['gen_codes', 'gen_c01_io']
MODELLED_FUNCS = {
    'sugar/_io/fasta.py': ['is_fasta', '_create_bioseq', '_id_from_header', 'iter_fasta', 'append_fasta'],
    'sugar/_io/stockholm.py': ['is_stockholm', 'read_stockholm', 'write_stockholm'],
    'sugar/_io/sjson.py': ['is_sjson', '_SJSONEncoder.default', '_json_hook', 'read_sjson', 'write_sjson'],
    'sugar/_io/gff.py': ['is_gff', 'read_gff', 'write_gff'],
    'sugar/_io/main.py': ['read', 'iter_', 'write', 'detect', 'detect_ext'],
    'sugar/core/seq.py': ['BioSeq.__init__'],
}
FMTS = ['fasta', 'stockholm', 'sjson', 'gff']
EXT = {'fasta': 'fasta', 'stockholm': 'stk', 'sjson': 'sjson', 'gff': 'gff'}
OPS = {'cycle': 0, 'append': 1, 'read': 2}
RULE = ('abstract baskets (1-6 sequences; lengths 0-200 biased to 0, 1, 59-61; nt/aa/gap/stop residues in either case, with the '
        'keyword "meta" spliced in; ids from the legal alphabet plus adversarial ids gb:x, sp|a|b, a;b, >x, #x, //x, repeated ids; '
        'optional _fasta.header) x 4 formats x {tofmtstr/fromfmtstr, path, extension-detected path, open handle, StringIO}, run '
        'through write->read->write->read->write; mode "a" in two halves against one write of the concatenation; reader-side '
        'stream: FASTA / GFF+FASTA / Stockholm text rendered by the generator with random wrapping width, ";" comment lines, blank '
        'lines, lower case, "id description" headers, CRLF, interleaved Stockholm blocks with #=G? annotation lines, read->write->'
        'read->write; thorough adds the exhaustive box {A,m,e,t,-}^<=5 x widths 1-6. Domain decided by the model (wf_C01). '
        'non-trivial = distinct case with a branch marker (wrapped, comment, blank, lower, meta, description, header kept, '
        'db-tag id, empty sequence, interleaved block, append, handle/path transport); keyword stream (literals of the plugins as ids / '
        'residues); ids made of the IDPATTERN database tags followed by ":"; content auto-detection (also with blank lines before the '
        'first header); HISTORY stream: several write/read calls, in-place edits (data, id, reverse, str.replace, header, pop, the same '
        'BioSeq twice, order), fresh objects, colliding baskets/texts and mutation of returned objects inside one process, the SAME file '
        'name written in one format after another and read with content detection each time, every '
        'observing step compared with the pure model on the current value; GFF reader-option stream: filt_fast (strings that do / do not '
        'occur in the ##FASTA line, headers, feature lines), filt, default_ftype, comments=[] on written baskets and on foreign texts; '
        'sniffer stream: ids starting with the keywords the other formats\' sniffers look for (LOCUS, ORIGIN, STOCKHOLM, gff, sugar ...), '
        'every cycle with fmt given and with content detection (path, neutral extension, StringIO, BytesIO); archive stream: '
        'write(fname, archive=True|zip|tar|gztar|bztar|xztar) for every format, read() of the produced archive with and without fmt; '
        'detection stream: detect() and read() without fmt on the bytes written for a basket (SJSON bytes compared with the model of '
        'json.dump) and on texts at the edges of the five sniffers (leading whitespace of 0..101 characters, keyword variants, GFF '
        'feature lines with good / bad coordinate, strand, phase columns and 7..12 columns, SJSON comment variants, LOCUS heads, '
        'undetectable texts) through StringIO / BytesIO / a file with a neutral extension; write-by-name stream: names with directories, '
        'several dots, hidden files, every extension of the plugin tables and near misses (str and pathlib.Path), os.path.splitext and '
        'detect_ext compared with the model, the file read back with content detection; relational stream: deleting comment / blank / '
        'annotation lines from FASTA, GFF3+FASTA and Stockholm texts (up to 7 interleaved blocks) does not change what is read; '
        'SJSON byte stream: bytes written by sugar re-rendered with other JSON layouts (indent, separators, key order, leading / trailing '
        'whitespace, escapes in ids) and damaged variants, read with detection and with fmt given, the model parses the same bytes; '
        'mode "a" for all four formats; BioSeq construction stream: str / BioSeq source x id absent / None / "" / given x meta None / '
        'without id / with id x type None / nt / aa / illegal')
TRUSTED = ['CPython text layer (open/TextIOWrapper universal newlines, StringIO), str.strip/lstrip/rstrip/split/upper/removeprefix, '
           're.match on IDPATTERN (modelled by a hand-written matcher, pinned to the structural form of the pattern (CPython parse tree, normalised: tools/gens/c01.py canon_regex) and compared on adversarial '
           'headers), json.dump/json.load text layer (SJSON is modelled at tree level), dict insertion order, the OS appending '
           'bytes in mode "a"',
           'modelled: BioSeq.__init__ (seq.py:213-235), fasta.py:18-94, stockholm.py:94-203 (sequence lines; annotation lines only '
           'as well-formed/ill-formed), sjson.py:26-85 (tree level), gff.py:105-113,168-174 (feature-less baskets; features '
           'only relationally), write()/read() dispatch (main.py:292-331, 397-414)']
ASSUMPTIONS = ['Python str restricted to Latin-1 code points; the claimed domain is printable ASCII (+ tab, CR, LF in files)',
               'tool="biopython" path, archives, URLs, glob and format auto-detection on reading are outside this property (C03)']

RES_NT = 'ACGTUNRYKM-.'
RES_AA = 'ACDEFGHIKLMNPQRSTVWY*-X'
IDCH = 'abcdefghijklmnopqrstuvwxyzABCDEFGHIJKLMNOPQRSTUVWXYZ0123456789_.-:/#=+[]()<>@!$%&^~{}?'
ADV_IDS = ['LOCUS', 'locus_tag_0001', 'Locus7', 'LOCUS7', 'ORIGIN', 'STOCKHOLM', 'gff', 'sugar', 'sp:P69905', 'tr:A0A024R161', 'contig_ref:12', 'xref:1', 'emb:X1', 'dbj:D1', 'lcl:a', 'gb:x', 'sp|a|b', 'a;b', 'xgb:y', '>x', 'a,b', 'lcl|z', 'gb|', '#x', '//x', 'agb:', 'gb:gb:q', 'ref|NC_1.2|', 'None',
           'x>', 'tr|', 'a:b', 'emb|E1|nm', 'dbj|', '#=GF', '# STOCKHOLM', 'gbgb:w', 'g', 'sp', 'x|', ';', '|', ',', 'a b', '', None]


# ----------------------------------------------------------------------------- keyword stream
# Literal keywords used by the readers / writers / sniffers, extracted from the source of the anchored modules of the tree
# under test (string constants, split into words), plus words of the SJSON comment line and a few names of neighbouring
# formats. They are used as ids and as residue strings (whole value, substring, line start; upper and lower case).
KW_FILES = ['_io/fasta.py', '_io/stockholm.py', '_io/sjson.py', '_io/gff.py', '_io/main.py', 'core/seq.py', 'core/meta.py']
KW_EXTRA = ['meta', 'id', 'data', 'header', 'fts', 'type', 'stockholm', 'STOCKHOLM', 'Stockholm', 'GF', 'GC', 'GS', 'GR', 'FASTA',
            'fasta', 'gff', 'gffversion', 'version', 'sugar', 'JSON', 'json', 'format', 'written', '_cls', '_fmtcomment', '_fmt',
            'LOCUS', 'ORIGIN', 'None', 'null', 'BioSeq', 'BioBasket', 'Meta', 'Attr', 'seqid', 'source', 'Name', 'ID', 'comment']
_KW_CACHE = {}


def keywords():
    if 'kw' in _KW_CACHE:
        return _KW_CACHE['kw']
    import ast
    import sugar
    root = os.path.dirname(sugar.__file__)
    words = set(KW_EXTRA)
    for fn in KW_FILES:
        try:
            tree = ast.parse(open(os.path.join(root, fn)).read())
        except Exception:
            continue
        docs = set()
        for n in ast.walk(tree):
            if isinstance(n, (ast.FunctionDef, ast.ClassDef, ast.Module)):
                d = ast.get_docstring(n, clean=False)
                if d:
                    docs.add(d)
        for n in ast.walk(tree):
            if isinstance(n, ast.Constant) and isinstance(n.value, str) and n.value not in docs and len(n.value) <= 24:
                for w in re.findall(r'[A-Za-z_][A-Za-z0-9_]*', n.value):
                    if 2 <= len(w) <= 12:
                        words.add(w)
    try:
        from sugar._io.sjson import COMMENT
        words.update(w for w in re.findall(r'[A-Za-z]+', COMMENT) if len(w) >= 2)
    except Exception:
        pass
    _KW_CACHE['kw'] = sorted(words)
    return _KW_CACHE['kw']


def kw_ids(k):
    """ids built from keyword k that are legal in every id alphabet (no whitespace, not starting with # / >)"""
    return [k, k.upper(), k.lower(), 'NoV_' + k.capitalize() + '_2016/1-5', k + '.1', 'x' + k, '1.0' + k + '=', k + '#=GF',
            k + ':P69905', 'contig_' + k + ':12']


def kw_res(k):
    """residue strings built from keyword k (letters only): whole value, at line start, as substring; both cases"""
    a = ''.join(c for c in k if c.isalpha())
    if not a:
        return []
    return [a, a.upper(), a.lower(), a.upper() + 'ACGU', 'MK' + a.upper() + 'W*', 'ac' + a.lower() + 'gu', '-' + a + '.']


def kw_cases(rng, tier):
    """every keyword as id and as residue string through every format (writer side) and through FASTA / Stockholm /
    GFF reader-side text"""
    cases = []
    kws = keywords()
    for fmt in FMTS:
        for k in kws:
            ids, res = kw_ids(k), kw_res(k)
            reps = 1 if tier == 'quick' else 3
            for _ in range(reps):
                s1 = [rng.choice(ids), rng.choice(['ACGU', 'MKV*', 'acgt-']), None]
                seqs = [s1]
                if res:
                    seqs.append(['p' + str(len(k)), rng.choice(res), None])
                    i3 = rng.choice(ids)
                    if i3 != s1[0]:
                        seqs.append([i3, rng.choice(res), rng.choice([None, i3 + ' ' + k + ' ' + k.upper()])])
                rng.shuffle(seqs)
                cases.append({'op': 'cycle', 'fmt': fmt, 'seqs': seqs, 'via': rng.choice(['str', 'path', 'sio', 'auto', 'auto-sio', 'auto-txt'])})
    for k in kws:
        res = kw_res(k) or ['ACGU']
        i1, i2 = rng.choice(kw_ids(k)), rng.choice(kw_ids(k))
        r1, r2 = rng.choice(res), rng.choice(res)
        ft = '>%s %s description %s\n%s\n%s\n>%s\n%s\n' % (i1, k, k.upper(), r1, r2, 'q' + i2, r2)
        cases.append({'op': 'read', 'fmt': 'fasta', 'text': ft, 'via': 'str'})
        if i1 != i2:
            st = '# STOCKHOLM 1.0\n%s %s\n%s  %s\n\n%s %s\n%s %s\n//\n' % (i1, r1, i2, r2, i1, r2, i2, r1)
            cases.append({'op': 'read', 'fmt': 'stockholm', 'text': st, 'via': 'str'})
        if tier != 'quick' or rng.random() < 0.5:
            cases.append({'op': 'read', 'fmt': 'gff', 'text': '##gff-version 3\n#' + k + '\n##FASTA\n' + ft, 'via': 'str'})
    return cases


# ----------------------------------------------------------------------------- generators

def g_id(rng, adv=0.12):
    r = rng.random()
    if r < adv:
        return rng.choice(ADV_IDS)
    if r < adv + 0.08:
        return rng.choice(kw_ids(rng.choice(keywords())))
    n = rng.choice([1, 1, 2, 3, 5, 8, 12])
    s = ''.join(rng.choice(IDCH) for _ in range(n))
    if rng.random() < 0.7:
        s = s.lstrip('>#/') or 'q'
    return s


def g_res(rng, maxlen=200):
    n = rng.choice([0, 0, 1, 1, 2, 3, 5, 8, 20, 59, 60, 61, rng.randrange(0, maxlen + 1)])
    alpha = rng.choice([RES_NT, RES_NT, RES_AA, 'ACGT', 'acgtn-', RES_AA.lower(), 'meta', 'AmEtA-'])
    s = ''.join(rng.choice(alpha) for _ in range(n))
    if rng.random() < 0.08:
        kr = kw_res(rng.choice(keywords()))
        if kr:
            k = rng.choice(kr)
            s = rng.choice([k, k + s, s + k, s[:len(s) // 2] + k + s[len(s) // 2:]])
    if rng.random() < 0.15:
        k = rng.randrange(0, len(s) + 1)
        s = s[:k] + rng.choice(['meta', 'META', 'id', 'fts', 'Meta']) + s[k:]
    if rng.random() < 0.04:
        k = rng.randrange(0, len(s) + 1)
        s = s[:k] + rng.choice([' ', '>', ';', '#', '1', '\t']) + s[k:]      # outside the residue alphabet
    return s


def g_header(rng, id_):
    r = rng.random()
    if r < 0.6:
        return None
    desc = rng.choice(['', 'desc', 'some  description here', 'len=12 gb:zz', '  padded ', 'x', id_ or ''])
    if r < 0.85:
        return (id_ or '') + (' ' + desc if desc else '')
    return rng.choice([desc, 'other ' + desc, (id_ or '') + desc, ' ' + (id_ or '')])


def g_seqs(rng, lo=1, hi=6, fmt=None):
    n = rng.choice([lo, 1, 1, 2, 2, 3, hi])
    seqs = []
    for _ in range(n):
        id_ = g_id(rng)
        if seqs and rng.random() < 0.08:
            id_ = seqs[-1][0]                      # repeated id
        seqs.append([id_, g_res(rng), g_header(rng, id_)])
    if fmt == 'stockholm' and rng.random() < 0.8:
        for s in seqs:                              # Stockholm cannot hold an empty row
            if s[1] == '':
                s[1] = rng.choice('ACGU-')
    return seqs


def g_fts(rng, seqs):
    """plain single-location features on (mostly) existing sequence ids"""
    fts = []
    for _ in range(rng.choice([1, 1, 2, 3, 5])):
        i = rng.choice(seqs)[0] if rng.random() < 0.9 else g_id(rng)
        if not i or not all(33 <= ord(ch) < 127 for ch in i):
            i = 'nosuchseq'
        a = rng.choice([0, 0, 1, 2, 9, 99, 999, 3000])
        e = a + rng.choice([1, 1, 2, 3, 10, 1000])
        fts.append([i, rng.choice(['gene', 'CDS', 'exon', 'FASTA', 'region_1', '##FASTA', 'five_prime_UTR']), a, e, rng.choice('+-.?')])
    return fts


def wrap(s, w):
    return [s[i:i + w] for i in range(0, len(s), w)] or ['']


def g_fasta_text(rng, nrec=None):
    nl = '\r\n' if rng.random() < 0.12 else '\n'
    lines = []
    if rng.random() < 0.1:
        lines.append(';leading comment')
    for _ in range(nrec or rng.choice([1, 1, 2, 3])):
        id_ = g_id(rng, adv=0.2) or ''
        style = rng.random()
        if style < 0.4:
            h = '>' + id_
        elif style < 0.8:
            h = '>' + id_ + ' ' + rng.choice(['desc', 'a longer description, with; punctuation | and bars', 'gb:zz', 'x  y'])
        else:
            h = rng.choice(['> ', '>>', '>', '>\t']) + id_ + rng.choice(['', ' d', '\tdesc ', '  '])
        lines.append(h)
        s = g_res(rng, 120)
        w = rng.choice([1, 2, 3, 7, 60, 61, 70, 1000])
        for ch in wrap(s, w):
            r = rng.random()
            if r < 0.08:
                lines.append(rng.choice(['', ' ', '\t']))
            elif r < 0.14:
                lines.append(';' + rng.choice(['comment', '', ' >x', 'ACGT']))
            lines.append(rng.choice(['', '', '', ' ', '  ']) + ch + rng.choice(['', '', '', ' ', '\t']))
    text = nl.join(lines)
    if rng.random() < 0.9:
        text += nl
    if rng.random() < 0.07:
        text = rng.choice(['ACGT\n', '\n', ' \n', '\n;c\n\t\n', '\r\n']) + text        # blank lines / data before the first header
    return text


def g_stk_text(rng):
    ids = []
    for _ in range(rng.choice([1, 2, 2, 3, 4])):
        i = g_id(rng, adv=0.1) or 'q'
        ids.append(i)
    nblocks = rng.choice([1, 1, 2, 3, 4, 7])
    rows = {k: g_res(rng, 40) or 'A' for k in range(len(ids))}
    lines = ['# STOCKHOLM 1.0']
    if rng.random() < 0.3:
        lines.append('#=GF ' + rng.choice(['DE some family', 'AC RF00001', 'CC', 'items x', 'ID a  b   c']))
    if rng.random() < 0.2 and ids:
        lines.append('#=GS %s %s' % (ids[0] or 'x', rng.choice(['AC X1', 'DE a b c', 'OS'])))
    for b in range(nblocks):
        if b:
            lines += rng.choice([[''], [''], [], ['', ' ', '\t']])
        for k, i in enumerate(ids):
            r = rows[k]
            n = len(r)
            part = r[b * n // nblocks:(b + 1) * n // nblocks]
            if part == '' and rng.random() < 0.9:
                part = '-'
            lines.append(i + rng.choice([' ', '  ', '     ', ' \t', '\t']) + part + rng.choice(['', '', ' ']))
            if rng.random() < 0.1:
                lines.append('#=GR %s SS %s' % (i or 'x', '.' * max(len(part), 1)))
        if rng.random() < 0.15:
            lines.append('#=GC SS_cons ' + '.' * 5)
        if rng.random() < 0.1:
            lines.append('# a comment')
    if rng.random() < 0.92:
        lines.append('//')
    if rng.random() < 0.1:
        lines += ['# STOCKHOLM 1.0', 'second ACGT', '//']
    nl = '\r\n' if rng.random() < 0.1 else '\n'
    return nl.join(lines) + (nl if rng.random() < 0.9 else '')


def g_gff_text(rng):
    pre = ['##gff-version 3']
    if rng.random() < 0.4:
        pre.append(rng.choice(['#comment', '', '##sequence-region x 1 10', ' ']))
    if rng.random() < 0.05:
        pre.append('x\t.\tgene\t1\t2\t.\t+\t.\tID=g')          # a feature line (outside this model)
    body = g_fasta_text(rng)
    if rng.random() < 0.05:
        return '\n'.join(pre) + '\n' + body                      # no ##FASTA directive
    return '\n'.join(pre) + '\n##FASTA' + rng.choice(['', '', ' ', 'x']) + '\n' + body


# ----------------------------------------------------------------------------- history stream (state independence)
# A history is a list of steps on ONE basket object (and on literal texts) inside one process. The model is pure, so the
# expected result of every observing step is the model applied to the CURRENT abstract value, which the driver tracks:
# cells = the distinct BioSeq objects [id, data, header], order = which cell sits at each basket position (a cell may occur
# twice: the same BioSeq object appended twice).
#   ['wr', fmt, via, mutate]   write the basket, read the text back -> [text, objects]; optionally mutate the objects read
#   ['r', fmt, text, mutate]   read a literal text -> objects; optionally mutate the returned basket afterwards
#   ['edit', kind, idx, value] in-place edit: data | id | reverse | replace | header | pop | dup | swap
#   ['fresh']                  rebuild the basket from fresh BioSeq objects with the current values
#   ['new', seqs]              another basket (same process; ids / lengths may collide with the previous one)
H_EDITS = ['data', 'id', 'reverse', 'replace', 'header', 'pop', 'dup', 'swap']


def h_init(seqs):
    cells = [[i, d.upper(), h] for i, d, h in seqs]
    return cells, list(range(len(cells)))


def h_edit(cells, order, kind, idx, value):
    """apply an in-place edit to the abstract value (Python aliasing semantics)"""
    if kind == 'swap':
        order.reverse()
        return
    if not order:
        return
    k = idx % len(order)
    c = cells[order[k]]
    if kind == 'data':
        c[1] = value.upper()
    elif kind == 'id':
        c[0] = value
    elif kind == 'reverse':
        c[1] = c[1][::-1]
    elif kind == 'replace':
        c[1] = c[1].replace(value[0], value[1])
    elif kind == 'header':
        c[2] = value
    elif kind == 'pop':
        del order[k]
    elif kind == 'dup':
        order.append(order[k])


def h_states(case):
    """abstract basket [[id, data, header], ...] in front of every step"""
    cells, order = h_init(case['seqs'])
    out = []
    for st in case['steps']:
        out.append([list(cells[j]) for j in order])
        if st[0] == 'edit':
            h_edit(cells, order, st[1], st[2], st[3])
        elif st[0] == 'new':
            cells, order = h_init(st[1])
        elif st[0] == 'fresh':
            cur = [list(cells[j]) for j in order]
            cells, order = cur, list(range(len(cur)))
    return out


def _drop_empty_fts(t):
    """writing GFF leaves an empty FeatureList in every seq.meta (BioSeq.fts getter); it is not a sequence observable"""
    if isinstance(t, list):
        if t and t[0] == 'D':
            return ['D'] + [[k, _drop_empty_fts(v)] for k, v in t[1:]
                            if not (k == 'fts' and v == ['D', ['data', ['L']], ['_cls', 'FeatureList']])]
        return [_drop_empty_fts(x) for x in t]
    return t


def _mutate_result(o):
    for s in o:
        s.id = 'MUTATED'
        s.data = 'NNNN'
        if '_fasta' in s.meta:
            s.meta._fasta.header = 'mutated header'
    if len(o):
        o.pop()


def impl_history(case, d):
    from sugar import BioSeq
    from sugar.data import CODES
    NT_CODES = set(CODES) | {'U'}
    cells, order = h_init(case['seqs'])

    def mk_cell(c):
        s = BioSeq(c[1], id=c[0])
        if c[2] is not None:
            s.meta._fasta = {'header': c[2]}
        return s
    from sugar import BioBasket
    objs_ = [mk_cell(c) for c in cells]
    basket = BioBasket([objs_[j] for j in order])
    keep = []           # results stay alive (and mutated) until the end of the history
    out = []
    for st in case['steps']:
        kind = st[0]
        if kind == 'wr':
            _, fmt, via, mutate = st
            try:
                t1 = do_write(basket, fmt, via, d)
                o1 = do_read(t1, fmt, via, d)
                r = [_drop_empty_fts(canon_text(fmt, t1)), objs(o1)]
                if mutate:
                    _mutate_result(o1)
                keep.append(o1)
            except Exception as e:
                r = {'e': 'ValueError' if isinstance(e, json.JSONDecodeError) else type(e).__name__}
            out.append(r)
        elif kind == 'r':
            _, fmt, text, mutate = st
            try:
                o1 = do_read(text, fmt, 'auto-same' if (st[3] and detectable(fmt, text)) else 'sio' if '\r' not in text else 'str', d)
                r = objs(o1)
                if mutate:
                    _mutate_result(o1)
                keep.append(o1)
            except Exception as e:
                r = {'e': type(e).__name__}
            out.append(r)
        elif kind == 'edit':
            _, ek, idx, value = st
            if ek == 'swap':
                basket.data.reverse()        # list order (BioBasket.reverse() reverses every sequence instead)
            elif len(basket):
                k = idx % len(basket)
                s = basket[k]
                if ek == 'data':         # BioSeq never re-infers its type: assign data and type together
                    s.data = value.upper()
                    s.type = 'nt' if all(ch in NT_CODES for ch in s.data) else 'aa'
                elif ek == 'id':
                    s.id = value
                elif ek == 'reverse':
                    assert s.reverse() is s
                elif ek == 'replace':
                    assert s.str.replace(value[0], value[1]) is s
                elif ek == 'header':
                    s.meta._fasta = {'header': value}
                elif ek == 'pop':
                    basket.pop(k)
                elif ek == 'dup':
                    basket.append(s)
            h_edit(cells, order, ek, idx, value)
        elif kind == 'fresh':
            cur = [list(cells[j]) for j in order]
            cells, order = cur, list(range(len(cur)))
            basket = BioBasket([mk_cell(c) for c in cells])
        elif kind == 'new':
            cells, order = h_init(st[1])
            basket = BioBasket([mk_cell(c) for c in cells])
    return out


def h_collide(rng, seqs):
    """another basket with the same ids and lengths but other residues (a plausible cache-key collision)"""
    out = []
    for i, d, h in seqs:
        alpha = 'ACGT' if set(d.upper()) <= set('ACGTUN-.') else 'MKVLW'
        out.append([i, ''.join(rng.choice(alpha) for _ in d), h])
    return out


def history_cases(rng, tier):
    cases = []
    n = 1500 if tier == 'thorough' else 260
    for _ in range(n):
        seqs = []
        for k in range(rng.choice([1, 2, 2, 3, 4])):
            i = rng.choice(['s%d' % k, 'seq_%d' % k, 'id%dX' % k, g_id(rng, adv=0.05) or 'q%d' % k])
            seqs.append([i, g_res(rng, 30) or rng.choice('ACGU'), g_header(rng, i) if rng.random() < 0.3 else None])
        steps = []
        fm = rng.choice(FMTS)
        for _ in range(rng.choice([3, 4, 5, 6, 8])):
            r = rng.random()
            if r < 0.45:
                f = fm if rng.random() < 0.5 else rng.choice(FMTS)          # the same format again, or another one
                steps.append(['wr', f, rng.choice(['str', 'sio', 'path', 'auto-same', 'auto-same']), rng.random() < 0.5])
                if rng.random() < 0.3:
                    steps.append(list(steps[-1]))                            # the same call twice
            elif r < 0.75:
                ek = rng.choice(H_EDITS)
                val = {'data': g_res(rng, 30) or 'A', 'id': rng.choice(['s9', 'renamed', 'sp:P1', seqs[0][0]]),
                       'replace': rng.choice([['A', 'C'], ['M', 'K'], ['-', '.'], ['T', 'U']]),
                       'header': rng.choice(['other desc', 'x', ''])}.get(ek)
                steps.append(['edit', ek, rng.randrange(0, 4), val])
            elif r < 0.83:
                steps.append(['fresh'])
            elif r < 0.9:
                steps.append(['new', h_collide(rng, seqs) if rng.random() < 0.7 else g_seqs(rng, hi=3)])
            else:
                f = rng.choice(['fasta', 'fasta', 'stockholm', 'gff'])
                t1 = {'fasta': g_fasta_text, 'stockholm': g_stk_text, 'gff': g_gff_text}[f](rng)
                t2 = re.sub(r'[ACGTacgt]', lambda m: rng.choice('ACGT'), t1) if f != 'stockholm' else t1.replace('A', 'C')
                steps += [['r', f, t1, rng.random() < 0.6], ['r', f, t2, False], ['r', f, t1, False]]
        if rng.random() < 0.6:        # call, in-place edit, the same call again (stale per-object state shows here)
            ek = rng.choice(['data', 'id', 'reverse', 'replace', 'header', 'dup', 'pop'])
            val = {'data': g_res(rng, 30) or 'C', 'id': rng.choice(['s9', 'renamed', 'tr:A0A1']),
                   'replace': rng.choice([['A', 'C'], ['M', 'K'], ['-', '.'], ['T', 'U'], ['G', 'A']]), 'header': 'new desc'}.get(ek)
            v = rng.choice(['str', 'sio', 'path', 'auto-same'])
            steps = [['wr', fm, v, rng.random() < 0.5]] + steps + [['edit', ek, rng.randrange(0, 4), val], ['wr', fm, v, False]]
        if not any(st[0] in ('wr', 'r') for st in steps):
            steps.append(['wr', fm, 'str', False])
        cases.append({'op': 'history', 'fmt': fm, 'seqs': seqs, 'steps': steps})
    return cases


def g_opts(rng, seqs, fts, text=''):
    """filt_fast values that do / do not occur in the ##FASTA line, in headers, in feature lines; filt; default_ftype"""
    o = {}
    if rng.random() < 0.75:
        pool = ['FASTA', 'fasta', '##FASTA', '#', 'gene', 'CDS', 'cds', 'nosuchstring', '\t', '>', 'gff', 'version', '.', 'A', 'ACGT']
        pool += [i for i, _, _ in seqs if i] + [f[1] for f in fts] + [f[0] for f in fts]
        if text:
            ws = re.findall(r'[A-Za-z_]{2,8}', text)
            pool += [rng.choice(ws)] if ws else []
        ff = rng.choice(pool)
        if rng.random() < 0.3:
            ff = ff.swapcase()
        o['filt_fast'] = ff
    if rng.random() < 0.4:
        o['filt'] = rng.choice([['gene'], ['CDS', 'exon'], ['nosuchtype'], [], ['gene', 'CDS', 'exon', 'region_1', 'FASTA', '##FASTA', 'five_prime_UTR']])
    if rng.random() < 0.3:
        o['default_ftype'] = rng.choice(['gene', 'misc', 'FASTA'])
    if rng.random() < 0.3:
        o['comments'] = True
    return o


def gffopt_cases(rng, tier):
    cases = []
    base = [['chr1', 'ACGTACGTAC', None], ['gene_2', 'MKV*', 'gene_2 a CDS product'], ['FASTA', 'acgtn', None]]
    bfts = [['chr1', 'gene', 1, 4, '+'], ['chr1', 'CDS', 2, 3, '-'], ['gene_2', 'exon', 0, 2, '.']]
    for ff in ['gene', 'CDS', 'chr1', 'FASTA', 'fasta', '##FASTA', 'nosuchstring', 'ACGT', '>', 'a CDS product', None]:
        for filt in [None, ['gene'], ['nosuchtype']]:
            o = {k: v for k, v in (('filt_fast', ff), ('filt', filt)) if v is not None}
            cases.append({'op': 'gffopt', 'fmt': 'gff', 'opts': o, 'seqs': base, 'fts': bfts, 'via': 'str'})
            cases.append({'op': 'gffopt', 'fmt': 'gff', 'opts': dict(o, comments=True), 'seqs': base, 'via': 'sio'})
    n = 2500 if tier == 'thorough' else 160
    for _ in range(n):
        if rng.random() < 0.6:
            seqs = g_seqs(rng, fmt='gff')
            fts = g_fts(rng, seqs) if rng.random() < 0.7 else []
            cases.append({'op': 'gffopt', 'fmt': 'gff', 'opts': g_opts(rng, seqs, fts), 'seqs': seqs, 'fts': fts,
                          'via': rng.choice(['str', 'sio', 'path'])})
        else:
            text = g_gff_text(rng)
            if rng.random() < 0.6:          # well-formed feature lines in front of the sequence section
                head, sep, tail = text.partition('\n')
                fl = ['%s\t.\t%s\t%d\t%d\t%s\t%s\t%s\t%s' % (rng.choice(['x', 'chr1', 'FASTA']), rng.choice(['gene', 'CDS', '.', 'mRNA']),
                                                            a, a + rng.choice([0, 3, 100]), rng.choice(['.', '1', '5']), rng.choice('+-.?'),
                                                            rng.choice(['.', '0', '2']), rng.choice(['.', 'ID=g1', 'ID=g1;Name=n;Note=a=b']))
                      for a in [rng.choice([1, 2, 50])] * rng.choice([1, 2])]
                if rng.random() < 0.15:
                    fl.append('x\t.\tbadline\tone\ttwo\t.\t+\t.\t.')      # raises unless filtered away
                text = head + sep + '\n'.join(fl) + '\n' + tail
            cases.append({'op': 'gffopt', 'fmt': 'gff', 'opts': g_opts(rng, [], [], text), 'text': text,
                          'via': rng.choice(['str', 'path'] if '\r' in text else ['str', 'sio', 'path'])})
    return cases


SNIFF_IDS = ['LOCUS', 'locus', 'locus_tag_0001', 'Locus7', 'LOCUS7', 'LOCUS_A1', 'ORIGIN', 'origin', 'FEATURES', 'STOCKHOLM', 'Stockholm',
             'gff', 'gff-version', 'sugar', 'sugarJSON', 'JSON', 'qseqid', 'query', 'BLASTN', 'target']


def sniffer_cases(rng, tier):
    """ids (first and later in the file) that start with the keywords the OTHER formats' sniffers look for at line start;
    every write->read cycle both with the format given and with content detection (path, neutral extension, handles)"""
    cases = []
    for fmt in FMTS:
        for i in SNIFF_IDS:
            for via in (['str', 'auto', 'auto-sio', 'auto-bytes', 'auto-txt'] if tier == 'thorough' else ['str', rng.choice(['auto', 'auto-txt']), rng.choice(['auto-sio', 'auto-bytes'])]):
                seqs = [[i, rng.choice(['ACGU-', 'MKV*', 'acgt']), None], ['s2', 'ACGT', None]]
                if rng.random() < 0.5:
                    seqs.reverse()
                cases.append({'op': 'cycle', 'fmt': fmt, 'seqs': seqs, 'via': via})
    return cases


ARCHIVES = [True, 'zip', 'tar', 'gztar', 'bztar', 'xztar']


def archive_cases(rng, tier):
    """write(fname, archive=A) for every writable format, then read() of the archive file that was produced"""
    cases = []
    for fmt in FMTS:
        for a in ARCHIVES:
            for given in (True, False):
                reps = 3 if tier == 'thorough' else 1
                for _ in range(reps):
                    seqs = g_seqs(rng, fmt=fmt) if rng.random() < 0.6 else [['a1', 'ACGT', None], ['locus_b', 'mkv*', 'locus_b desc']]
                    cases.append({'op': 'archive', 'fmt': fmt, 'archive': a, 'fmt_given': given, 'seqs': seqs})
    return cases

# ----------------------------------------------------------------------------- detection streams (sniffers, write by name)
DET_VIAS = ['auto-sio', 'auto-bytes', 'auto-txt']


def _pad(rng):
    """leading whitespace around the 50-character window of is_fasta / the 100 of is_gff"""
    n = rng.choice([0, 0, 1, 2, 10, 48, 49, 50, 51, 60, 99, 100, 101])
    return ''.join(rng.choice(' \n\t' if rng.random() < 0.5 else '\n') for _ in range(n))


def g_detect_text(rng):
    """texts at the edges of the five sniffers: leading whitespace of critical lengths, keyword variants, feature lines
    with good / bad coordinate, strand and phase columns, SJSON comment variants, undetectable texts"""
    r = rng.random()
    fa = '>s1 d\nACGT\nAC\n>s2\nMKV*\n'
    if r < 0.22:
        return _pad(rng) + rng.choice([fa, g_fasta_text(rng)])
    if r < 0.36:
        head = rng.choice(['# STOCKHOLM 1.0', '# STOCKHOLM', '# STOCKHOLM1.0 x', '#STOCKHOLM 1.0', '# stockholm 1.0', '# STOCKHOLM 1.0  ',
                           ' # STOCKHOLM 1.0', '# STOCKHOL', '# STOCKHOLM 2'])
        pre = rng.choice(['', '', '', '\n', ' '])
        return pre + head + '\ns1 ACGU\ns2 AC-U\n//\n'
    if r < 0.52:
        head = rng.choice(['##gff-version 3', '##gff-version 3.1.26', '##gff-version 31', '##gff-version 2', '##gff-version  3', '##GFF-version 3',
                           '##gff-version 3 ', '#gff-version 3', '##gff-version 3\t'])
        return _pad(rng) + head + rng.choice(['\n', '\n#c\n', '\nchr1\t.\tgene\t1\t4\t.\t+\t.\tID=g\n']) + '##FASTA\n' + fa
    if r < 0.74:
        cols = [rng.choice(['chr1', 'c', '', ' x']), rng.choice(['.', 'src']), rng.choice(['gene', 'CDS', '.']),
                rng.choice(['1', '12', ' 3 ', '+4', '-5', '0', 'x', '', '1.5', '007']), rng.choice(['4', '99', 'y', '', ' 8', '1e3']),
                rng.choice(['.', '1.5']), rng.choice(['+', '-', '.', '?', '', '+-', '-.', '.?', 'x', '+ ', '?+']),
                rng.choice(['.', '0', '1', '2', '', '01', '12', '.0', '3', '012', '.012', '10'])]
        k = rng.choice([9, 9, 9, 9, 8, 7, 10, 12])
        cols = (cols + ['ID=g1', 'extra', 'more', 'cols'])[:k]
        line = '\t'.join(cols)
        pre = rng.choice(['', '', '', '#c\n', '\n', ' '])
        return pre + line + '\n##FASTA\n' + fa
    if r < 0.84:
        from sugar._io.sjson import COMMENT
        c = rng.choice([COMMENT, COMMENT.upper(), COMMENT[:17], COMMENT[:16], COMMENT[:17].swapcase(), 'sugar  JSON format'])
        pre = rng.choice(['{"_fmtcomment": "', '{"_fmtcomment":"', '', '{"a": "b", "_fmtcomment": "', ' ' * 16 + '{"_fmtcomment": "', ' ' * 17 + '{"_fmtcomment": "',
                          ' ' * 18 + '{"_fmtcomment": "', '\n' * 34, '\n' * 35])
        return pre + c + '", "data": [], "meta": {"_cls": "Meta"}, "_cls": "BioBasket"}'
    if r < 0.92:
        return rng.choice(['LOCUS', 'locus', 'Locus', 'LOCU', ' LOCUS', 'LOCUS_x', 'locusT']) + rng.choice(['', ' AB1 10 bp DNA\n', '\n']) + rng.choice(['', fa])
    return rng.choice(['', '\n', 'no known format\n', 'ACGT\n>s1\nAC\n', ';c\n>s1\nAC\n', 'x' * 49 + '>s\nAC\n', ' ' * 49 + '>s\nAC\n', '\r\n>s1\r\nAC\r\n',
                       '\r' * 30 + '>s1\nAC\n', '\r\n' * 25 + '>s1\nAC\n', '\r\n' * 49 + '>s1\nAC\n'])


NAME_EXTS = ['fasta', 'fa', 'stk', 'sto', 'stockholm', 'gff', 'sjson', 'json', 'txt', 'gb', 'FASTA', 'Fa', 'fas', 'gff3', 'fast', 'asta', 'stkx', 'js',
             'genbank', 'gbk', 'tar', 'gz', 'a', '1']
NAME_STEMS = ['a', 'seqs', 'a.b', 'a.b.c', 'v1.2', '.hid', '..h', 'a.', 'a..', '.', '..', '...', '', 'x.fasta', 'x.stk', 'y.gff.json', 'fasta', 'stk', 'a-b_c',
              '.fasta', '..fasta', 'a.tar']
NAME_DIRS = ['d', 'dir.fasta', 'a.b', '.hid', 'x.stk', '...', 'sub-1', 'fa', 'p.q.json']

def g_sjson_text(rng):
    """SJSON bytes as sugar writes them, re-rendered with other JSON layouts (indentation, separators, key order, leading /
    trailing whitespace); the id / residue strings exercise the escapes of json.dump"""
    seqs = g_seqs(rng, fmt='sjson')
    if rng.random() < 0.3:
        seqs[0][0] = rng.choice(['a"b', 'back\\slash', 'q/"\\', 'tab', '{"x": 1}', '[],', 'null', ':', 'u0041', "it's"])
    t = mk_basket(seqs).tofmtstr('sjson')
    obj = json.loads(t)
    style = rng.choice(['raw', 'raw', 'indent', 'compact', 'spaces', 'trail', 'lead', 'sort', 'both'])
    if style == 'indent':
        t = json.dumps(obj, indent=rng.choice([0, 1, 2, 4]))
    elif style == 'compact':
        t = json.dumps(obj, separators=(',', ':'))
    elif style == 'spaces':
        t = json.dumps(obj, separators=(' ,  ', ' :\t'))
    elif style == 'trail':
        t = t + rng.choice(['\n', ' \n\t', '\n\n', ' '])
    elif style == 'lead':
        t = rng.choice(['\n', ' ', '\t\n  ']) + t
    elif style == 'sort':
        t = json.dumps(obj, sort_keys=True)
    elif style == 'both':
        t = ' ' + json.dumps(obj, indent=1) + '\n'
    if rng.random() < 0.08:
        t = rng.choice([t[:-1], t + '{}', t.replace('null', 'nul', 1), t.replace('"BioSeq"', '"BioSeqX"', 1), t.replace(': [', ': [[], ', 1),
                        t.replace('"type": "', '"type": "x', 1)])
    return t


def g_name(rng):
    dirs = [rng.choice(NAME_DIRS) for _ in range(rng.choice([0, 0, 1, 1, 2]))]
    stem = rng.choice(NAME_STEMS)
    r = rng.random()
    if r < 0.75:
        base = stem + '.' + rng.choice(NAME_EXTS)
    elif r < 0.9:
        base = stem
    else:
        base = rng.choice(NAME_EXTS)
    return '/'.join(dirs + [base])


def name_safe(name):
    """relative POSIX name that stays below the scratch directory"""
    return (isinstance(name, str) and re.fullmatch(r'[A-Za-z0-9._/-]+', name) is not None
            and all(c not in ('', '.', '..') for c in name.split('/')))


def detect_cases(rng, tier):
    cases = []
    n_w, n_t, n_n = (2500, 4000, 3000) if tier == 'thorough' else (100, 200, 160)
    for fmt in FMTS:      # every format with its plain and adversarial first ids, all transports
        for i in ['s1', 'LOCUS', 'locus1', '##gff-version', '#', 'sugar', '>x', 'STOCKHOLM']:
            cases.append({'op': 'detect', 'fmt': fmt, 'seqs': [[i, 'ACGT', None], ['s2', 'mkv*', 's2 desc']], 'via': rng.choice(DET_VIAS)})
    for _ in range(n_w):
        fmt = rng.choice(FMTS)
        c = {'op': 'detect', 'fmt': fmt, 'seqs': g_seqs(rng, fmt=fmt), 'via': rng.choice(DET_VIAS)}
        if fmt == 'gff' and rng.random() < 0.5:
            c['fts'] = g_fts(rng, c['seqs'])
        cases.append(c)
    for _ in range(n_t):
        t = g_detect_text(rng)
        cases.append({'op': 'detect', 'fmt': 'fasta', 'text': t, 'via': rng.choice(['auto-bytes', 'auto-txt'] if '\r' in t else DET_VIAS)})
    for _ in range(n_t // 3):
        t = g_sjson_text(rng)
        if rng.random() < 0.5:
            cases.append({'op': 'detect', 'fmt': 'sjson', 'text': t, 'via': rng.choice(DET_VIAS)})
        else:
            cases.append({'op': 'detect', 'fmt': 'sjson', 'text': t, 'via': rng.choice(DET_VIAS), 'given': True})
    seen = set()
    for e in NAME_EXTS:        # every extension once with a plain name
        for nm in ['a.' + e, 'd.fasta/b.c.' + e]:
            seen.add(nm)
            cases.append({'op': 'byname', 'fmt': 'fasta', 'name': nm, 'seqs': [['s1', 'ACGT', None], ['s2', 'mkv*', None]], 'via': 'str'})
    for _ in range(n_n):
        nm = g_name(rng)
        if not name_safe(nm) or (nm in seen and rng.random() < 0.7):
            continue
        seen.add(nm)
        seqs = g_seqs(rng, hi=3) if rng.random() < 0.3 else [['s1', 'ACGT', None], ['s2', rng.choice(['mkv*', 'AC-GU']), None]]
        cases.append({'op': 'byname', 'fmt': 'fasta', 'name': nm, 'seqs': seqs, 'via': rng.choice(['str', 'str', 'pathlib'])})
    return cases

# ----------------------------------------------------------------------------- BioSeq construction stream (seq.py:213-243)
def init_cases(rng, tier):
    cases = []
    ids = [None, '', 'x', 'id 2', '0', ' ']
    metas = [None, {}, {'id': 'm'}, {'id': ''}, {'id': None}, {'other': 'v'}, {'id': 'm', 'other': 'v'}]
    types = [None, None, 'nt', 'aa', 'NT', 'protein', '']
    datas = ['ACGT', 'acgu', 'ACGU', 'mkv*', 'ACGTX', '', 'N-.', 'acgtryswkmbdhvn', 'ACGTE', 'u', 'Meta', 'meta', 'ac gt', 'ACGT1', 'ACGT*']
    n = 1500 if tier == 'thorough' else 150
    for _ in range(n):
        c = {'op': 'init', 'fmt': 'fasta', 'from': rng.choice(['str', 'str', 'seq']),
             'data': rng.choice(datas) if rng.random() < 0.7 else g_res(rng, 30), 'meta': rng.choice(metas), 'type': rng.choice(types)}
        if rng.random() < 0.75:
            c['id'] = rng.choice(ids)
        if c['from'] == 'seq':
            c['sid'] = rng.choice(['src', '', None])
            c['stype'] = rng.choice([None, None, 'aa', 'nt'])
            c['shdr'] = rng.choice([None, None, 'src some header'])
        cases.append(c)
    return cases


def impl_init(case):
    from sugar import BioSeq
    if case['from'] == 'seq':
        kw0 = {} if case.get('stype') is None else {'type': case['stype']}
        src = BioSeq(case['data'], id=case.get('sid'), **kw0)
        if case.get('shdr') is not None:
            src.meta._fasta = {'header': case['shdr']}
    else:
        src = case['data']
    kw = {}
    if 'id' in case:
        kw['id'] = case['id']
    if case.get('meta') is not None:
        kw['meta'] = dict(case['meta'])
    if case.get('type') is not None:
        kw['type'] = case['type']
    import warnings
    with warnings.catch_warnings():
        warnings.simplefilter('ignore')
        s = BioSeq(src, **kw)
    return objs([s])[0]


def _init_term(case):
    def o(x):
        return coq_opt(x, coq_bs)
    m = case.get('meta')
    if m is None:
        meta = 'None'
    elif 'id' not in m:
        meta = '(Some None)'
    else:
        meta = '(Some (Some %s))' % o(m['id'])
    return 'out (run_C01_init %s %s %s %s %s %s %s %s)' % (
        'true' if case['from'] == 'seq' else 'false', coq_bs(case['data']), o(case.get('sid')), o(case.get('stype')), o(case.get('shdr')),
        o(case['id']) if 'id' in case else '(Some [])', meta, o(case.get('type')))


def spec_init(case, got):
    """first principles: data upper-cased; type given or 'nt' iff all upper-cased letters are IUPAC nucleotide codes / gaps"""
    ty = case.get('type')
    if ty not in (None, 'nt', 'aa'):
        return None if got == {'e': 'AssertionError'} else 'type=%r accepted: %r' % (ty, got)
    if isinstance(got, dict):
        return 'raised %s inside the claimed domain' % got.get('e')
    if got[1] != case['data'].upper():
        return 'data %r, expected %r' % (got[1], case['data'].upper())
    want_t = ty or ('nt' if set(case['data'].upper()) <= set('ACGTURYSWKMBDHVN.-') else 'aa')
    if got[2] != want_t:
        return 'type %r, expected %r' % (got[2], want_t)
    idarg = case.get('id', '')
    if idarg and got[0] != idarg:
        return 'id %r, the argument was %r' % (got[0], idarg)
    return None


def detectable(fmt, text):
    """texts for which read() without fmt is expected to find the format: the sniffers look at the first 50 / 11 / 100
    characters (fasta.py:13, stockholm.py:16, gff.py:20)"""
    if fmt == 'fasta':
        return text[:40].strip().startswith('>')
    if fmt == 'stockholm':
        return text.startswith('# STOCKHOLM')
    if fmt == 'gff':
        return text.startswith('##gff-version 3')
    return False


def gen_cases(rng, tier):
    cases = []
    vias = ['str', 'str', 'path', 'ext', 'handle', 'sio', 'auto', 'auto-sio', 'auto-bytes', 'auto-txt', 'iter', 'iter-path', 'seqwrite']
    n_cycle, n_app, n_read = (12000, 2000, 9000) if tier == 'thorough' else (550, 120, 500)
    # a few fixed regression shapes
    for fmt in FMTS:
        cases.append({'op': 'cycle', 'fmt': fmt, 'seqs': [['s1', 'ametab', None], ['s2', 'ACGU', None]], 'via': 'str'})
        cases.append({'op': 'cycle', 'fmt': fmt, 'seqs': [['s1', 'MKV*', 's1 a protein'], ['s1', 'acgt-n', None]], 'via': 'path'})
    cases += kw_cases(rng, tier)
    for fmt in FMTS:       # database tags of IDPATTERN followed by ':' (legal ids, not matched by the pattern) and by '|'
        for tag in ['emb', 'dbj', 'sp', 'tr', 'ref', 'lcl', 'gb']:
            cases.append({'op': 'cycle', 'fmt': fmt, 'via': 'str',
                          'seqs': [['seq1', 'ACGT', None], [tag + ':P69905', 'MVLSPADKTN', None], ['contig_' + tag + ':12', 'ACGTNN--ACGT', None],
                                   [tag + '|Q1|x', 'MKV*', None]]})
    for pre in ['\n', '  \n', '\n\n', '\t\n \n']:
        for via in ['auto', 'auto-sio', 'str']:
            cases.append({'op': 'read', 'fmt': 'fasta', 'text': pre + '>seq1 d\nACGT\nAC\n>seq2\nMKV*\n', 'via': via})
    cases += history_cases(rng, tier)
    cases += gffopt_cases(rng, tier)
    cases += sniffer_cases(rng, tier)
    cases += archive_cases(rng, tier)
    cases += detect_cases(rng, tier)
    cases += init_cases(rng, tier)
    for _ in range(n_cycle):
        fmt = rng.choice(FMTS)
        c = {'op': 'cycle', 'fmt': fmt, 'seqs': g_seqs(rng, fmt=fmt), 'via': rng.choice(vias)}
        if fmt == 'gff' and rng.random() < 0.6:
            c['fts'] = g_fts(rng, c['seqs'])
        cases.append(c)
    for _ in range(n_app):
        fmt = 'fasta' if rng.random() < 0.6 else rng.choice(FMTS)
        cases.append({'op': 'append', 'fmt': fmt, 'seqs': g_seqs(rng, lo=0, hi=3, fmt=fmt), 'seqs2': g_seqs(rng, lo=0, hi=3, fmt=fmt)})
    for _ in range(n_read):
        r = rng.random()
        if r < 0.6:
            fmt, text = 'fasta', g_fasta_text(rng)
        elif r < 0.8:
            fmt, text = 'stockholm', g_stk_text(rng)
        else:
            fmt, text = 'gff', g_gff_text(rng)
        via = rng.choice(['str', 'path', 'handle', 'iter-path'] if '\r' in text else ['str', 'path', 'handle', 'sio', 'iter', 'iter-path'])
        if detectable(fmt, text) and rng.random() < 0.35:
            via = rng.choice(['auto', 'auto-sio'] if '\r' not in text else ['auto'])
        cases.append({'op': 'read', 'fmt': fmt, 'text': text, 'via': via})
    if tier == 'thorough':
        # exhaustive box: every string over {A,m,e,t,-} up to length 5, wrapped at every width 1..6 (FASTA reader)
        for n in range(0, 6):
            for t in itertools.product('Amet-', repeat=n):
                s = ''.join(t)
                for w in range(1, 7):
                    if w > max(n, 1) + 1:
                        continue
                    cases.append({'op': 'read', 'fmt': 'fasta', 'text': '>b x\n' + '\n'.join(wrap(s, w)) + '\n', 'via': 'str'})
    return cases


# ----------------------------------------------------------------------------- implementation driver

class _P(list):
    pass


def _jtree(x):
    if isinstance(x, _P):
        return ['D'] + [[k, _jtree(v)] for k, v in x]
    if isinstance(x, list):
        return ['L'] + [_jtree(v) for v in x]
    if x is None or isinstance(x, str):
        return x
    raise AssertionError('unexpected JSON value %r' % (x,))


def _json_docs(text):
    dec = json.JSONDecoder(object_pairs_hook=_P)
    docs, i = [], 0
    while i < len(text):
        obj, j = dec.raw_decode(text, i)
        docs.append(_jtree(obj))
        i = j
    return docs


def canon_text(fmt, text):
    """what of the written file the property talks about"""
    if fmt == 'sjson':
        return _json_docs(text)
    if fmt == 'stockholm':          # annotation lines belong to C15
        return ''.join(l for l in text.splitlines(True) if not l.startswith('#='))
    return text


def _drop_ft_lines(text):
    head, sep, tail = text.partition('##FASTA')
    return ''.join(l for l in head.splitlines(True) if l.startswith('#') or not l.strip()) + sep + tail


def mk_basket(seqs):
    from sugar import BioSeq, BioBasket
    out = []
    for id_, data, header in seqs:
        s = BioSeq(data, id=id_)
        if header is not None:
            s.meta._fasta = {'header': header}
        out.append(s)
    return BioBasket(out)


def objs(b):
    res = []
    for s in b:
        m = s.meta
        h = m._fasta.header if '_fasta' in m and 'header' in m._fasta else None
        res.append([s.id, s.data, s.type, h, m.get('_fmt')])
    return res


class _Tmp:
    """scratch directory under /tmp, created on first use, removed on exit"""
    def __enter__(self):
        self.d = None
        return self

    def path(self, name):
        if self.d is None:
            self.d = tempfile.mkdtemp(prefix='C01-', dir='/tmp')
        return os.path.join(self.d, name)

    def __exit__(self, *a):
        if self.d is not None:
            shutil.rmtree(self.d, ignore_errors=True)


def do_write(b, fmt, via, d, mode='w', name='f'):
    if via == 'seqwrite':
        # BioSeq.write / BioSeq.tofmtstr: FASTA sequence by sequence (mode 'a' per sequence, and the strings concatenated);
        # the other formats hold one basket per file, so only a basket of one sequence can be written through its BioSeq
        if fmt == 'fasta' and len(b):
            p = d.path(name + '.sw.fasta')
            for k, s in enumerate(b):
                s.write(p, 'fasta', mode='a' if k else 'w')
            with open(p, newline='') as f:
                t = f.read()
            assert t == ''.join(s.tofmtstr('fasta') for s in b), 'BioSeq.write and BioSeq.tofmtstr disagree'
            return t
        if len(b) == 1:
            return b[0].tofmtstr(fmt)
        return b.tofmtstr(fmt)
    if via == 'auto-same':
        # ONE file name per process / scratch directory, whatever the format: the name says nothing, the content decides
        p = d.path('same.dat')
        b.write(p, fmt)
        with open(p, newline='') as f:
            return f.read()
    if via in ('str', 'sio', 'auto-sio', 'auto-bytes', 'auto-txt', 'iter', 'iter-path'):
        if via != 'sio':
            return b.tofmtstr(fmt)
        f = io.StringIO()
        b.write(f, fmt)
        return f.getvalue()
    p = d.path(name + '.' + EXT[fmt])
    if via == 'path':
        b.write(p, fmt, mode=mode)
    elif via in ('ext', 'auto'):
        b.write(p, mode=mode)
    else:
        with open(p, mode) as f:
            b.write(f, fmt)
    with open(p, newline='') as f:
        return f.read()


def do_read(text, fmt, via, d):
    from sugar import read, BioBasket
    try:
        if via in ('str', 'seqwrite'):
            return BioBasket.fromfmtstr(text, fmt=fmt)
        if via == 'iter':           # iter_() has its own dispatch (iter_<fmt> | read_<fmt>) and sets meta._fmt itself
            from sugar import iter_
            return BioBasket(list(iter_(io.StringIO(text), fmt)))
        if via == 'iter-path':
            from sugar import iter_
            p = d.path('i.' + EXT[fmt])
            with open(p, 'w', newline='') as f:
                f.write(text)
            return BioBasket(list(iter_(p, fmt)))
        if via == 'sio':
            return read(io.StringIO(text), fmt)
        if via == 'auto-sio':
            return read(io.StringIO(text))
        if via == 'auto-bytes':
            return read(io.BytesIO(text.encode('latin-1')))
        if via == 'auto-same':      # the same name again and again (with other formats in between): read() detects from the content
            p = d.path('same.dat')
            with open(p, 'w', newline='') as f:
                f.write(text)
            return read(p)
        if via == 'auto-txt':       # a file name whose extension says nothing about the format
            p = d.path('r.txt')
            with open(p, 'w', newline='') as f:
                f.write(text)
            return read(p)
        p = d.path('r.' + EXT[fmt])
        with open(p, 'w', newline='') as f:
            f.write(text)
        if via == 'handle':
            comments = []
            kw = {} if fmt == 'sjson' else {'comments': comments}
            with open(p) as f:
                b = read(f, fmt, **kw)
            if fmt == 'fasta':      # the optional comments list receives exactly the ';' lines
                want = [l for l in re.split(r'\r\n|\r|\n', text) if l.startswith(';')]
                assert [c.rstrip('\n') for c in comments] == want, 'comments=%r, file has %r' % (comments, want)
            return b
        if via == 'auto':           # format detected from the content (main.py:309)
            return read(p)
        return read(p, fmt)
    except json.JSONDecodeError as e:
        raise ValueError(str(e))


def impl_gffopt(case, d):
    """GFF3 + ##FASTA read with the documented reader options filt_fast / filt / default_ftype / comments"""
    from sugar import read, BioBasket
    o = case['opts']
    kw = {k: o[k] for k in ('filt_fast', 'filt', 'default_ftype') if o.get(k) is not None}
    if o.get('comments'):
        kw['comments'] = []
    via = case.get('via', 'str')

    def rd(text):
        if via == 'path':
            p = d.path('o.gff')
            with open(p, 'w', newline='') as f:
                f.write(text)
            return read(p, 'gff', **kw)
        if via == 'sio':
            return read(io.StringIO(text), 'gff', **kw)
        return BioBasket.fromfmtstr(text, fmt='gff', **kw)
    if 'text' in case:
        return objs(rd(case['text']))
    b0 = mk_basket(case['seqs'])
    if case.get('fts'):
        from sugar.core.fts import Feature, Location, FeatureList
        fl = []
        for i, ty, a, e, st in case['fts']:
            ft = Feature(ty, [Location(a, e, strand=st)])
            ft.seqid = i
            fl.append(ft)
        b0.fts = FeatureList(fl)
    t1 = b0.tofmtstr('gff')
    return [t1, objs(rd(t1))]


def impl_archive(case, d):
    from sugar import read
    fmt, a = case['fmt'], case['archive']
    b0 = mk_basket(case['seqs'])
    t1 = b0.tofmtstr(fmt)
    fn = d.path('x.' + EXT[fmt])
    before = set(os.listdir(d.d))
    b0.write(fn, fmt, archive=a)
    new = sorted(set(os.listdir(d.d)) - before)
    assert len(new) == 1 and new[0].startswith('x.' + EXT[fmt] + '.'), 'archive file(s) produced: %r' % (new,)
    p = os.path.join(d.d, new[0])
    try:
        o = read(p, fmt) if case.get('fmt_given') else read(p)
    except json.JSONDecodeError as e:
        raise ValueError(str(e))
    return [canon_text(fmt, t1), objs(o)]

def _exc_name(e):
    return 'ValueError' if isinstance(e, json.JSONDecodeError) else type(e).__name__


def _attach_fts(b0, fts):
    from sugar.core.fts import Feature, Location, FeatureList
    fl = []
    for i, ty, a, e, st in fts:
        ft = Feature(ty, [Location(a, e, strand=st)])
        ft.seqid = i
        fl.append(ft)
    b0.fts = FeatureList(fl)


def impl_detect(case, d):
    """detect() and read() without fmt on the bytes written for a basket, or on a literal text"""
    from sugar._io import detect
    via = case.get('via', 'auto-sio')

    def det(text):
        if via == 'auto-sio':
            return detect(io.StringIO(text))
        if via == 'auto-bytes':
            return detect(io.BytesIO(text.encode('latin-1')))
        p = d.path('det.txt')
        with open(p, 'w', newline='', encoding='latin-1') as f:
            f.write(text)
        return detect(p)

    def rd(text):
        try:
            return objs(do_read(text, None, via, d))
        except Exception as e:
            return {'e': _exc_name(e)}
    if case.get('given'):
        from sugar import read
        text = case['text']
        try:
            if via == 'auto-sio':
                return objs(read(io.StringIO(text), 'sjson'))
            if via == 'auto-bytes':
                return objs(read(io.BytesIO(text.encode('latin-1')), 'sjson'))
            p = d.path('g.txt')
            with open(p, 'w', newline='') as f:
                f.write(text)
            return objs(read(p, 'sjson'))
        except Exception as e:
            return {'e': _exc_name(e)}
    if 'text' in case:
        return [det(case['text']), rd(case['text'])]
    b0 = mk_basket(case['seqs'])
    if case.get('fts'):
        _attach_fts(b0, case['fts'])
    t1 = b0.tofmtstr(case['fmt'])
    return [t1, det(t1), rd(t1)]


def impl_byname(case, d):
    """write(basket, name) with the format taken from the file name; read(name) with the format taken from the content"""
    import pathlib
    from sugar import read
    from sugar._io import detect_ext
    name = case['name']
    if not name_safe(name):
        return None
    p = os.path.join(d.path('root'), name)
    os.makedirs(os.path.dirname(p), exist_ok=True)
    ext = os.path.splitext(p)[1].removeprefix('.')
    fmt = detect_ext(p)
    b0 = mk_basket(case['seqs'])
    try:
        b0.write(pathlib.Path(p) if case.get('via') == 'pathlib' else p)
        with open(p, newline='') as f:
            text = f.read()
    except Exception as e:
        return [ext, fmt, {'e': _exc_name(e)}]
    try:
        o = objs(read(p))
    except Exception as e:
        o = {'e': _exc_name(e)}
    return [ext, fmt, [text, o]]


def impl(case):
    op, fmt = case['op'], case['fmt']
    if op == 'init':
        return impl_init(case)
    via = case.get('via', 'str')
    with _Tmp() as d:
        if op == 'history':
            return impl_history(case, d)
        if op == 'gffopt':
            return impl_gffopt(case, d)
        if op == 'archive':
            return impl_archive(case, d)
        if op == 'detect':
            return impl_detect(case, d)
        if op == 'byname':
            return impl_byname(case, d)
        if op == 'cycle':
            b0 = mk_basket(case['seqs'])
            if case.get('fts'):
                from sugar.core.fts import Feature, Location, FeatureList
                fl = []
                for i, ty, a, e, st in case['fts']:
                    ft = Feature(ty, [Location(a, e, strand=st)])
                    ft.seqid = i
                    fl.append(ft)
                b0.fts = FeatureList(fl)
            t1 = do_write(b0, fmt, via, d)
            o1 = do_read(t1, fmt, via, d)
            r1 = objs(o1)
            t2 = do_write(o1, fmt, via, d)
            o2 = do_read(t2, fmt, via, d)
            r2 = objs(o2)
            t3 = do_write(o2, fmt, via, d)
            if fmt == 'sjson':
                assert t3 == t2, 'SJSON bytes differ between the 2nd and 3rd written text'
            return [canon_text(fmt, t1), r1, canon_text(fmt, t2), r2, canon_text(fmt, t3), bool(o1 == o2)]
        if op == 'append':
            b1, b2 = mk_basket(case['seqs']), mk_basket(case['seqs2'])
            ta = None
            do_write(b1, fmt, 'path', d, mode='w', name='a')
            ta = do_write(b2, fmt, 'path', d, mode='a', name='a')
            tc = do_write(mk_basket(case['seqs'] + case['seqs2']), fmt, 'path', d, name='c')
            try:
                oa = objs(do_read(ta, fmt, 'path', d))
            except Exception as e:
                oa = {'e': type(e).__name__}
            return [canon_text(fmt, ta), canon_text(fmt, tc), oa]
        text = case['text']
        o1 = do_read(text, fmt, via, d)
        r1 = objs(o1)
        t2 = do_write(o1, fmt, 'str', d)
        o2 = do_read(t2, fmt, via, d)
        r2 = objs(o2)
        t3 = do_write(o2, fmt, 'str', d)
        if fmt == 'gff':        # features read from a foreign file are re-written by C02's code; only the rest is observed
            t2, t3 = _drop_ft_lines(t2), _drop_ft_lines(t3)
        return [r1, canon_text(fmt, t2), r2, canon_text(fmt, t3), bool(o1 == o2)]


# ----------------------------------------------------------------------------- model side

def coq_seqs(seqs):
    return coq_list([coq_pair(coq_opt(i, coq_bs), coq_bs(d), coq_opt(h, coq_bs)) for i, d, h in seqs])


def _term(op, fmt, seqs=(), seqs2=(), fts=(), text=''):
    ftl = coq_list([coq_pair(coq_bs(i), coq_bs(t), coq_nat(a), coq_nat(e), '"%s"%%byte' % st) for i, t, a, e, st in fts])
    return 'run_C01 %s %s %s %s %s %s' % (coq_N(op), coq_N(FMTS.index(fmt)), coq_seqs(seqs), coq_seqs(seqs2), ftl, coq_bs(text))


def _opt_term(case):
    o = case['opts']
    ftl = coq_list([coq_pair(coq_bs(i), coq_bs(t), coq_nat(a), coq_nat(e), '"%s"%%byte' % st) for i, t, a, e, st in case.get('fts', [])])
    return 'run_C01_opt %s %s %s %s %s %s %s' % (
        coq_N(1 if 'text' in case else 0), coq_opt(o.get('filt_fast'), coq_bs), coq_list([coq_bs(x) for x in (o.get('filt') or [])]),
        coq_opt(o.get('default_ftype'), coq_bs), coq_seqs(case.get('seqs', [])), ftl, coq_bs(case.get('text', '')))


def model_term(case):
    if case['op'] == 'init':
        return _init_term(case)
    if case['op'] == 'detect':
        ftl = coq_list([coq_pair(coq_bs(i), coq_bs(t), coq_nat(a), coq_nat(e), '"%s"%%byte' % st) for i, t, a, e, st in case.get('fts', [])])
        return 'out (run_C01_det %s %s %s %s %s)' % (coq_N(2 if case.get('given') else 1 if 'text' in case else 0), coq_N(FMTS.index(case['fmt'])),
                                                     coq_seqs(case.get('seqs', [])), ftl, coq_bs(case.get('text', '')))
    if case['op'] == 'byname':
        return 'out (run_C01_byname %s %s)' % (coq_bs(case['name']), coq_seqs(case['seqs']))
    if case['op'] == 'archive':
        return 'out (%s)' % _term(3, case['fmt'], seqs=case['seqs'])
    if case['op'] == 'gffopt':
        return 'out (%s)' % _opt_term(case)
    if case['op'] == 'history':
        terms = []
        for st, cur in zip(case['steps'], h_states(case)):
            if st[0] == 'wr':
                terms.append(_term(3, st[1], seqs=cur))
            elif st[0] == 'r':
                terms.append(_term(4, st[1], text=st[2]))
        return 'out (VL [%s])' % '; '.join(terms)
    fts = coq_list([coq_pair(coq_bs(i), coq_bs(t), coq_nat(a), coq_nat(e), '"%s"%%byte' % st) for i, t, a, e, st in case.get('fts', [])])
    return 'out (run_C01 %s %s %s %s %s %s)' % (coq_N(OPS[case['op']]), coq_N(FMTS.index(case['fmt'])),
                                                coq_seqs(case.get('seqs', [])), coq_seqs(case.get('seqs2', [])), fts,
                                                coq_bs(case.get('text', '')))


def valid_case(case):
    if case.get('op') == 'history':
        if not isinstance(case.get('seqs'), list) or any(len(x) != 3 or x[1] is None for x in case['seqs']):
            return False
        ok = False
        for st in case.get('steps', []):
            if not isinstance(st, list) or not st:
                return False
            if st[0] == 'wr':
                if len(st) != 4 or st[1] not in FMTS or st[2] not in ('str', 'sio', 'path', 'auto-same'):
                    return False
                ok = True
            elif st[0] == 'r':
                if len(st) != 4 or st[1] not in ('fasta', 'stockholm', 'gff'):
                    return False
                ok = True
            elif st[0] == 'edit':
                if len(st) != 4 or st[1] not in H_EDITS or not isinstance(st[2], int) or st[2] < 0:
                    return False
                if st[1] in ('data', 'id', 'header') and not isinstance(st[3], str):
                    return False
                if st[1] == 'replace' and not (isinstance(st[3], list) and len(st[3]) == 2 and len(st[3][0]) == 1):
                    return False
            elif st[0] == 'new':
                if len(st) != 2 or any(len(x) != 3 or x[1] is None for x in st[1]):
                    return False
            elif st != ['fresh']:
                return False
        return ok
    if case.get('op') == 'detect':
        if case.get('fmt') not in FMTS or case.get('via') not in DET_VIAS:
            return False
        if 'text' in case:
            return isinstance(case['text'], str)
        if not (isinstance(case.get('seqs'), list) and all(len(x) == 3 and x[1] is not None for x in case['seqs'])):
            return False
        return all(len(ft) == 5 and len(ft[4]) == 1 and ft[2] < ft[3] and ft[4] in '+-.?' for ft in case.get('fts', []))
    if case.get('op') == 'init':
        return (case.get('from') in ('str', 'seq') and isinstance(case.get('data'), str)
                and (case.get('meta') is None or isinstance(case['meta'], dict)))
    if case.get('op') == 'byname':
        return (name_safe(case.get('name')) and isinstance(case.get('seqs'), list)
                and all(len(x) == 3 and x[1] is not None for x in case['seqs']))
    if case.get('op') == 'archive':
        return case.get('fmt') in FMTS and case.get('archive') in ARCHIVES and isinstance(case.get('seqs'), list) and all(len(x) == 3 and x[1] is not None for x in case['seqs'])
    if case.get('op') == 'gffopt':
        o = case.get('opts')
        if not isinstance(o, dict) or ('text' not in case and 'seqs' not in case):
            return False
        if o.get('filt') is not None and not (isinstance(o['filt'], list) and all(isinstance(x, str) for x in o['filt'])):
            return False
    elif case.get('op') not in OPS or case.get('fmt') not in FMTS:
        return False
    for ft in case.get('fts', []):
        if len(ft) != 5 or len(ft[4]) != 1 or ft[2] >= ft[3] or ft[4] not in '+-.?':
            return False
    return True


def split_model(case, m):
    if case['op'] == 'history':
        return all(bool(x[0]) for x in m), [x[1] for x in m]
    return bool(m[0]), m[1]


def agree(case, implval, modelval):
    if (case['op'] == 'byname' and isinstance(implval, list) and isinstance(modelval, list) and len(implval) == 3 and len(modelval) == 3
            and implval[1] == 'sjson' and implval[:2] == modelval[:2] and isinstance(implval[2], list) and isinstance(modelval[2], list)
            and implval[2][0] != modelval[2][0] and implval[2][1:] == modelval[2][1:]):
        try:            # SJSON written by name: the JSON value counts, not its layout
            return _json_docs(implval[2][0]) == _json_docs(modelval[2][0])
        except Exception:
            return False
    if (case['op'] == 'detect' and 'text' not in case and case['fmt'] == 'sjson' and isinstance(implval, list) and isinstance(modelval, list)
            and len(implval) == 3 and len(modelval) == 3 and implval[0] != modelval[0] and implval[1:] == modelval[1:]):
        # the bytes differ: the property is silent about the JSON layout, but not about the JSON value that is written
        try:
            return _json_docs(implval[0]) == _json_docs(modelval[0])
        except Exception:
            return False
    if case['op'] == 'detect' and 'text' in case and isinstance(modelval, list) and len(modelval) == 2 \
            and modelval[1] == {'e': 'NotModelled'}:
        return isinstance(implval, list) and implval[:1] == modelval[:1]        # another plugin's reader (genbank): only the detection
    return implval == modelval


# ----------------------------------------------------------------------------- property oracle (first principles)
def _spec_detect_text(text):
    """what the documentation of the formats says a file starts with; None = no opinion"""
    t = re.sub(r'\r\n|\r', '\n', text)
    if t[:50].strip().startswith('>'):
        return 'fasta'
    if t.startswith('# STOCKHOLM') and not t[:5].lower() == 'locus':
        return 'stockholm'
    if t[:100].strip().startswith('##gff-version 3') and not t[:50].strip().startswith('>'):
        return 'gff'
    return None


def spec_detect(case, got):
    if isinstance(got, dict):
        return 'raised %s inside the claimed domain' % got.get('e')
    if case.get('given'):
        try:        # first principles: the document is plain JSON; the sequences are the entries of its "data" list
            doc = json.loads(case['text'])
            want = [[x['meta'].get('id'), x['data'].upper()] for x in doc['data']]
        except Exception:
            return None
        if [x[:2] for x in got] != want:
            return 'read %r, the document holds %r' % ([x[:2] for x in got], want)
        return None
    if 'text' in case:
        want = _spec_detect_text(case['text'])
        if want is not None and got[0] != want:
            return 'detected %r, the text is %s' % (got[0], want)
        if want in ('fasta', 'gff') and not isinstance(got[1], dict):
            exp = _expected_from_text(want, case['text'])
            if exp is not None and [x[1] for x in got[1]] != [e['data'] for e in exp]:
                return 'read residues %r, the text has %r' % ([x[1] for x in got[1]], [e['data'] for e in exp])
        return None
    t1, det, o = got
    if det != case['fmt']:
        return 'the %s text written by sugar is detected as %r' % (case['fmt'], det)
    want = [[i, d.upper()] for i, d, h in case['seqs']]
    if isinstance(o, dict) or [x[:2] for x in o] != want:
        return 'read() with detection returned %r, the basket holds %r' % (o if isinstance(o, dict) else [x[:2] for x in o], want)
    return None


def _spec_ext(name):
    base = name.rsplit('/', 1)[-1]
    stem, dot, e = base.rpartition('.')
    return e if dot and stem.strip('.') else ''


def spec_byname(case, got):
    if got is None:
        return None
    ext, fmt, r = got
    want_ext = _spec_ext(case['name'])
    if ext != want_ext:
        return 'extension of %r is %r, expected %r' % (case['name'], ext, want_ext)
    table = {'fasta': 'fasta', 'fa': 'fasta', 'stk': 'stockholm', 'sto': 'stockholm', 'stockholm': 'stockholm', 'gff': 'gff',
             'sjson': 'sjson', 'json': 'sjson'}
    if fmt != table.get(want_ext):
        return 'write(%r) chooses format %r, the documented extension table says %r' % (case['name'], fmt, table.get(want_ext))
    if fmt is None:
        return None if r == {'e': 'OSError'} else 'no format for %r but write gave %r' % (case['name'], r)
    if isinstance(r, dict):
        return 'raised %s inside the claimed domain' % r.get('e')
    want = [[i, d.upper()] for i, d, h in case['seqs']]
    if isinstance(r[1], dict) or [x[:2] for x in r[1]] != want:
        return 'read(%r) returned %r, the basket holds %r' % (case['name'], r[1] if isinstance(r[1], dict) else [x[:2] for x in r[1]], want)
    return None


def _fasta_records(lines):
    """FASTA as the format is defined: '>' starts a record, ';' lines are comments, everything else is residues."""
    recs = []
    for l in lines:
        if l.startswith('>'):
            recs.append([l, ''])
        elif l.startswith(';'):
            continue
        elif recs:
            recs[-1][1] += l.strip()
        elif l.strip():
            return None
    return recs


_SIMPLE_H = re.compile(r'^>([A-Za-z0-9_.]+)( (\S(.*\S)?))?$')


def _expected_from_text(fmt, text):
    lines = re.split(r'\r\n|\r|\n', text)
    if fmt == 'gff':
        k = [i for i, l in enumerate(lines) if l.startswith('##FASTA')]
        lines = lines[k[0] + 1:] if k else []
        fmt = 'fasta'
    if fmt == 'fasta':
        recs = _fasta_records(lines)
        if recs is None:
            return None
        out = []
        for h, d in recs:
            m = _SIMPLE_H.match(h)
            out.append({'id': m.group(1) if m else None, 'data': d.upper(), 'header': h if m else None})
        return out
    rows = {}
    for l in lines:
        l = l.strip()
        if l == '' or l.startswith('#'):
            continue
        if l.startswith('//'):
            break
        parts = l.split(None, 1)
        if len(parts) != 2:
            return None
        rows[parts[0]] = rows.get(parts[0], '') + parts[1]
    return [{'id': k, 'data': v.upper(), 'header': None} for k, v in rows.items()]


def spec_history(case, got):
    if isinstance(got, dict):
        return 'raised %s inside the claimed domain' % got.get('e')
    obs = [(st, cur) for st, cur in zip(case['steps'], h_states(case)) if st[0] in ('wr', 'r')]
    for k, ((st, cur), r) in enumerate(zip(obs, got)):
        if isinstance(r, dict):
            return 'step %d %r raised %s inside the claimed domain' % (k, st[:2], r.get('e'))
        if st[0] == 'wr':
            want = [[i, d] for i, d, h in cur]
            if [x[:2] for x in r[1]] != want:
                return 'step %d write/read %s returned %r, the basket holds %r' % (k, st[1], [x[:2] for x in r[1]], want)
        else:
            exp = _expected_from_text(st[1], st[2])
            if exp is None:
                continue
            if len(r) != len(exp):
                return 'step %d read %d records, text has %d' % (k, len(r), len(exp))
            for x, e in zip(r, exp):
                if x[1] != e['data'] or (e['id'] is not None and x[0] != e['id']):
                    return 'step %d read %r, text has %r' % (k, x[:2], [e['id'], e['data']])
    return None


def spec(case, got):
    if case['op'] == 'history':
        return spec_history(case, got)
    if case['op'] == 'detect':
        return spec_detect(case, got)
    if case['op'] == 'init':
        return spec_init(case, got)
    if case['op'] == 'byname':
        return spec_byname(case, got)
    if case['op'] == 'archive':
        if isinstance(got, dict):
            return 'archive=%r: raised %s inside the claimed domain' % (case['archive'], got.get('e'))
        want = [[i, d.upper()] for i, d, h in case['seqs']]
        if [x[:2] for x in got[1]] != want:
            return 'archive=%r: read %r, the basket holds %r' % (case['archive'], [x[:2] for x in got[1]], want)
        return None
    if case['op'] == 'gffopt':
        if isinstance(got, dict):
            return 'raised %s inside the claimed domain (options %r)' % (got.get('e'), case['opts'])
        if 'text' in case:
            exp = _expected_from_text('gff', case['text'])
            if exp is not None and [x[1] for x in got] != [e['data'] for e in exp]:
                return 'options %r: read residues %r, the sequence section has %r' % (case['opts'], [x[1] for x in got], [e['data'] for e in exp])
            return None
        want = [[i, d.upper()] for i, d, h in case['seqs']]
        if [x[:2] for x in got[1]] != want:
            return 'options %r: read %r, the basket holds %r' % (case['opts'], [x[:2] for x in got[1]], want)
        return None
    if isinstance(got, dict):
        return 'raised %s inside the claimed domain' % got.get('e')
    op, fmt = case['op'], case['fmt']
    if op == 'cycle':
        t1, o1, t2, o2, t3, eq = got
        want = [(i, d.upper()) for i, d, h in case['seqs']]
        for nm, o in (('first', o1), ('second', o2)):
            if [(x[0], x[1]) for x in o] != want:
                return '%s read returned %r, basket was %r' % (nm, [(x[0], x[1]) for x in o], want)
        if not eq:
            return 'objects of the first and second read differ'
        if t2 != t3:
            return 'second and third written text differ'
        return None
    if op == 'append' and fmt != 'fasta':
        # write()'s documentation: mode 'a' works only with compatible formats (FASTA). What the property still says:
        # nothing is raised by the writer, and a Stockholm file keeps reading as its first alignment
        ta, tc, oa = got
        if fmt == 'stockholm':
            want = [[i, d.upper()] for i, d, h in case['seqs']]
            if isinstance(oa, dict) or [x[:2] for x in oa] != want:
                return 'appended Stockholm file reads back as %r, the first alignment is %r' % (oa, want)
        return None
    if op == 'append':
        ta, tc, oa = got
        if ta != tc:
            return "mode 'a' result differs from writing the concatenated basket"
        want = [[i, d.upper()] for i, d, h in case['seqs'] + case['seqs2']]
        if isinstance(oa, dict) or [x[:2] for x in oa] != want:
            return 'appended file reads back as %r' % (oa,)
        return None
    o1, t2, o2, t3, eq = got
    exp = _expected_from_text(fmt, case['text'])
    if exp is None:
        return None
    if len(o1) != len(exp):
        return 'read %d records, file has %d' % (len(o1), len(exp))
    for x, e in zip(o1, exp):
        if x[1] != e['data']:
            return 'residues %r, file has %r' % (x[1], e['data'])
        if e['id'] is not None and x[0] != e['id']:
            return 'id %r, header says %r' % (x[0], e['id'])
    if [x[:2] for x in o2] != [x[:2] for x in o1]:
        return 'ids/residues change in the second cycle'
    if t2 != t3:
        return 'second and third written text differ'
    if fmt in ('fasta', 'gff'):
        hl = [l for l in t2.split('\n') if l.startswith('>')]
        for l, e in zip(hl, exp):
            if e['header'] is not None and l != e['header']:
                return "header %r re-written as %r" % (e['header'], l)
    return None


# ----------------------------------------------------------------------------- evidence helpers

def _marks(case, got):
    op, fmt = case['op'], case['fmt']
    ms = []
    if op == 'archive':
        return ['archive-%s' % case['archive'], 'fmt-given' if case.get('fmt_given') else 'fmt-detected']
    if op == 'init':
        return ['init-' + case['from'], 'id-' + ('absent' if 'id' not in case else 'falsy' if not case['id'] else 'given'),
                'meta-' + ('none' if case.get('meta') is None else 'id' if 'id' in case['meta'] else 'noid'), 'type-%s' % case.get('type')]
    if op == 'detect':
        if case.get('given'):
            return ['sjson-bytes-given', case.get('via', '')]
        if 'text' in case:
            return ['det-text', 'det=%s' % (got[0] if isinstance(got, list) else 'raised'), case.get('via', '')]
        return ['det-written', case.get('via', '')] + (['features'] if case.get('fts') else [])
    if op == 'byname':
        if not isinstance(got, list):
            return ['byname-skipped']
        return ['byname', 'ext-known' if got[1] else 'ext-unknown', 'dirs' if '/' in case['name'] else 'nodirs',
                'dots=%d' % min(case['name'].rsplit('/', 1)[-1].count('.'), 3)]
    if op == 'gffopt':
        o = case['opts']
        ms = ['opt-' + k for k in ('filt_fast', 'filt', 'default_ftype', 'comments') if o.get(k)]
        ms.append('opt-text' if 'text' in case else 'opt-basket')
        if case.get('fts'):
            ms.append('features')
        return sorted(ms)
    if op == 'history':
        for st in case['steps']:
            ms.append('h-' + (st[0] if st[0] != 'edit' else 'edit-' + st[1]))
            if st[0] in ('wr', 'r') and st[3]:
                ms.append('h-mutate-result')
        steps = case['steps']
        if any(a == b and a[0] == 'wr' for a, b in zip(steps, steps[1:])):
            ms.append('h-same-call-twice')
        if len(set(st[1] for st in steps if st[0] == 'wr')) > 1:
            ms.append('h-formats-mixed')
        return sorted(set(ms))
    if op in ('cycle', 'append'):
        seqs = case['seqs'] + case.get('seqs2', [])
        if any(h is not None for _, _, h in seqs):
            ms.append('header')
        if any(d != d.upper() for _, d, _ in seqs):
            ms.append('lower')
        if any('meta' in d.lower() for _, d, _ in seqs):
            ms.append('meta')
        kws = [k.lower() for k in keywords() if len(k) >= 3]
        if any(k in (d or '').lower() or k in (i or '').lower() for i, d, _ in seqs for k in kws):
            ms.append('keyword')
        if any(d == '' for _, d, _ in seqs):
            ms.append('empty')
        if any(i and re.search(r'gb[:|]|(emb|dbj|sp|tr|ref|lcl)\|', i) for i, _, _ in seqs):
            ms.append('dbtag')
        if len(set(i for i, _, _ in seqs)) < len(seqs):
            ms.append('dupid')
        if case.get('via') not in (None, 'str'):
            ms.append('via-' + case['via'])
        if op == 'append':
            ms.append('append')
        if case.get('fts'):
            ms.append('features')
    else:
        t = case['text']
        ls = re.split(r'\r\n|\r|\n', t)
        if '\r' in t:
            ms.append('crlf')
        if fmt == 'fasta' and ls and ls[0].strip() == '' and len(ls) > 1:
            ms.append('leading-blank')
        if any(l.startswith(';') for l in ls):
            ms.append('comment')
        if any(l.strip() == '' for l in ls[:-1]):
            ms.append('blank')
        if re.search(r'[a-z]', ''.join(l for l in ls if not l.startswith(('>', ';', '#')))):
            ms.append('lower')
        if 'meta' in t.lower():
            ms.append('meta')
        if any(l.startswith('>') and len(l.split()) > 1 for l in ls):
            ms.append('desc')
        if fmt == 'stockholm':
            keys = [l.split()[0] for l in ls if l.strip() and not l.startswith(('#', '/'))]
            if len(set(keys)) < len(keys):
                ms.append('interleaved')
            if any(l.startswith('#=G') for l in ls):
                ms.append('annot')
        nd = 0
        for l in ls:
            if l.startswith('>'):
                nd = 0
            elif l.strip() and not l.startswith(';'):
                nd += 1
                if nd == 2:
                    ms.append('wrapped')
    return sorted(set(ms))


def nontrivial(case, got):
    ms = _marks(case, got)
    return [case['op'], case['fmt']] + ms if ms else None


def histkey(case, got):
    ks = ['op=' + case['op'], 'fmt=' + case['fmt'], 'raised' if isinstance(got, dict) else 'returned']
    if case['op'] in ('gffopt', 'archive', 'detect', 'byname', 'init'):
        pass
    elif case['op'] == 'history':
        ks.append('steps=%d' % len(case['steps']))
    elif case['op'] == 'read':
        n = len(case['text'])
        ks.append('textlen=' + ('<50' if n < 50 else '<200' if n < 200 else '200+'))
    else:
        seqs = case['seqs'] + case.get('seqs2', [])
        ks.append('nseq=%d' % len(seqs))
        m = max([len(d) for _, d, _ in seqs], default=0)
        ks.append('maxlen=' + ('0' if m == 0 else '1' if m == 1 else '<59' if m < 59 else '59-61' if m <= 61 else '62+'))
    ks += ['mark=' + m for m in _marks(case, got)]
    return ks


def features(case, got):
    return {}


def python_snippet(case):
    return ("import json, sys; sys.path.insert(0, '/verif/tools'); sys.path.insert(0, '/verif/tools/props')\n"
            "import c01; print(c01.impl(json.loads(%r)))" % json.dumps(case))


# ----------------------------------------------------------------------------- relational checks without a model

def extra_checks(rng, tier, cov):
    """GFF baskets WITH features (feature lines are C02's business: only the sequences are observed here) and larger
    baskets through every format: count, order, ids, residues survive; 2nd and 3rd written text identical."""
    from sugar import BioSeq, BioBasket
    from sugar.core.fts import Feature, Location, FeatureList
    n = 400 if tier == 'thorough' else 40
    done = 0
    for _ in range(n):
        k = rng.choice([1, 2, 5, 12, 30])
        ids = []
        while len(ids) < k:
            i = ''.join(rng.choice('abcdefghijklmnopqrstuvwxyzABCDEFGHIJKLMNOPQRSTUVWXYZ0123456789_.') for _ in range(rng.choice([1, 3, 8])))
            # id '.' is GFF's placeholder for 'no seqid' (a feature on it is read back without seqid): C02
            if i not in ids and not re.search(r'gb[:|]', i) and i.strip('.'):
                ids.append(i)
        seqs = [[i, ''.join(rng.choice(rng.choice([RES_NT, RES_AA, 'acgt'])) for _ in range(rng.choice([1, 10, 61, 300, 1000]))), None]
                for i in ids]
        for fmt in FMTS:
            b = mk_basket(seqs)
            if fmt == 'gff':
                fts = []
                for i, d, _ in seqs:
                    if rng.random() < 0.7:
                        a = rng.randrange(0, len(d))
                        e = rng.randrange(a + 1, len(d) + 1)
                        ft = Feature(rng.choice(['gene', 'CDS']), [Location(a, e, strand=rng.choice('+-'))])
                        ft.seqid = i
                        fts.append(ft)
                b.fts = FeatureList(fts)
            case = {'op': 'relational', 'fmt': fmt, 'seqs': seqs}
            try:
                t1 = b.tofmtstr(fmt)
                o1 = BioBasket.fromfmtstr(t1, fmt=fmt)
                t2 = o1.tofmtstr(fmt)
                o2 = BioBasket.fromfmtstr(t2, fmt=fmt)
                t3 = o2.tofmtstr(fmt)
            except Exception as e:
                yield {'case': case, 'impl': {'e': type(e).__name__}, 'spec': 'raised %s: %s' % (type(e).__name__, e), 'noshrink': True, 'model': None, 'wf': True, 'evaluated': False}
                continue
            done += 1
            want = [(i, d.upper()) for i, d, _ in seqs]
            why = None
            if [(s.id, s.data) for s in o1] != want or [(s.id, s.data) for s in o2] != want:
                why = 'ids/residues not preserved'
            elif fmt == 'gff' and len(o1.fts) != len(b.fts):
                why = 'number of features changed'
            elif fmt != 'gff' and t2 != t3:      # GFF: multi-location IDs are random, C02
                why = '2nd and 3rd written text differ'
            elif fmt == 'gff' and t2.split('##FASTA')[1] != t3.split('##FASTA')[1]:
                why = '2nd and 3rd written sequence section differ'
            if why:
                yield {'case': case, 'impl': [t1[:300], t2[:300]], 'spec': why, 'noshrink': True, 'model': None, 'wf': True, 'evaluated': False}
    cov['relational_roundtrips'] = done
    # comment / blank lines are removable (C01_fasta_comments_removable, C01_fasta_blank_comments_removable,
    # C01_stk_comments_removable): the text with these lines deleted by the oracle's own line filter reads the same
    n_rm = 0
    for _ in range(600 if tier == 'thorough' else 90):
        fmt = rng.choice(['fasta', 'fasta', 'stockholm', 'gff'])
        text = {'fasta': g_fasta_text, 'stockholm': g_stk_text, 'gff': g_gff_text}[fmt](rng)
        if '\r' in text:
            continue
        lines = text.split('\n')
        if fmt == 'stockholm':
            if rng.random() < 0.5:          # more comments, blank lines, well-formed annotations anywhere
                for _k in range(rng.choice([1, 2, 5])):
                    lines.insert(rng.randrange(0, len(lines)), rng.choice(['', '  ', '# c', '#', ' # x y', '#=GF DE a b', '#=GC SS_cons ..', '#=GS s1 AC X', '#x=GF']))
            def removable(l):
                x = l.strip()
                if not x:
                    return True
                if not x.startswith('#'):
                    return False
                if x[:4] in ('#=GF', '#=GC'):
                    return len(x.split()) >= 3
                if x[:4] in ('#=GS', '#=GR'):
                    return len(x.split()) >= 4
                return True
            keep = [l for l in lines if not removable(l)]
        elif fmt == 'fasta':
            which = rng.choice(['semi', 'both'])
            keep = [l for l in lines if not l.startswith(';') and (which == 'semi' or l.strip())]
        else:
            k = [i for i, l in enumerate(lines) if l.startswith('##FASTA')]
            if not k:
                continue
            keep = lines[:k[0] + 1] + [l for l in lines[k[0] + 1:] if not l.startswith(';')]
        t1, t2 = '\n'.join(lines), '\n'.join(keep)

        def rd(t):
            try:
                return [x[:3] for x in objs(BioBasket.fromfmtstr(t, fmt=fmt))]
            except Exception as e:
                return {'e': type(e).__name__}
        r1, r2 = rd(t1), rd(t2)
        if isinstance(r1, dict) and '#=G' in t1:
            continue                      # annotation keys outside the domain (F20) or malformed annotation lines
        n_rm += 1
        if r1 != r2:
            yield {'case': {'op': 'remove-comments', 'fmt': fmt, 'text': t1, 'stripped': t2}, 'impl': [r1, r2],
                   'spec': 'deleting comment/blank lines changes what is read: %r vs %r' % (r1, r2), 'noshrink': True, 'model': None,
                   'wf': True, 'evaluated': False}
    cov['comment_removal_checks'] = n_rm
    # FASTA files can be concatenated (C01_fasta_concat): read(t1 + t2) = read(t1) + read(t2) for any layout of the two texts
    n_cc = 0
    for _ in range(400 if tier == 'thorough' else 50):
        t1, t2 = g_fasta_text(rng), g_fasta_text(rng)
        if '\r' in t1 + t2 or not t2.startswith('>'):
            continue
        if not t1.endswith('\n'):
            t1 += '\n'

        def rdf(t):
            try:
                return [x[:4] for x in objs(BioBasket.fromfmtstr(t, fmt='fasta'))]
            except Exception as e:
                return {'e': type(e).__name__}
        r1, r2, r12 = rdf(t1), rdf(t2), rdf(t1 + t2)
        n_cc += 1
        want = r1 if isinstance(r1, dict) else r2 if isinstance(r2, dict) else r1 + r2
        if r12 != want:
            yield {'case': {'op': 'concat', 'fmt': 'fasta', 'text': t1, 'text2': t2}, 'impl': [r1, r2, r12],
                   'spec': 'reading the concatenation of two FASTA texts gives %r, the parts give %r and %r' % (r12, r1, r2), 'noshrink': True,
                   'model': None, 'wf': True, 'evaluated': False}
    cov['fasta_concat_checks'] = n_cc
    n_edge = 0
    try:
        for name, why in _edge_checks():
            n_edge += 1
            if why:
                yield {'case': {'op': 'edge', 'name': name}, 'impl': None, 'spec': '%s: %s' % (name, why), 'noshrink': True,
                       'model': None, 'wf': True, 'evaluated': False}
    except Exception as e:
        yield {'case': {'op': 'edge', 'name': 'edge checks'}, 'impl': {'e': type(e).__name__}, 'spec': 'edge checks raised %s: %s' % (type(e).__name__, e),
               'noshrink': True, 'model': None, 'wf': True, 'evaluated': False}
    cov['api_edge_checks'] = n_edge


def _edge_checks():
    """API edges of the modelled functions that no basket/text case reaches; each returns None or a complaint"""
    from sugar import BioSeq, BioBasket, read
    from sugar.core.fts import Feature, Location, FeatureList

    def raises(exc, fn):
        try:
            fn()
        except exc:
            return None
        except Exception as e:
            return 'raised %s instead of %s' % (type(e).__name__, exc.__name__)
        return 'did not raise %s' % exc.__name__
    b = BioBasket([BioSeq('ACGT', id='a'), BioSeq('MKV*', id='b')])
    with _Tmp() as d:
        yield 'read undetectable', raises(IOError, lambda: read(io.StringIO('no known format\n')))
        yield 'write unknown extension', raises(IOError, lambda: b.write(d.path('x.unknownext')))
        yield 'read tool', raises(ValueError, lambda: read(io.StringIO('>a\nAC\n'), 'fasta', tool='nosuchtool'))
        yield 'write tool', raises(ValueError, lambda: b.write(d.path('t.fasta'), 'fasta', tool='nosuchtool'))
        # neither 'a' nor 'w' in mode and no write_fasta: the third branch of the dispatch (model: write_dispatch f false false)
        yield 'write mode x', raises(RuntimeError, lambda: b.write(d.path('m.fasta'), 'fasta', mode='x'))
        # iter_(): detection, undetectable input, unknown tool (main.py iter_, same contract as read())
        from sugar import iter_
        got = [(s.id, s.data, s.meta._fmt) for s in iter_(io.StringIO('>a d\nAC\nGT\n>b\nMK\n'))]
        yield 'iter_ detects', None if got == [('a', 'ACGT', 'fasta'), ('b', 'MK', 'fasta')] else 'got %r' % (got,)
        got = [(s.id, s.data, s.meta._fmt) for s in iter_(io.BytesIO(b'# STOCKHOLM 1.0\na AC\nb GU\n//\n'))]
        yield 'iter_ detects stockholm', None if got == [('a', 'AC', 'stockholm'), ('b', 'GU', 'stockholm')] else 'got %r' % (got,)
        yield 'iter_ undetectable', raises(IOError, lambda: list(iter_(io.StringIO('no known format\n'))))
        yield 'iter_ tool', raises(ValueError, lambda: list(iter_(io.StringIO('>a\nAC\n'), 'fasta', tool='nosuchtool')))
        # write() to a handle without fmt: there is no name to take the format from (detect_ext swallows the TypeError)
        yield 'write handle without fmt', raises(IOError, lambda: b.write(io.StringIO()))
        yield 'tofmtstr without fmt', raises(ValueError, lambda: b.write(None))
        # the comments list of the Stockholm reader receives the '#' lines
        cm = []
        o = read(io.StringIO('# STOCKHOLM 1.0\n# c1\na AC\n#=GF DE x y\n  # c2\na GU\n//\n'), 'stockholm', comments=cm)
        ok = [(s.id, s.data) for s in o] == [('a', 'ACGU')] and [c.strip() for c in cm if 'STOCKHOLM' not in c] == ['# c1', '# c2']
        yield 'stockholm comments list', None if ok else 'got %r %r' % ([(s.id, s.data) for s in o], cm)
    # SJSON with features: Feature / Location / Strand / Defect branches of the encoder
    fb = BioBasket([BioSeq('ACGTACGT', id='a'), BioSeq('MKV*', id='b')])
    ft = Feature('gene', [Location(1, 4, strand='-'), Location(5, 7, strand='-')])
    ft.seqid = 'a'
    ft.locs[0].meta.note = 'x'        # Location metadata branch of the encoder
    fb.fts = FeatureList([ft])
    o = BioBasket.fromfmtstr(fb.tofmtstr('sjson'), fmt='sjson')
    ok = ([(s.id, s.data) for s in o] == [('a', 'ACGTACGT'), ('b', 'MKV*')] and len(o.fts) == 1
          and sorted((l.start, l.stop, str(l.strand)) for l in o.fts[0].locs) == [(1, 4, '-'), (5, 7, '-')])
    yield 'sjson with features', None if ok else 'sequences/features changed: %r %r' % ([(s.id, s.data) for s in o], o.fts)
    bad = BioBasket([BioSeq('AC', id='a')])
    bad[0].meta.obj = object()
    yield 'sjson unknown object', raises(TypeError, lambda: bad.tofmtstr('sjson'))
    foreign = ('{"_fmtcomment": "sugar JSON format written by hand", "data": [{"data": "acgt", "meta": {"id": "x", '
               '"extra": {"k": "v"}, "_cls": "Meta"}, "type": "nt", "_cls": "BioSeq"}], "meta": {"_cls": "Meta"}, "_cls": "BioBasket"}')
    o = BioBasket.fromfmtstr(foreign, fmt='sjson')
    yield 'sjson plain object', None if [(s.id, s.data, s.meta.extra['k']) for s in o] == [('x', 'ACGT', 'v')] else 'got %r' % o
    # BioSeq(data) with data carrying its own metadata (seq.py:216-219)
    s0 = BioSeq('acgt', id='orig')
    s1 = BioSeq(s0)
    yield 'BioSeq(BioSeq)', None if (s1.id, s1.data) == ('orig', 'ACGT') else 'got %r' % ((s1.id, s1.data),)
    s2 = BioSeq({'meta': {'id': 'frommap'}})
    yield 'BioSeq(mapping)', None if s2.id == 'frommap' else 'got id %r' % (s2.id,)


LEVEL_TEXT = ('Machine-checked Coq theorems about an executable model of the readers/writers: for every basket in the stated domain '
              'and each of FASTA, Stockholm, GFF3+##FASTA (also with plain features in front of the sequence section), SJSON (tree '
              'level), write->read returns the same count, order, ids and residues, and the objects read back are written and read '
              'as themselves (objects equal, bytes identical from the second text on; C01_roundtrip_all, C01_format_cycle, '
              'C01_gff_fts_roundtrip); the GFF reader options filt_fast / filt / default_ftype do not change which sequences are '
              'read (C01_gff_options_irrelevant); the FASTA reader is insensitive to wrapping at any width, blank and ";" lines inside records '
              'and before the first header, and case (C01_fasta_rewrap, C01_wrap_payload, C01_payload_insert, '
              'C01_fasta_leading_skip); deleting every ";" line (and every blank line) of a FASTA file, or every blank / "#" comment / '
              'well-formed "#=G?" line of a Stockholm file, changes nothing of what is read (C01_fasta_comments_removable, '
              'C01_fasta_blank_comments_removable, C01_stk_comments_removable, C01_stk_plain_comment_noop); reading the lines of two '
              'FASTA files one after the other gives the records of the first followed by those of the second, for any layout '
              '(C01_fasta_concat); "id description" headers are '
              're-written verbatim in any position; mode "a" equals writing '
              'the concatenated basket; the id extractor is idempotent; any FASTA, GFF3+##FASTA or Stockholm text of the reader '
              'domain reaches the fixpoint with the first written text (C01_*_reader_fixpoint); the five sniffers of /repo tried in '
              'plugin order recognise every written text of a non-empty basket as its own format - for SJSON on the bytes json.dump '
              'renders - so the round trip also holds when read() detects the format from the content (C01_written_detected, '
              'C01_auto_roundtrip, C01_gff_fts_detected, C01_gff_fts_auto, C01_fasta_sniff_leading_ws, C01_fasta_sniff_leading_ws_any, '
              'C01_jdump_no_tab); each plugin has exactly one reader and one writer entry point, so read() and iter_() run the same '
              'function and "no read / write support" cannot happen (C01_plugins_complete); detect() is first-match in the plugin order '
              'fasta, genbank, stockholm, gff, sjson (C01_detect_order); the last '
              'suffix of the base name decides the format of write(fname) whatever other dots, suffixes and directories the name has, '
              'names without suffix and hidden files have none (C01_basename_dir, C01_detect_ext_last_suffix, C01_ext_of_no_suffix, '
              'C01_ext_of_hidden, C01_ext_table_ok) and writing by name round-trips (C01_byname_roundtrip); interleaved Stockholm '
              'blocks are read as per-id concatenations, for two blocks and for any number of blocks (C01_stk_interleave, '
              'C01_stk_interleave_n); at byte level: a parser for the subset of JSON sugar writes inverts the json.dump printer on '
              'every tree and with any trailing whitespace, so reading the characters of a written file is reading its content and '
              'the round trip holds on bytes for all four formats (C01_jparse_jdump, C01_jload_jdump, C01_read_bytes_written, '
              'C01_bytes_roundtrip), and any characters read() decodes as SJSON give objects that are written and read back as exactly '
              'themselves (C01_sjson_reader_fixpoint, no domain condition); mode "a": which plugin function write() calls for each format, the appended file is old + new '
              'characters, and a Stockholm file appended to reads back as its first alignment only, i.e. "append = concatenation" is '
              'a FASTA fact as documented (C01_append_dispatch, C01_append_file, C01_stk_append_reads_first), an SJSON file appended to is '
              'unreadable (C01_sjson_append_unreadable); BioSeq(data, id, meta, '
              'type): data upper-cased, type given or inferred from the upper-cased letters, AssertionError for other types, id '
              'precedence argument > source object / meta mapping > default, copy of a constructed sequence is itself, an explicit '
              'type is not copied (C01_bioseq_init_plain, C01_bioseq_init_data_type, C01_bioseq_init_id, C01_bioseq_init_copy, '
              'C01_bioseq_init_copy_reinfers, C01_bioseq_init_hook). The model is tied to sugar by differential testing '
              'through the public entry points on every run.')
LEVEL_NOTE = ('Trusted: Coq kernel/vm_compute, translator (G_codes, G_c01_io), correspondence harness, CPython text layer, re, '
              'json (modelled: dump of str/None/list/dict trees with default options, load of that subset; numbers, booleans, '
              'non-Latin-1 escapes are outside the model), '
              'os.path.splitext (modelled by hand for POSIX names and compared on generated names). '
              'Modelled rather than verified: BioSeq.__init__, fasta.py, stockholm.py sequence lines, sjson.py at tree level plus '
              "json.dump's rendering of these trees (compared byte for byte with tofmtstr('sjson')), "
              'gff.py sequence section plus the acceptance test / rendering of plain single-location feature lines, write()/read() '
              'dispatch, detect_ext() and detect() with the five sniffers (is_gff: int() of the coordinate columns without "_" digit '
              'separators, otherwise outside the domain); Python str limited to Latin-1, domain printable ASCII. '
              'Domain restrictions: FASTA/GFF ids are fixed points of the id extractor without , | ; and not starting with ">"; '
              'Stockholm ids distinct, not starting with "#" or "//", rows non-empty; residues are upper-cased by BioSeq(); '
              'GFF features: single location, seqid not ".", distinct sequence ids; detection theorems need a non-empty basket (an '
              'empty FASTA file is undetectable). '
              'Tested only (not proved): transports (path, pathlib.Path, handle, StringIO, BytesIO, extension and content detection, '
              'iter_(), BioSeq.write / BioSeq.tofmtstr sequence by sequence), '
              'SJSON/GFF feature content (C14/C02), the OS appending bytes in mode "a", archives, BioSeq(mapping with a "meta" key). '
              'Statement coverage of the modelled functions in the quick tier is complete except: def lines (executed at import, '
              'before measurement), main.py read 344-346 / iter_ 268-270 / write 433-434 (tool="biopython", Bio not installed), '
              'read 356 / iter_ 284 (no sequence plugin lacks both read_ and iter_: C01_plugins_complete), detect 90 (a binary '
              'plugin with a text handle: no sequence plugin is binary, checked by the translator), sjson.py:28,30 (Strand/Defect are '
              'str/int subclasses and are serialised natively, default() is never called for them), sjson.py:56 '
              '(isinstance(cls, (Strand, Defect)) on a class is always False). '
              'All theorems closed under the global context (no axioms).')
TECHNIQUE = 'Coq proof over an executable model + differential correspondence on generated and corpus cases'
