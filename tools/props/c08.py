"""C08 -- location and feature geometry (slice, rc, ordering, comparisons): cases, driver, model terms, oracle."""
import itertools, json
from framework import coq_N, coq_nat, coq_list, coq_opt

ID = 'C08'
COQ_IMPORTS = ['G_flags', 'C08_Model']
GENERATORS = ['gen_flags']
MODELLED_FUNCS = {'sugar/core/fts.py': [
    'Defect._reverse', 'Strand._reverse', 'Location.__init__', 'Location.strand', 'Location.defect', 'Location._reverse',
    'LocationTuple.__new__', 'LocationTuple.range', 'LocationTuple.__lt__', 'LocationTuple.__le__', 'LocationTuple.__gt__',
    'LocationTuple.__ge__', 'LocationTuple.overlaps', 'LocationTuple._reverse',
    'Feature.__init__', 'Feature.locs', 'Feature.loc', 'Feature.__len__', 'Feature.overlaps', 'Feature.rc',
    'Feature.__lt__', 'FeatureList.loc_range', 'FeatureList.slice', 'FeatureList.rc', 'FeatureList.sort']}
STRANDS = '+-.?'
RULE = ('seven case kinds: (h) a FeatureList built through the public constructors (features may share Location objects) followed by a '
        'history of slice / rc / Feature.rc / locs-setter / locs-sharing operations and of queries (slice observed without replacing the '
        'list, optionally mutating the RESULT; comparisons between features); the state after every step, every query, the final features '
        'and loc_range are compared, every slice is repeated, operands and every LocationTuple handed out earlier must stay unchanged; '
        'FeatureList.sort()/sorted() against the order of the covered ranges and the comparison operators; metadata keys set to None after '
        'construction (feature level and per location) must survive every operation, results that render like the operand must be == to it, '
        'slice(a,b,rel=a).rc(b-a) is cross-checked against seq.sl(update_fts=True)[minus-strand Location]; '
        '(rr) rc twice; (cmp) <,<=,>,>=,overlaps,range of two LocationTuples; (api) argument checking of constructors and comparisons; '
        '(law) one list, two windows and two lengths: slice.slice against the single slice with the intersected window and summed rel, '
        'slice.rc(L\') against rc(L).slice with the mirrored window (exact equality demanded by the driver when every feature is stranded); '
        '(ops) every ordered pair of 12 operand kinds (LocationTuple, Feature without / with seqid a, B, ab, Location, plain tuple, int, str, '
        'None, list, float) with at least one LocationTuple / Feature through <,<=,>,>= and overlaps() in both directions; (args) '
        'Location(start, stop) for every pair of value kinds int, bool, numpy.int64, float (integral and half-integral), None, integer '
        'kinds then run through slice / rc / loc_range / comparisons against the same plain ints. '
        'Exhaustive box: every pair of intervals x strand x window (bounds None or 0..N, including empty and inverted windows), N=3 quick '
        '(half sampled) / N=5 thorough, defect bits and rel drawn per case; every pair of intervals through the comparisons; all 256 '
        'defect sets through rc; plus random histories with coordinates up to 2^62, defect values beyond 255, invalid constructions and a '
        'state-independence stream (450 quick / 4000 thorough), 380 / 5000 law cases, 190 / 760 operand-kind cases, 150 / 1000 typed-coordinate '
        'cases. non-trivial = distinct case with at least one branch marker (cut side, '
        'dropped location/feature, window edge = location edge, minus/unstranded, rel != 0, open window side, tie, shared locations, '
        'mutated result, rejected construction)')
TRUSTED = ['CPython sorted() stability incl. reverse=True, enum.IntFlag/StrEnum semantics (len, ^, |, KEEP boundary), sys.maxsize = 2^63-1 '
           '(asserted by the driver), tuple/list/UserList plumbing',
           'modelled: Defect._reverse, Strand._reverse, Location.__init__/_reverse, LocationTuple.__new__/range/<,<=,>,>=/overlaps/_reverse, '
           'Feature.__init__/locs setter/rc, FeatureList.slice/rc/loc_range (fts.py:19-256, 281-299, 390-400, 705-780)',
           'metadata of locations and features is an opaque tag carried along (Meta copying is C18)',
           'CPython binary rich-comparison dispatch (Objects/object.c do_richcompare: reflected method first for a proper subclass on the '
           'right, otherwise after NotImplemented; two NotImplemented answers are a TypeError) as written in py_cmp of C08_Model.v; str < str '
           'on seqids is code-point order (modelled on Latin-1 text); numpy.int64 / bool / float arithmetic and ordering agree with the '
           'integers they denote (checked relationally against plain ints by the (args) cases)']
ASSUMPTIONS = ['coordinates |x| < 2^62 (the code substitutes +-sys.maxsize for an open window side)',
               'strands are the four Strand members; defect values are arbitrary non-negative integers (IntFlag keeps unknown bits)',
               'Locations are not mutated in place by the caller after construction (loc.strand = ... bypasses the constructor); sharing of '
               'Location objects between features is exercised by the history cases but not part of the (pure) Coq model',
               'open finding F31 rc_tie_order: the rc().rc() identity holds exactly under the guard tie_ok (C08_mirror_involutive_iff); the '
               'complementary region is inside the tested domain and reported as KNOWN-FINDING']
LEVEL_TEXT = ('Machine-checked Coq theorems over all integers and all windows: FeatureList.slice equals the declarative clip/filter '
              'specification (a location is kept iff it shares a position with [a,b), i.e. x<b and y>a for a non-empty window and never for '
              'an empty or inverted one; result [max a x - r, min b y - r); MISS_LEFT/MISS_RIGHT set exactly when cut; other bits, strand, '
              'metadata and order unchanged; feature kept iff a location is kept), is the identity for an unbounded window; mirroring maps '
              '[a,b) to [L-b,L-a), swaps strand and the three left/right defect pairs (finite check over all 256 bit sets on the regenerated '
              'flag values, extended to arbitrary bit sets) and is an involution exactly under the guard tie_ok (iff theorem; the complement '
              'is open finding F31, where only the order of same-start locations of unstranded features changes); every LocationTuple '
              'produced by constructor, setter, slice or rc over arbitrary operation histories is non-empty, single-stranded and ordered '
              '5\'->3\'; <,<=,>,>= are the lexicographic order on ranges with trichotomy, overlaps is range intersection, FeatureList.sort() is a '
              'permutation ordered by that order (stable insertion sort, fixpoint on ordered lists), range and '
              'loc_range are (least start, greatest stop). Composition laws for all windows and integers (list induction + lia, no box): '
              'slice(s1,e1,r1).slice(s2,e2,r2) = slice(max(s1,s2+r1), min(e1,e2+r1), r1+r2) (C08_slice_slice, also open/empty/inverted windows), '
              'Defect._reverse is a permutation of bit positions and commutes with | (C08_defect_reverse_bits), slice(s,e,r).rc(L\') = '
              'rc(L).slice(L-e, L-s, L-L\'-r) exactly on stranded features and up to the order of locations on all (C08_rc_slice_commute, '
              '_perm, exactness without strand refuted: _refuted). Operand types: a comparison answers exactly for LocationTuple x LocationTuple '
              '(4 operators), Feature < / > Feature (seqids first), Feature < LocationTuple, everything else incl. plain tuples is a '
              'TypeError; every answer not decided by seqids is the comparison of the covered ranges; overlaps() likewise '
              '(C08_cmp_operands, _value, C08_cmp_seqid_first, C08_seqid_order, C08_overlaps_operands). Location(start, stop) takes every '
              'orderable number with start < stop (int, bool, numpy integer, float), None is a TypeError, integer-valued arguments are accepted '
              'exactly when the integer constructor accepts them (C08_location_args, C08_location_args_int). The hand-written model is tied to sugar by differential testing on every run '
              '(exhaustive small box, random large coordinates, state-independence histories).')
LEVEL_NOTE = ('Trusted: Coq kernel/vm_compute, tools/gen_data.py (flag values), the correspondence harness, CPython sorted/enum. Modelled rather '
              'than verified: the functions of sugar/core/fts.py listed in MODELLED_FUNCS (every statement of them is executed in the quick '
              'tier; no unreachable lines). Proved for all inputs: every clause of the property except the involution outside tie_ok (refuted: '
              'C08_mirror_involutive_refuted, characterised: C08_mirror_involutive_iff, C08_tie_region_iff). Tested only (not expressible in '
              'the pure model): independence from shared Location objects / earlier calls (history stream), preservation of None-valued metadata and == equality (Meta copying), agreement of sorted()/sort() '
              'with the modelled stable sort, the BioSeq.sl(update_fts) cross-check, Feature.__len__/loc delegation, the start=/stop=/strand= keyword form and the '
              'tuple-conversion form of the constructors, CPython int/enum behaviour, that bool / numpy.int64 coordinates behave like the ints they '
              'denote through slice / rc / loc_range / comparisons (relational (args) check; float coordinates: constructor decision only, '
              'len(Feature) is not defined for them). Since round 6 inside the model: the seqid branch of Feature.__lt__, the operand-type '
              'dispatch of <,<=,>,>= and overlaps() (py_cmp: CPython\'s reflected-method protocol is modelled, hence trusted as modelled), the '
              'value kinds accepted by Location(). The tie tolerates an ANSWER between LocationTuple/Feature operands where today\'s code raises '
              'TypeError (API extension; the oracle still requires the answer to be the comparison of the covered ranges); a refusal where the '
              'model answers, and any answer for a foreign operand, is a violation. Features with and without seqid compared with each other: '
              'property silent (TypeError today, so FeatureList.sort() fails on such a list). Identity for an unbounded window is proved for '
              '|x| < 2^62. All theorems closed under the global context.')
TECHNIQUE = 'Coq proof (lia, list induction, finite enumeration of 256 defect sets / 256 bytes) + differential correspondence'

B62 = 2 ** 62


# ----------------------------------------------------------------------------- Coq terms
# scalar fields of the round-6 case kinds (law: two windows and two lengths; ops: operand kinds; args: typed coordinates)
PLAIN_KEYS = ('s1', 'e1', 'r1', 's2', 'e2', 'r2', 'Lp', 'kx', 'ky', 'ka', 'za', 'kb', 'zb', 'w')


def _t(r):
    """location dict -> (start, stop, strand, defect, tag); dict cases survive the generic shrinker"""
    return (r['a'], r['b'], r['_s'], r['d'], r['m'])


def _pl(r):
    return {'a': r[0], 'b': r[1], '_s': r[2], 'd': r[3], 'm': r[4]}


def _pop(o):
    if o[0] == 'slice':
        return {'_op': 'slice', 'a': o[1], 'b': o[2], 'r': o[3]}
    if o[0] == 'rc':
        return {'_op': 'rc', 'L': o[1]}
    if o[0] == 'ftrc':
        return {'_op': 'ftrc', 'i': o[1], 'L': o[2]}
    if o[0] == 'sharelocs':
        return {'_op': 'sharelocs', 'i': o[1], 'j': o[2]}
    if o[0] == 'qslice':
        return {'_op': 'qslice', 'a': o[1], 'b': o[2], 'r': o[3], 'L': o[4]}
    if o[0] == 'qcmp':
        return {'_op': 'qcmp', 'i': o[1], 'j': o[2]}
    if o[0] == 'sort':
        return {'_op': 'sort', 'rev': bool(o[1])}
    return {'_op': 'setlocs', 'i': o[1], 'locs': [_pl(r) for r in o[2]]}


def _pack(c):
    """internal list form -> stored dict form"""
    d = {'_k': c['_k']}
    if 'fts' in c:
        d['fts'] = [{'locs': [_pl(r) for r in f['locs']], 'm': f['m'], 'kw': f['kw'], 'share': f.get('share')} for f in c['fts']]
    if 'ops' in c:
        d['ops'] = [_pop(o) for o in c['ops']]
    if 'L' in c:
        d['L'] = c['L']
    if 'v' in c:
        d['v'] = c['v']
    for k in ('t', 'u'):
        if k in c:
            d[k] = [_pl(r) for r in c[k]]
    for k in PLAIN_KEYS:
        if k in c:
            d[k] = c[k]
    return d


def _uop(o):
    k = o['_op']
    if k == 'slice':
        return ['slice', o['a'], o['b'], o['r']]
    if k == 'rc':
        return ['rc', o['L']]
    if k == 'ftrc':
        return ['ftrc', abs(o['i']), o['L']]
    if k == 'sharelocs':
        return ['sharelocs', abs(o['i']), abs(o['j'])]
    if k == 'qslice':
        return ['qslice', o['a'], o['b'], o['r'], o['L']]
    if k == 'qcmp':
        return ['qcmp', abs(o['i']), abs(o['j'])]
    if k == 'sort':
        return ['sort', bool(o['rev'])]
    return ['setlocs', abs(o['i']), [list(_t(r)) for r in o['locs']]]


def _norm(c):
    """stored dict form -> internal list form used by driver, term printer and oracle.
    A feature with 'share': j (j an earlier index) is built from fts[j].locs -- the same Location objects -- so its
    locations are those of feature j whatever its own 'locs' entry says."""
    d = {'_k': c['_k']}
    if 'fts' in c:
        fs = []
        for i, f in enumerate(c['fts']):
            sh = f.get('share')
            if isinstance(sh, bool) or not isinstance(sh, int) or not (0 <= sh < i):
                sh = None
            locs = [list(r) for r in fs[sh]['locs']] if sh is not None else [list(_t(r)) for r in f['locs']]
            fs.append({'locs': locs, 'm': f['m'], 'kw': f.get('kw', False), 'share': sh})
        d['fts'] = fs
    if 'ops' in c:
        d['ops'] = [_uop(o) for o in c['ops']]
    if 'L' in c:
        d['L'] = c['L']
    if 'v' in c:
        d['v'] = abs(c['v'])
    for k in ('t', 'u'):
        if k in c:
            d[k] = [list(_t(r)) for r in c[k]]
    for k in PLAIN_KEYS:
        if k in c:
            d[k] = c[k]
    return d


def coq_z(n):
    """integer literal inside a term that is wrapped in (...)%Z as a whole (keeps the case files short)"""
    return str(n) if n >= 0 else '(%d)' % n


def _raw(r):
    a, b, s, d, m = r
    return '(%s, %s, x%02x, %s, %s)' % (coq_z(a), coq_z(b), ord(s), coq_N(max(d, 0)), coq_z(m))


def _raws(rs):
    return coq_list([_raw(r) for r in rs])


def _fts(fs):
    return coq_list(['(%s, %s)' % (_raws(f['locs']), coq_z(f['m'])) for f in fs])


def _op(o):
    k = o[0]
    if k == 'slice':
        return '(OSlice %s %s %s)' % (coq_opt(o[1], coq_z), coq_opt(o[2], coq_z), coq_z(o[3]))
    if k == 'rc':
        return '(ORc %s)' % coq_z(o[1])
    if k == 'ftrc':
        return '(OFtRc %s %s)' % (coq_nat(o[1]), coq_z(o[2]))
    if k == 'setlocs':
        return '(OSetLocs %s %s)' % (coq_nat(o[1]), _raws(o[2]))
    if k == 'sharelocs':
        return '(OShareLocs %s %s)' % (coq_nat(o[1]), coq_nat(o[2]))
    if k == 'qslice':
        return '(OQSlice %s %s %s %s)' % (coq_opt(o[1], coq_z), coq_opt(o[2], coq_z), coq_z(o[3]), coq_opt(o[4], coq_z))
    if k == 'qcmp':
        return '(OQCmp %s %s)' % (coq_nat(o[1]), coq_nat(o[2]))
    if k == 'sort':
        return '(OSort %s)' % ('true' if o[1] else 'false')
    raise ValueError(o)


def _coord(kind, z):
    if kind == 'i':
        return '(KInt %s)' % coq_z(z)
    if kind == 'b':
        return '(KBool %s)' % ('true' if z else 'false')
    if kind == 'n':
        return '(KNp %s)' % coq_z(z)
    if kind == 'h':
        return '(KHalf %s)' % coq_z(z)
    return 'KNone'


def model_term(case):
    case = _norm(case)
    k = case['_k']
    if k == 'h':
        return 'out (run_C08 %s %s)%%Z' % (_fts(case['fts']), coq_list([_op(o) for o in case['ops']]))
    if k == 'rr':
        return 'out (run_C08_rcrc %s %s)%%Z' % (_fts(case['fts']), coq_z(case['L']))
    if k == 'api':
        return 'out (run_C08_api %s %s)%%Z' % (coq_N(case['v']), _raws(case['t']))
    if k == 'law':
        oz = lambda v: coq_opt(v, coq_z)
        return 'out (run_C08_law %s %s %s %s %s %s %s %s %s)%%Z' % (
            _fts(case['fts']), oz(case['s1']), oz(case['e1']), coq_z(case['r1']), oz(case['s2']), oz(case['e2']), coq_z(case['r2']),
            coq_z(case['L']), coq_z(case['Lp']))
    if k == 'ops':
        return 'out (run_C08_ops %s %s %s %s)%%Z' % (coq_N(abs(case['kx'])), coq_N(abs(case['ky'])), _raws(case['t']), _raws(case['u']))
    if k == 'args':
        return 'out (run_C08_args %s %s)%%Z' % (_coord(case['ka'], case['za']), _coord(case['kb'], case['zb']))
    return 'out (run_C08_cmp %s %s)%%Z' % (_raws(case['t']), _raws(case['u']))


def split_model(case, m):
    return bool(m[0]), m[1]


def agree(case, implval, modelval):
    """equality, except that for operand-kind cases an ANSWER between LocationTuple / Feature operands where the modelled code
    raises TypeError is not a disagreement by itself (an API extension; the oracle still demands that the answer is the
    comparison of the covered ranges). A refusal where the model answers, and any answer for a foreign operand, is one."""
    if case.get('_k') == 'ops' and isinstance(implval, list) and isinstance(modelval, list) and len(implval) == len(modelval) \
            and abs(case['kx']) <= 4 and abs(case['ky']) <= 4:
        return all(g == m or (m == 'TypeError' and isinstance(g, bool)) for g, m in zip(implval, modelval))
    return implval == modelval


# ----------------------------------------------------------------------------- implementation driver
class MetadataNotPreserved(Exception):
    """the metadata of a feature / location is not what was attached to it (keys with value None count)"""


class EqualityDiffers(Exception):
    """two feature lists that render identically (coordinates, strands, defects, tags) are not == """


class SortInconsistentWithComparison(Exception):
    """FeatureList.sort() / sorted() disagree with each other or with LocationTuple <, <=, >, >= on neighbours"""


class SeqSliceDiffers(Exception):
    """seq.sl(update_fts=True)[minus-strand Location].fts != fts.slice(a, b, rel=a).rc(b - a)"""


def _loc_meta(m):
    """metadata attached to a location with tag m: odd tags also carry a key explicitly set to None after construction"""
    d = {'tag': m} if m else {}
    if m % 2 == 1:
        d['phase'] = None
    return d


def _ft_meta(fm, typ='gene'):
    d = {'tag': fm}
    if typ is not None:
        d['type'] = typ
    if fm % 2 == 1:
        d['name'] = None
    if fm % 3 == 0:
        d['x'] = None
    return d


def _mkloc(r):
    from sugar.core.fts import Location
    a, b, s, d, m = r
    if d == 0 and m == 0 and s == '+' and (a + b) % 2 == 0:
        return Location(a, b)                      # defaults
    loc = Location(a, b, s, d, meta=({'tag': m} if m else None))
    if m % 2 == 1:
        loc.meta.phase = None                      # assigned after construction
    return loc


def _ft_none(ft, fm):
    if fm % 2 == 1:
        ft.name = None                             # attribute access
    if fm % 3 == 0:
        ft.meta['x'] = None                        # item access
    return ft


def _mkft(f):
    from sugar.core.fts import Feature
    locs = f['locs']
    if f.get('kw') and len(locs) == 1 and locs[0][3] == 0 and locs[0][4] == 0:
        a, b, s = locs[0][:3]
        return _ft_none(Feature('gene', start=a, stop=b, strand=s, meta={'tag': f['m']}), f['m'])
    return _ft_none(Feature('gene', locs=[_mkloc(r) for r in locs], meta={'tag': f['m']}), f['m'])


def _vloc(l):
    from sugar.core.fts import Strand, Defect
    assert isinstance(l.strand, Strand) and isinstance(l.defect, Defect)
    m = l.meta.get('tag', 0)
    _need(isinstance(m, int) and dict(l.meta) == _loc_meta(m), MetadataNotPreserved,
          'location %r: metadata %r, expected %r' % (l, dict(l.meta), _loc_meta(m) if isinstance(m, int) else None))
    return [l.start, l.stop, str(l.strand.value), int(l.defect), m]


def _vft(ft):
    from sugar.core.fts import LocationTuple
    assert ft.type == 'gene' and isinstance(ft.locs, LocationTuple)
    assert ft.loc is ft.locs[0]
    lr = ft.locs.range
    assert len(ft) == lr[1] - lr[0]
    fm = ft.meta.get('tag')
    _need(isinstance(fm, int) and dict(ft.meta) == _ft_meta(fm), MetadataNotPreserved,
          'feature metadata %r, expected %r' % (dict(ft.meta), _ft_meta(fm) if isinstance(fm, int) else None))
    return [[_vloc(l) for l in ft.locs], fm]


class RetainedLocationTupleChanged(Exception):
    """a LocationTuple obtained earlier (ft.locs) no longer shows the locations it had when it was obtained"""


class OperandChanged(Exception):
    """a not-in-place operation (slice), or an in-place operation on its RESULT, changed the operand"""


class RepeatedCallDiffers(Exception):
    """the same call on the same unchanged object gave a different answer the second time"""


def _need(cond, exc, msg):
    if not cond:
        raise exc(msg)


def _vcmp(t, u):
    assert t.overlaps(u) == u.overlaps(t)
    return [t < u, t <= u, t > u, t >= u, t.overlaps(u), t.range[0], t.range[1], u.range[0], u.range[1]]


def _build(case):
    from sugar.core.fts import Feature, FeatureList
    objs = []
    for f in case['fts']:
        if f.get('share') is not None:
            # the usual way to derive one feature from another: the LocationTuple (and its Location objects) is shared
            objs.append(_ft_none(Feature('gene', locs=objs[f['share']].locs, meta={'tag': f['m']}), f['m']))
        else:
            objs.append(_mkft(f))
    return FeatureList(objs)


def _exc_name(f):
    try:
        f()
    except Exception as e:
        return type(e).__name__
    return 'no exception'


def _impl_api(v, raws):
    """argument checking of the constructors and of the comparisons"""
    from sugar.core.fts import Feature, LocationTuple
    if v == 0:
        return [_vloc(l) for l in LocationTuple([_mkloc(r) for r in raws], start=1, stop=2)]
    if v == 1:
        return [_vloc(l) for l in LocationTuple()]
    if v == 2:
        return [_vloc(l) for l in LocationTuple([(r[0], r[1], r[2], r[3]) for r in raws])]
    if v == 3:
        t = LocationTuple([_mkloc(r) for r in raws])
        ft = Feature('gene', locs=t)
        # Feature.__lt__: delegates to the LocationTuple, compares seqids first when they differ, rejects other types
        assert (ft < t) is False and _exc_name(lambda: ft < 5) == 'TypeError'
        fa, fb = Feature('gene', locs=t, meta={'seqid': 'a'}), Feature('gene', locs=t, meta={'seqid': 'b'})
        assert (fa < fb) is True and (fb < fa) is False and (fa < Feature('gene', locs=t, meta={'seqid': 'a'})) is False
        return [_exc_name(lambda: t < 5), _exc_name(lambda: t <= 'x'), _exc_name(lambda: t > None), _exc_name(lambda: t >= (1, 2)),
                _exc_name(lambda: t.overlaps((0, 1))), _exc_name(lambda: ft.overlaps(5)), ft.overlaps(Feature(locs=t)), ft.overlaps(t)]
    ft = Feature(locs=[_mkloc(r) for r in raws])
    assert ft.type is None and len(ft.meta) == 0 and ft == Feature(locs=[_mkloc(r) for r in raws])
    return [_vloc(l) for l in ft.locs]


class CompositionLawBroken(Exception):
    """slice after slice is not the single slice with the intersected window and the summed shift, or (stranded features)
    slice-then-rc differs from rc-then-slice with the mirrored window"""


class ComparisonNotBool(Exception):
    """a comparison operator / overlaps() answered with something that is neither True nor False"""


class TypedCoordsDiffer(Exception):
    """integer-valued coordinates given as bool / numpy integer / float behave differently from the same integers"""


def _impl_law(case):
    """four routes on freshly built lists (rc works in place): slice twice | one slice | slice, rc(L') | rc(L), slice"""
    import sys
    s1, e1, r1, s2, e2, r2, L, Lp = (case[k] for k in ('s1', 'e1', 'r1', 's2', 'e2', 'r2', 'L', 'Lp'))
    a1 = -sys.maxsize if s1 is None else s1
    b1 = sys.maxsize if e1 is None else e1
    a2 = -sys.maxsize if s2 is None else s2
    b2 = sys.maxsize if e2 is None else e2
    fts = _build(case)
    before = [_vft(f) for f in fts]
    q1 = fts.slice(s1, e1, rel=r1)
    v2 = [_vft(f) for f in q1.slice(s2, e2, rel=r2)]
    v3 = [_vft(f) for f in fts.slice(max(a1, a2 + r1), min(b1, b2 + r1), rel=r1 + r2)]
    v4 = [_vft(f) for f in fts.slice(s1, e1, rel=r1).rc(seqlen=Lp)]
    _need([_vft(f) for f in fts] == before, OperandChanged, 'slice changed its operand')
    v5 = [_vft(f) for f in _build(case).rc(seqlen=L).slice(L - b1, L - a1, rel=L - Lp - r1)]
    _need(v2 == v3, CompositionLawBroken, 'slice(%r,%r,%r).slice(%r,%r,%r) = %r but the single slice gives %r' % (s1, e1, r1, s2, e2, r2, v2, v3))
    if all(f[0][0][2] in '+-' for f in before):
        _need(v4 == v5, CompositionLawBroken, 'slice.rc = %r but rc.slice = %r' % (v4, v5))
    return [v2, v3, v4, v5]


OPERAND_KINDS = 12      # 0 LocationTuple, 1-4 Feature (no seqid, 'a', 'B', 'ab'), 5 Location, 6 plain tuple, 7.. unrelated values


def _operand(kind, t):
    from sugar.core.fts import Feature, Location
    if kind == 0:
        return t
    if kind in (1, 2, 3, 4):
        sid = {1: None, 2: 'a', 3: 'B', 4: 'ab'}[kind]
        return Feature('gene', locs=t, meta=({'seqid': sid} if sid is not None else None))
    if kind == 5:
        return Location(t.range[0], t.range[1])
    if kind == 6:
        return tuple(t)
    return [5, 'x', None, [1, 2], 2.5][(kind - 7) % 5]


def _impl_ops(case):
    """every operator between two operands of the given kinds: True / False / name of the exception class"""
    import operator
    from sugar.core.fts import LocationTuple
    t = LocationTuple([_mkloc(r) for r in case['t']])
    u = LocationTuple([_mkloc(r) for r in case['u']])
    x, y = _operand(case['kx'], t), _operand(case['ky'], u)

    def obs(f):
        try:
            r = f()
        except Exception as e:
            return type(e).__name__
        _need(r is True or r is False, ComparisonNotBool, repr(r))
        return r

    def allobs():
        return [obs(lambda: x < y), obs(lambda: x <= y), obs(lambda: x > y), obs(lambda: x >= y),
                obs(lambda: x.overlaps(y)) if hasattr(x, 'overlaps') else None,
                obs(lambda: y.overlaps(x)) if hasattr(y, 'overlaps') else None]
    out = allobs()
    _need(allobs() == out, RepeatedCallDiffers, 'comparison')
    return out


def _typed(kind, z):
    if kind == 'i':
        return int(z)
    if kind == 'b':
        return bool(z)
    if kind == 'n':
        import numpy
        return numpy.int64(z)
    if kind == 'h':
        return z / 2
    return None


def _twice(v):
    from fractions import Fraction
    w = Fraction(v) * 2 if not hasattr(v, 'item') else Fraction(v.item()) * 2
    assert w.denominator == 1
    return int(w)


def _impl_args(case):
    """Location(start, stop) with typed coordinates; integer-valued ones must then behave like the integers"""
    from sugar.core.fts import Feature, FeatureList, Location
    a, b = _typed(case['ka'], case['za']), _typed(case['kb'], case['zb'])
    loc = Location(a, b)
    out = [_twice(loc.start), _twice(loc.stop)]
    if case['ka'] in 'ibn' and case['kb'] in 'ibn' and case.get('w'):      # integers proper (float coordinates: constructor only)
        x, y, r, L = case['w']
        ia, ib = out[0] // 2, out[1] // 2
        for s in '+-.':
            def run(p, q):
                ft = Feature('gene', locs=[Location(p, q, s, 5), Location(p + 1, q + 2, s)])
                fl = FeatureList([ft, Feature('cds', start=p, stop=q, strand=s)])
                sl = fl.slice(x, y, rel=r)
                v = [[[_twice(l.start), _twice(l.stop), str(l.strand), int(l.defect)] for l in f.locs] for f in sl]
                fl.rc(seqlen=L)
                v.append([[[_twice(l.start), _twice(l.stop), str(l.strand), int(l.defect)] for l in f.locs] for f in fl])
                lr = fl.loc_range
                v.append([_twice(lr[0]), _twice(lr[1]), _twice(len(fl[0])), fl[0].locs < fl[1].locs, fl[0].locs >= fl[1].locs,
                          fl[0].overlaps(fl[1]), _twice(fl[0].locs.range[0])])
                return v
            got, exp = run(a, b), run(ia, ib)
            _need(got == exp, TypedCoordsDiffer, '%r, %r strand %s: %r, with ints %r' % (a, b, s, got, exp))
    return out


def impl(case):
    import sys
    from sugar.core.fts import FeatureList, LocationTuple
    assert sys.maxsize == 2 ** 63 - 1
    case = _norm(case)
    k = case['_k']
    if k == 'law':
        return _impl_law(case)
    if k == 'ops':
        return _impl_ops(case)
    if k == 'args':
        return _impl_args(case)
    if k == 'cmp':
        t = LocationTuple([_mkloc(r) for r in case['t']])
        u = LocationTuple([_mkloc(r) for r in case['u']])
        v = _vcmp(t, u)
        _need(_vcmp(t, u) == v, RepeatedCallDiffers, 'comparison')
        return v
    if k == 'api':
        return _impl_api(case['v'], case['t'])
    fts = _build(case)
    if k == 'rr':
        st = [_vft(f) for f in fts]
        r = fts.rc(seqlen=case['L'])
        assert r is fts
        st1 = [_vft(f) for f in fts]
        fts.rc(seqlen=case['L'])
        st2 = [_vft(f) for f in fts]
        fresh = _build(case)
        _need(fresh == _build(case), EqualityDiffers, 'two builds of the same case')
        if st2 == st:
            _need(fts == fresh and all(a.locs == b.locs and a.meta == b.meta for a, b in zip(fts, fresh)), EqualityDiffers,
                  'rc(L).rc(L) renders like the original but is not == to it')
        return [st, st1, st2]
    # history: every LocationTuple ever handed out is a value and must keep its rendering; the state is recorded after
    # each operation; queries are repeated and must not depend on what happened to earlier results
    held, log = [], []

    def state():
        return [_vft(f) for f in fts]

    def hold():
        for ft in fts:
            held.append((ft.locs, [_vloc(l) for l in ft.locs]))

    def do_slice(o):
        return fts.slice(o[1], o[2], rel=o[3]) if (o[3] or o[1] is None) else fts.slice(o[1], o[2])
    hold()
    for o in case['ops']:
        if o[0] == 'slice':
            before = state()
            r = do_slice(o)
            assert isinstance(r, FeatureList) and r is not fts
            _need(state() == before, OperandChanged, 'slice changed its operand')
            _need([_vft(f) for f in do_slice(o)] == [_vft(f) for f in r], RepeatedCallDiffers, 'slice')
            fts = r
        elif o[0] == 'rc':
            r = fts.rc(seqlen=o[1]) if o[1] else fts.rc()
            assert r is fts
        elif o[0] == 'ftrc':
            if o[1] < len(fts):
                r = fts[o[1]].rc(seqlen=o[2])
                assert r is fts[o[1]]
        elif o[0] == 'setlocs':
            locs = [_mkloc(r) for r in o[2]]
            if o[1] < len(fts):
                fts[o[1]].locs = locs
        elif o[0] == 'sharelocs':
            if o[1] < len(fts) and o[2] < len(fts):
                fts[o[1]].locs = fts[o[2]].locs
        elif o[0] == 'qslice':
            before = state()
            q = do_slice(o)
            v = [_vft(f) for f in q]
            if o[4] is not None:
                q.rc(seqlen=o[4])                  # mutate the RESULT in place
                v = [v, [_vft(f) for f in q]]
            if o[4] is None and v == before:
                _need(q == fts and fts == q, EqualityDiffers, 'slice result renders like the operand but is not == to it')
            if (o[4] is not None and o[1] is not None and o[2] is not None and 0 <= o[1] < o[2] <= 400
                    and o[3] == o[1] and o[4] == o[2] - o[1]):
                # the same thing through BioSeq: cut out the window on the minus strand with update_fts
                from sugar import BioSeq
                from sugar.core.fts import Location
                seq = BioSeq('A' * o[2])
                seq.fts = fts
                sub = seq.sl(update_fts=True)[Location(o[1], o[2], '-')]
                _need(len(sub) == o[2] - o[1] and [_vft(f) for f in sub.fts] == v[1], SeqSliceDiffers,
                      '%r vs %r' % ([_vft(f) for f in sub.fts], v[1]))
            _need(state() == before, OperandChanged, 'operand changed through the result of slice')
            _need([_vft(f) for f in do_slice(o)] == (v[0] if o[4] is not None else v), RepeatedCallDiffers, 'slice')
            log.append(v)
            continue
        elif o[0] == 'sort':
            ids = [id(f) for f in (sorted(fts, reverse=True) if o[1] else sorted(fts))]
            r = fts.sort(reverse=True) if o[1] else fts.sort()
            _need(r is fts and [id(f) for f in fts] == ids, SortInconsistentWithComparison, 'sort() vs sorted()')
            for x, y in zip(fts, fts[1:]):
                if o[1]:
                    x, y = y, x
                _need(x.locs <= y.locs and y.locs >= x.locs and not (y.locs < x.locs) and not (x.locs > y.locs) and not (y < x),
                      SortInconsistentWithComparison, '%r before %r' % (x.locs.range, y.locs.range))
        elif o[0] == 'qcmp':
            if o[1] < len(fts) and o[2] < len(fts):
                v = _vcmp(fts[o[1]].locs, fts[o[2]].locs)
                _need(_vcmp(fts[o[1]].locs, fts[o[2]].locs) == v, RepeatedCallDiffers, 'comparison')
                assert fts[o[1]].overlaps(fts[o[2]]) == v[4] and fts[o[1]].overlaps(fts[o[2]].locs) == v[4]
                log.append(v)
            else:
                log.append(None)
            continue
        log.append(state())
        hold()
    for t, r in held:
        _need([_vloc(l) for l in t] == r, RetainedLocationTupleChanged, '%r was %r' % (t, r))
    lr = fts.loc_range
    _need(fts.loc_range == lr, RepeatedCallDiffers, 'loc_range')
    return [log, state(), lr[0], lr[1]]


# ----------------------------------------------------------------------------- property oracle (first principles)
INF = float('inf')
PAIRS = [('MISS_LEFT', 'MISS_RIGHT'), ('BEYOND_LEFT', 'BEYOND_RIGHT'), ('UNKNOWN_LEFT', 'UNKNOWN_RIGHT')]


def _flag(name):
    from sugar.core.fts import Defect
    return int(getattr(Defect, name))


def _mirror_defect(d):
    out = d
    for l, r in PAIRS:
        fl, fr = _flag(l), _flag(r)
        out &= ~(fl | fr)
        if d & fl:
            out |= fr
        if d & fr:
            out |= fl
    return out


def _valid_each(rs):
    return all(r[0] < r[1] and r[2] in list(STRANDS) for r in rs)


def _valid_locs(rs):
    return len(rs) > 0 and _valid_each(rs) and len(set(r[2] for r in rs)) == 1


def _ordered(locs):
    """non-empty, one strand, 5'->3'"""
    if len(locs) == 0 or len(set(l[2] for l in locs)) != 1 or any(not l[0] < l[1] for l in locs):
        return False
    if locs[0][2] == '-':
        return all(locs[i][1] >= locs[i + 1][1] for i in range(len(locs) - 1))
    return all(locs[i][0] <= locs[i + 1][0] for i in range(len(locs) - 1))


def _same_state(got, exp, exact=False):
    """got: [[locs, fm], ...] from sugar; exp: same shape from the oracle. Locations compared as multisets unless exact."""
    if len(got) != len(exp):
        return 'expected %d features, got %d' % (len(exp), len(got))
    for g, e in zip(got, exp):
        if g[1] != e[1]:
            return 'feature metadata/order differs: %r vs %r' % (g[1], e[1])
        if not _ordered(g[0]):
            return 'locations not non-empty/single-stranded/ordered: %r' % (g[0],)
        if (g[0] != e[0]) if exact else (sorted(g[0]) != sorted(e[0])):
            return 'locations %r, expected %r' % (g[0], e[0])
    return None


def _o_slice(st, a, b, rel):
    a = -INF if a is None else a
    b = INF if b is None else b
    nst = []
    for locs, fm in st:
        kept = []
        for x, y, s, d, m in locs:
            lo, hi = max(a, x), min(b, y)
            if lo < hi:                      # the part of [x,y) inside [a,b) is [lo,hi)
                nd = d | (_flag('MISS_LEFT') if x < lo else 0) | (_flag('MISS_RIGHT') if hi < y else 0)
                kept.append([lo - rel, hi - rel, s, nd, m])
        if kept:
            nst.append([kept, fm])
    return nst


def _o_mirror(locs, L):
    return [[L - y, L - x, {'+': '-', '-': '+'}.get(s, s), _mirror_defect(d), m] for x, y, s, d, m in locs]


def _o_cmp(t, u):
    p = (min(r[0] for r in t), max(r[1] for r in t))
    q = (min(r[0] for r in u), max(r[1] for r in u))
    return [p < q, p <= q, p > q, p >= q, max(p[0], q[0]) < min(p[1], q[1]), p[0], p[1], q[0], q[1]]


def _spec_hist(case, got):
    st = []
    for f in case['fts']:
        if not _valid_locs(f['locs']):
            return None if got == {'e': 'ValueError'} else 'invalid construction accepted: %r' % (got,)
        st.append([[list(r) for r in f['locs']], f['m']])
    log = []                                  # ('state', st) | ('states', [st, st]) | ('val', v)
    for o in case['ops']:
        if o[0] == 'slice':
            st = _o_slice(st, o[1], o[2], o[3])
        elif o[0] in ('rc', 'ftrc'):
            st = [[_o_mirror(locs, o[-1]), fm] if (o[0] == 'rc' or i == o[1]) else [locs, fm] for i, (locs, fm) in enumerate(st)]
        elif o[0] == 'setlocs':
            if not _valid_each(o[2]) or (o[1] < len(st) and not _valid_locs(o[2])):
                return None if got == {'e': 'ValueError'} else 'invalid locs accepted: %r' % (got,)
            if o[1] < len(st):
                st = [[[list(r) for r in o[2]], fm] if i == o[1] else [locs, fm] for i, (locs, fm) in enumerate(st)]
        elif o[0] == 'sharelocs':
            if o[1] < len(st) and o[2] < len(st):
                st = [[[list(r) for r in st[o[2]][0]], fm] if i == o[1] else [locs, fm] for i, (locs, fm) in enumerate(st)]
        elif o[0] == 'sort':
            # order of (range start, range stop), ties in their previous order
            st = sorted(st, key=lambda f: (min(l[0] for l in f[0]), max(l[1] for l in f[0])), reverse=o[1])
        elif o[0] == 'qslice':
            q = _o_slice(st, o[1], o[2], o[3])
            log.append(('state', q) if o[4] is None else ('states', [q, [[_o_mirror(locs, o[4]), fm] for locs, fm in q]]))
            continue
        elif o[0] == 'qcmp':
            log.append(('val', _o_cmp(st[o[1]][0], st[o[2]][0]) if o[1] < len(st) and o[2] < len(st) else None))
            continue
        log.append(('state', st))
    if isinstance(got, dict):
        return 'raised %s' % got['e']
    if len(got[0]) != len(log):
        return 'log length %d, expected %d' % (len(got[0]), len(log))
    for n, (g, (kind, e)) in enumerate(zip(got[0], log)):
        if kind == 'val':
            w = None if g == e else 'got %r expected %r' % (g, e)
        elif kind == 'state':
            w = _same_state(g, e)
        else:
            w = _same_state(g[0], e[0]) or _same_state(g[1], e[1])
        if w:
            return 'step %d (%s): %s' % (n, case['ops'][n][0], w)
    w = _same_state(got[1], st)
    if w:
        return w
    alll = [l for locs, _ in st for l in locs]
    if alll and (got[2], got[3]) != (min(l[0] for l in alll), max(l[1] for l in alll)):
        return 'loc_range %r' % (got[2:],)
    return None


def _spec_law(case, got):
    import sys
    if not all(_valid_locs(f['locs']) for f in case['fts']):
        return None if got == {'e': 'ValueError'} else 'invalid construction accepted'
    if isinstance(got, dict):
        return 'raised %s' % got['e']
    st = [[[list(r) for r in f['locs']], f['m']] for f in case['fts']]
    s1, e1, r1, s2, e2, r2, L, Lp = (case[k] for k in ('s1', 'e1', 'r1', 's2', 'e2', 'r2', 'L', 'Lp'))
    once = _o_slice(st, s1, e1, r1)
    twice = _o_slice(once, s2, e2, r2)
    mir = [[_o_mirror(locs, Lp), fm] for locs, fm in once]
    for n, (g, e) in enumerate(zip(got, [twice, twice, mir, mir])):
        w = _same_state(g, e)
        if w:
            return 'route %d (%s): %s' % (n, ['slice.slice', 'single slice', 'slice.rc', 'rc.slice'][n], w)
    return None


def _spec_ops(case, got):
    if not (_valid_locs(case['t']) and _valid_locs(case['u'])):
        return None if got == {'e': 'ValueError'} else 'invalid construction accepted'
    if isinstance(got, dict):
        return 'raised %s' % got['e']
    kx, ky = case['kx'], case['ky']
    exp = _o_cmp(case['t'], case['u'])
    sid = {1: None, 2: 'a', 3: 'B', 4: 'ab'}
    by_seqid = kx in sid and ky in sid and sid[kx] != sid[ky]
    for n, name in enumerate(['<', '<=', '>', '>=']):
        g = got[n]
        if isinstance(g, str):
            if g != 'TypeError':
                return '%s raised %s' % (name, g)
            if kx == 0 and ky == 0:
                return 'LocationTuple %s LocationTuple refused' % name
            if name == '<' and kx in sid and (ky == 0 or (ky in sid and (sid[kx] == sid[ky] or None not in (sid[kx], sid[ky])))):
                return 'Feature < %s refused' % ('LocationTuple' if ky == 0 else 'Feature')
            continue
        if kx > 4 or ky > 4:
            return '%s answered %r for an operand that is neither LocationTuple nor Feature' % (name, g)
        if by_seqid and None in (sid[kx], sid[ky]):
            continue                      # features with and without seqid: the property is silent (sugar raises TypeError today)
        want = ((sid[kx] < sid[ky]) if name == '<' else (sid[kx] > sid[ky])) if by_seqid and name in '<>' else exp[n]
        if g != want:
            return '%s answered %r, covered ranges %r vs %r' % (name, g, exp[5:7], exp[7:9])
    for n, (a, b) in ((4, (kx, ky)), (5, (ky, kx))):
        g = got[n]
        if g is None:
            if a <= 4:
                return 'no overlaps() on a LocationTuple / Feature'
            continue
        if isinstance(g, str):
            if g != 'TypeError':
                return 'overlaps raised %s' % g
            if b <= 4 and not (a == 0 and b != 0):
                return 'overlaps refused'
            continue
        if a > 4 or b > 4:
            return 'overlaps answered %r for a foreign operand' % (g,)
        if g != exp[4]:
            return 'overlaps answered %r, covered ranges %r vs %r' % (g, exp[5:7], exp[7:9])
    return None


def _spec_args(case, got):
    from fractions import Fraction
    val = lambda k, z: None if k == 'N' else Fraction(z, 2) if k == 'h' else Fraction(1 if z else 0) if k == 'b' else Fraction(z)
    a, b = val(case['ka'], case['za']), val(case['kb'], case['zb'])
    if a is None or b is None:
        return None if got == {'e': 'TypeError'} else 'expected TypeError, got %r' % (got,)
    if a >= b:
        return None if got == {'e': 'ValueError'} else 'start >= stop accepted: %r' % (got,)
    if isinstance(got, dict):
        return 'raised %s' % got['e']
    return None if got == [2 * a, 2 * b] else 'stored %r/2, %r/2 for %r, %r' % (got[0], got[1], a, b)


def spec(case, got):
    case = _norm(case)
    k = case['_k']
    if k == 'h':
        return _spec_hist(case, got)
    if k == 'law':
        return _spec_law(case, got)
    if k == 'ops':
        return _spec_ops(case, got)
    if k == 'args':
        return _spec_args(case, got)
    if k == 'rr':
        if not all(_valid_locs(f['locs']) for f in case['fts']):
            return None if got == {'e': 'ValueError'} else 'invalid construction accepted'
        if isinstance(got, dict):
            return 'raised %s' % got['e']
        L = case['L']
        st0 = [[[list(r) for r in f['locs']], f['m']] for f in case['fts']]
        w = _same_state(got[0], st0)
        if w:
            return 'constructor: ' + w
        st1 = [[[[L - y, L - x, {'+': '-', '-': '+'}.get(s, s), _mirror_defect(d), m] for x, y, s, d, m in locs], fm] for locs, fm in got[0]]
        w = _same_state(got[1], st1, exact=all(f[0][0][2] in '+-' for f in got[0]))
        if w:
            return 'rc: ' + w
        if got[2] != got[0]:
            return 'rc(rc(x)) = %r != x = %r' % (got[2], got[0])
        return None
    if k == 'api':
        v, t = case['v'], case['t']
        if v in (0, 1):
            return None if got == {'e': 'ValueError'} else 'expected ValueError, got %r' % (got,)
        if v == 2 and t and not _valid_each(t):
            return None if got == {'e': 'TypeError'} else 'expected TypeError, got %r' % (got,)
        if not _valid_locs(t):
            return None if got == {'e': 'ValueError'} else 'invalid construction accepted'
        if isinstance(got, dict):
            return 'raised %s' % got['e']
        if v == 3:
            return None if got == ['TypeError'] * 6 + [True, True] else 'got %r' % (got,)
        exp = [r[:4] + [0] for r in t] if v == 2 else t
        if not _ordered(got) or sorted(got) != sorted(exp):
            return 'locations %r expected %r' % (got, exp)
        return None
    # cmp
    if not (_valid_locs(case['t']) and _valid_locs(case['u'])):
        return None if got == {'e': 'ValueError'} else 'invalid construction accepted'
    if isinstance(got, dict):
        return 'raised %s' % got['e']
    p = (min(r[0] for r in case['t']), max(r[1] for r in case['t']))
    q = (min(r[0] for r in case['u']), max(r[1] for r in case['u']))
    exp = [p < q, p <= q, p > q, p >= q, max(p[0], q[0]) < min(p[1], q[1]), p[0], p[1], q[0], q[1]]
    if got != exp:
        return 'cmp %r expected %r' % (got, exp)
    if [got[0], p == q, got[2]].count(True) != 1:
        return 'trichotomy'
    return None


# ----------------------------------------------------------------------------- markers
def _marks(case):
    case = _norm(case)
    k = case['_k']
    ms = set()
    if k == 'api':
        return {'api%d' % case['v']}
    if k == 'ops':
        return {'ops', 'kinds=%d,%d' % (case['kx'], case['ky'])} | ({'multi'} if len(case['t']) > 1 or len(case['u']) > 1 else set())
    if k == 'args':
        return {'args', 'kinds=%s%s' % (case['ka'], case['kb'])}
    if k == 'cmp':
        ms.add('cmp')
        if len(case['t']) > 1 or len(case['u']) > 1:
            ms.add('multi')
        return ms
    for f in case['fts']:
        if len(f['locs']) > 1:
            ms.add('multi')
            if len(set(r[0] for r in f['locs'])) < len(f['locs']):
                ms.add('tie')
        for r in f['locs']:
            if r[2] == '-':
                ms.add('minus')
            elif r[2] in '.?':
                ms.add('nostrand')
            if r[3]:
                ms.add('defect')
        if not _valid_locs(f['locs']):
            ms.add('invalid')
        if f.get('share') is not None:
            ms.add('share')
    if k == 'rr':
        ms.add('rr')
        return ms
    if k == 'law':
        ms.add('law')
        if None in (case['s1'], case['e1'], case['s2'], case['e2']):
            ms.add('open')
        if case['r1'] or case['r2']:
            ms.add('rel')
        return ms
    for o in case['ops']:
        ms.add(o[0])
        if o[0] == 'qslice' and o[4] is not None:
            ms.add('mutate_result')
        if o[0] in ('slice', 'qslice'):
            if o[1] is None or o[2] is None:
                ms.add('open')
            if o[3]:
                ms.add('rel')
            for f in case['fts']:
                for r in f['locs']:
                    if o[1] is not None and (o[1] == r[0] or o[1] == r[1]) or o[2] is not None and (o[2] == r[0] or o[2] == r[1]):
                        ms.add('edge')
                    if o[1] is not None and r[0] < o[1] < r[1]:
                        ms.add('cutL')
                    if o[2] is not None and r[0] < o[2] < r[1]:
                        ms.add('cutR')
                    if o[2] is not None and r[0] >= o[2] or o[1] is not None and r[1] <= o[1]:
                        ms.add('drop')
    return ms


def nontrivial(case, got):
    ms = _marks(case)
    return ','.join(sorted(ms)) if ms else None


def histkey(case, got):
    case = _norm(case)
    ks = ['kind=' + case['_k']]
    if case['_k'] in ('cmp', 'api', 'ops', 'args'):
        if case['_k'] == 'ops' and not isinstance(got, dict):
            ks.append('answers=%d' % sum(1 for g in got if isinstance(g, bool)))
        return ks + ['result=' + ('error' if isinstance(got, dict) else 'ok')]
    nl = sum(len(f['locs']) for f in case['fts'])
    ks.append('nlocs=' + ('0' if nl == 0 else '1' if nl == 1 else '2' if nl == 2 else '3+'))
    big = any(abs(r[0]) > 1000 for f in case['fts'] for r in f['locs'])
    ks.append('coords=' + ('large' if big else 'small'))
    for m in sorted(_marks(_pack(case))):
        ks.append('mark=' + m)
    ks.append('result=' + ('error' if isinstance(got, dict) else 'ok'))
    return ks


def _tie_region(locs):
    """unstranded feature whose 5'->3' order (stable sort by start) lists two same-start locations with increasing stop:
    the complement of the Coq guard tie_ok"""
    if not _valid_locs(locs) or locs[0][2] in '+-':
        return False
    t = sorted(locs, key=lambda r: r[0])
    return any(t[i][0] == t[i + 1][0] and t[i][1] < t[i + 1][1] for i in range(len(t) - 1))


def features(case, got):
    """open finding F31 (rc_tie_order): rc applied twice to an unstranded feature with locations sharing a start, and the
    only thing wrong is the order of locations inside features"""
    c = _norm(case)
    tie = False
    if c['_k'] == 'rr' and not isinstance(got, dict) and all(_valid_locs(f['locs']) for f in c['fts']):
        if any(_tie_region(f['locs']) for f in c['fts']):
            L = c['L']
            st1 = [[[[L - y, L - x, {'+': '-', '-': '+'}.get(s, s), _mirror_defect(d), m] for x, y, s, d, m in locs], fm] for locs, fm in got[0]]
            same = lambda a, b: len(a) == len(b) and all(x[1] == y[1] and sorted(x[0]) == sorted(y[0]) for x, y in zip(a, b))
            tie = (_same_state(got[0], [[f['locs'], f['m']] for f in c['fts']]) is None and _same_state(got[1], st1) is None
                   and same(got[2], got[0]) and got[2] != got[0]
                   and all(g2[0] == g0[0] for g2, g0, f in zip(got[2], got[0], c['fts']) if not _tie_region(f['locs'])))
    return {'kind': c['_k'], 'error': isinstance(got, dict), 'tie_unstranded': tie}


def python_snippet(case):
    return ("import json, sys; sys.path.insert(0, '/verif/tools'); from props import c08; "
            "case = json.loads(%r); print(c08.impl(case))" % json.dumps(case))


# ----------------------------------------------------------------------------- generators
def _intervals(n):
    return [(a, b) for a in range(n + 1) for b in range(a + 1, n + 1)]


def _rand_defect(rng):
    r = rng.random()
    if r < 0.04:
        return rng.choice([256, 300, 511, 2 ** 12 + 5, 2 ** 20 + 21, 2 ** 40 + 42])   # bits unknown to Defect are kept (IntFlag KEEP)
    if r < 0.35:
        return 0
    if r < 0.7:
        return rng.choice([1, 2, 3, 4, 8, 12, 16, 32, 48, 5, 10, 21, 42, 63])
    return rng.randrange(256)


def _rand_coord_gen(rng):
    mode = rng.random()
    if mode < 0.6:
        return lambda: rng.randint(-3, 12)
    if mode < 0.8:
        return lambda: rng.randint(-10 ** 6, 10 ** 6)
    base = rng.choice([2 ** 31, 2 ** 32, 2 ** 53, 2 ** 60, -2 ** 60, 2 ** 62 - 20, -2 ** 62 + 20])
    return lambda: base + rng.randint(-8, 8)


def _rand_locs(rng, coord, strand=None, n=None, valid=True):
    s = strand or rng.choice(STRANDS)
    n = n or rng.choice([1, 1, 2, 2, 3, 4])
    locs = []
    for _ in range(n):
        a = coord()
        b = a + rng.choice([1, 1, 2, 3, 5, 9])
        if rng.random() < 0.3 and locs:              # ties / overlaps
            a = rng.choice(locs)[0]
            b = max(b, a + 1)
        locs.append([a, b, s, _rand_defect(rng), rng.choice([0, 0, 1, 2, 3])])
    if not valid:
        w = rng.randrange(5)
        if w == 0:
            locs = []
        elif w == 1:
            locs[0][1] = locs[0][0]
        elif w == 2:
            locs[-1][0], locs[-1][1] = locs[-1][1], locs[-1][0]
        elif w == 3:
            locs[0][2] = rng.choice('x*fr ')
        else:
            locs.append([locs[0][0] + 1, locs[0][0] + 3, rng.choice([c for c in STRANDS if c != s]), 0, 0])
    return locs


def _rand_fts(rng, coord, valid=True):
    n = rng.choice([1, 1, 2, 3])
    bad = rng.randrange(n) if not valid else -1
    return [{'locs': _rand_locs(rng, coord, valid=(i != bad)), 'm': 10 + i, 'kw': rng.random() < 0.5} for i in range(n)]


def _rand_op(rng, coord, nfts):
    r = rng.random()
    if r < 0.55:
        a = None if rng.random() < 0.15 else coord()
        b = None if rng.random() < 0.15 else (coord() if a is None or rng.random() < 0.2 else a + rng.choice([1, 2, 3, 5, 8, 13]))
        rel = rng.choice([0, 0, 1, -2, a if a is not None else 3, coord()])
        return ['slice', a, b, rel]
    if r < 0.75:
        return ['rc', rng.choice([0, 10, coord(), 100])]
    if r < 0.84:
        return ['ftrc', rng.randrange(nfts + 1), rng.choice([0, 7, coord()])]
    if r < 0.9:
        return ['sort', rng.random() < 0.3]
    return ['setlocs', rng.randrange(nfts + 1), _rand_locs(rng, coord, valid=rng.random() < 0.85)]


def _indep_case(rng):
    """history touching the same objects several times: (a) same query twice [done by the driver for every slice],
    (b) different windows on the same list in both orders, (c) query / in-place edit / query, (d) mutation of a result,
    (e) features sharing Location objects mirrored through one holder, (f) same ranges / lengths through cmp"""
    coord = (lambda: rng.randint(0, 12)) if rng.random() < 0.85 else _rand_coord_gen(rng)
    n = rng.choice([1, 2, 2, 3])
    fts = []
    for i in range(n):
        share = rng.randrange(i) if i and rng.random() < 0.6 else None
        locs = [list(r) for r in fts[share]['locs']] if share is not None else _rand_locs(rng, coord, n=rng.choice([1, 2, 2, 3]))
        fts.append({'locs': locs, 'm': 20 + i, 'kw': False, 'share': share})
    L = rng.choice([0, 13, 20, coord()])

    def win():
        a = None if rng.random() < 0.15 else coord()
        b = None if rng.random() < 0.15 else (coord() if a is None else a + rng.choice([0, 1, 2, 4, 7]))
        return a, b, rng.choice([0, 0, 1, a if a is not None else 2])
    w1, w2 = win(), win()
    ops = []
    for _ in range(rng.choice([3, 4, 5, 6])):
        r = rng.random()
        if r < 0.2:
            ops += [['qslice', w1[0], w1[1], w1[2], None], ['qslice', w2[0], w2[1], w2[2], None], ['qslice', w1[0], w1[1], w1[2], None]]
        elif r < 0.3:
            w = win()
            ops.append(['qslice', w[0], w[1], w[2], rng.choice([L, 0, 7])])
        elif r < 0.36:
            a = rng.randint(0, 8)
            b = a + rng.choice([1, 3, 6, 12])
            ops.append(['qslice', a, b, a, b - a])        # also run as seq.sl(update_fts=True)[Location(a, b, '-')]
        elif r < 0.42:
            ops.append(['qslice', None, None, 0, None])   # identity window: result must be == operand
        elif r < 0.46:
            ops.append(['sort', rng.random() < 0.3])
        elif r < 0.5:
            ops.append(['rc', L])
        elif r < 0.65:
            ops.append(['ftrc', rng.randrange(n + 1), L])
        elif r < 0.75:
            ops.append(['sharelocs', rng.randrange(n + 1), rng.randrange(n + 1)])
        elif r < 0.85:
            ops.append(['qcmp', rng.randrange(n + 1), rng.randrange(n + 1)])
        elif r < 0.93:
            ops.append(['setlocs', rng.randrange(n + 1), _rand_locs(rng, coord)])
        else:
            w = win()
            ops.append(['slice', w[0], w[1], w[2]])
    return {'_k': 'h', 'fts': fts, 'ops': ops}


def _sort_case(rng):
    """default ordering of features vs the order of their covered ranges: multi-location features on both strands,
    nested / contained locations, equal ranges (ties keep their order), reverse=True"""
    pool = [[(0, 10), (50, 60)], [(20, 30)], [(5, 8), (40, 50)], [(5, 20)], [(1, 9), (3, 6)], [(1, 9)], [(3, 6), (1, 9)],
            [(0, 60)], [(0, 10)], [(2, 4), (6, 8), (10, 12)], [(2, 12)], [(5, 50), (5, 20)], [(50, 60), (0, 10), (20, 30)]]
    off = rng.choice([0, 0, 0, -7, 10 ** 6, 2 ** 60])
    fts = []
    for i in range(rng.choice([2, 3, 3, 4, 5])):
        ivs = list(rng.choice(pool)) if rng.random() < 0.8 else [(a, a + rng.randint(1, 9)) for a in [rng.randint(0, 12) for _ in range(rng.randint(1, 3))]]
        rng.shuffle(ivs)
        s = rng.choice('+--.?' if len(ivs) > 1 else STRANDS)
        fts.append({'locs': [[a + off, b + off, s, _rand_defect(rng) if rng.random() < 0.3 else 0, rng.choice([0, 1, 2])] for a, b in ivs],
                    'm': 30 + i, 'kw': False, 'share': None})
    ops = [['sort', rng.random() < 0.3]]
    for _ in range(rng.choice([0, 1, 2])):
        ops.append(rng.choice([['rc', 60 + off], ['sort', rng.random() < 0.5], ['qcmp', rng.randrange(len(fts)), rng.randrange(len(fts))],
                               ['ftrc', rng.randrange(len(fts)), 60 + off], ['qslice', None, None, 0, None], ['slice', 3 + off, 45 + off, off]]))
        ops.append(['sort', rng.random() < 0.3])
    return {'_k': 'h', 'fts': fts, 'ops': ops}


def _mirror_pair_case(rng):
    """lists in which one feature EQUALS the mirror image of another one (same type, same metadata, same location tags):
    the two arms of an inverted repeat on opposite strands, a '.'-strand pair placed symmetrically about L/2, and
    equal-but-distinct duplicates. FeatureList.rc must mirror every entry exactly once, whatever it is equal to."""
    L = rng.choice([10, 10, 13, 0, 20, rng.randint(-3, 30), 2 ** 40 + 6])
    base = 0 if L < 40 else L - 20
    s = rng.choice('++-.?')
    fm = rng.choice([40, 41, 42])
    n = rng.choice([1, 1, 2, 3])
    A = []
    for _ in range(n):
        a = base + rng.randint(0, 9)
        A.append([a, a + rng.randint(1, 5), s, rng.choice([0, 0, 1, 4, 6, 21]), rng.choice([0, 1, 2])])
    B = [[L - y, L - x, {'+': '-', '-': '+'}.get(st, st), _mirror_defect(d), m] for x, y, st, d, m in A]
    fts = [{'locs': A, 'm': fm, 'kw': False, 'share': None}, {'locs': B, 'm': fm, 'kw': False, 'share': None}]
    r = rng.random()
    if r < 0.3:
        fts.append({'locs': [list(x) for x in A], 'm': fm, 'kw': False, 'share': None})            # equal but distinct duplicate
    elif r < 0.5:
        fts.insert(rng.randrange(3), {'locs': _rand_locs(rng, lambda: base + rng.randint(0, 9)), 'm': fm, 'kw': False, 'share': None})
    if rng.random() < 0.3:
        rng.shuffle(fts)
    if rng.random() < 0.4:
        return {'_k': 'rr', 'fts': fts, 'L': L}
    ops = [['rc', L]]
    if rng.random() < 0.6:
        ops.append(rng.choice([['rc', L], ['ftrc', rng.randrange(len(fts)), L], ['qcmp', 0, 1], ['sort', False]]))
        ops.append(['rc', L])
    return {'_k': 'h', 'fts': fts, 'ops': ops}


def _law_case(rng):
    """one list, two windows (the second in the coordinates of the first result) and two lengths: slice.slice against the single
    slice, slice.rc(L') against rc(L).slice with the mirrored window"""
    coord = (lambda: rng.randint(-2, 14)) if rng.random() < 0.85 else _rand_coord_gen(rng)
    strands = '+-' if rng.random() < 0.6 else '+-.?'
    fts = []
    for i in range(rng.choice([1, 2, 2, 3])):
        fts.append({'locs': _rand_locs(rng, coord, strand=rng.choice(strands), n=rng.choice([1, 2, 2, 3]), valid=rng.random() < 0.97),
                    'm': 50 + i, 'kw': False, 'share': None})
    s1 = None if rng.random() < 0.12 else coord()
    e1 = None if rng.random() < 0.12 else (coord() if s1 is None or rng.random() < 0.15 else s1 + rng.choice([0, 1, 2, 4, 7, 12]))
    r1 = rng.choice([0, 0, s1 if s1 is not None else 1, 1, -2, coord()])
    s2 = None if rng.random() < 0.12 else coord() - r1
    e2 = None if rng.random() < 0.12 else (coord() - r1 if s2 is None or rng.random() < 0.15 else s2 + rng.choice([0, 1, 2, 3, 6, 10]))
    r2 = rng.choice([0, 0, s2 if s2 is not None else 2, 1, -3])
    L = rng.choice([0, 14, 20, coord()])
    Lp = rng.choice([L, e1 - s1 if None not in (s1, e1) else 9, 0, coord()])
    return {'_k': 'law', 'fts': fts, 's1': s1, 'e1': e1, 'r1': r1, 's2': s2, 'e2': e2, 'r2': r2, 'L': L, 'Lp': Lp}


def _ops_cases(rng, reps):
    """every ordered pair of operand kinds in which at least one side is a LocationTuple or a Feature"""
    out = []
    for kx, ky in itertools.product(range(OPERAND_KINDS), repeat=2):
        if kx > 4 and ky > 4:
            continue
        for _ in range(reps):
            coord = (lambda: rng.randint(0, 9)) if rng.random() < 0.9 else _rand_coord_gen(rng)
            t = _rand_locs(rng, coord, valid=rng.random() < 0.97)
            u = [list(r) for r in t] if rng.random() < 0.15 else _rand_locs(rng, coord, valid=rng.random() < 0.97)
            out.append({'_k': 'ops', 'kx': kx, 'ky': ky, 't': t, 'u': u})
    return out


def _args_cases(rng, reps):
    """Location(start, stop) with every pair of value kinds: int, bool, numpy.int64, float (also half-integral), None"""
    out = []

    def value(kind):
        if kind == 'b':
            return rng.randint(0, 1)
        if kind == 'N':
            return 0
        z = rng.choice([rng.randint(-3, 6), rng.randint(-3, 6), rng.randint(-10 ** 6, 10 ** 6), 2 ** 40 + rng.randint(-5, 5)])
        return z if kind != 'h' else rng.choice([2 * z, 2 * z, 2 * z + 1])
    for ka, kb in itertools.product('ibnhN', repeat=2):
        for _ in range(reps):
            za = value(ka)
            zb = value(kb)
            if rng.random() < 0.5 and 'N' not in (ka, kb) and 'b' not in (ka, kb):      # stop close to start: <, =, > all occur
                va = za / 2 if ka == 'h' else za
                d = rng.choice([-1, 0, 1, 1, 2, 5])
                zb = int(2 * va) + d if kb == 'h' else int(va) + d
            x = rng.randint(-4, 8)
            out.append({'_k': 'args', 'ka': ka, 'za': za, 'kb': kb, 'zb': zb,
                        'w': [x, x + rng.choice([0, 1, 3, 6]), rng.choice([0, 1, x]), rng.choice([0, 7, 20])]})
    return out


def gen_cases(rng, tier):
    cases = []
    thorough = tier == 'thorough'
    N = 5 if thorough else 3
    ivs = _intervals(N)
    bounds = [None] + list(range(N + 1))
    reps = 1
    for (i1, i2), s, a, b in itertools.product(itertools.product(ivs, ivs), STRANDS, bounds, bounds):
        if not thorough and rng.random() < 0.5:
            continue
        for _ in range(reps):
            d1, d2 = _rand_defect(rng), _rand_defect(rng)
            rel = rng.choice([0, 0, 1, 2, -1, -2])
            fts = [{'locs': [[i1[0], i1[1], s, d1, 1], [i2[0], i2[1], s, d2, 2]], 'm': 7, 'kw': False}]
            if rng.random() < 0.3:
                j = rng.choice(ivs)
                fts.insert(rng.randrange(2), {'locs': [[j[0], j[1], rng.choice(STRANDS), 0, 0]], 'm': 8, 'kw': True})
            cases.append({'_k': 'h', 'fts': fts, 'ops': [['slice', a, b, rel]]})
    # mirror box: every pair of intervals x strand x a few lengths
    for (i1, i2), s in itertools.product(itertools.product(ivs, ivs), STRANDS):
        if not thorough and rng.random() < 0.5:
            continue
        for L in ([0, N, 2 * N + 1] if thorough else [rng.choice([0, N, 7])]):
            cases.append({'_k': 'rr', 'fts': [{'locs': [[i1[0], i1[1], s, _rand_defect(rng), 1], [i2[0], i2[1], s, _rand_defect(rng), 2]],
                                              'm': 5, 'kw': False}], 'L': L})
    # all 256 defect sets through rc (one location each)
    for d in range(256):
        cases.append({'_k': 'rr', 'fts': [{'locs': [[2, 5, rng.choice(STRANDS), d, 0]], 'm': d, 'kw': False}], 'L': 9})
    # comparison box: every pair of single intervals (complete, also in the quick tier), then variants with a second location
    civs = _intervals(N + 1 if not thorough else N)
    for i1, i2 in itertools.product(civs, civs):
        cases.append({'_k': 'cmp', 't': [[i1[0], i1[1], '+', 0, 0]], 'u': [[i2[0], i2[1], rng.choice(STRANDS), 0, 0]]})
        for _ in range(2 if thorough else 1):
            s2 = rng.choice(STRANDS)
            t = [[i1[0], i1[1], '-', 0, 0]]
            u = [[i2[0], i2[1], s2, 0, 0]]
            j = rng.choice(civs)
            t.insert(rng.randrange(2), [j[0], j[1], '-', 0, 0])
            if rng.random() < 0.5:
                j = rng.choice(civs)
                u.insert(rng.randrange(2), [j[0], j[1], s2, 0, 0])
            cases.append({'_k': 'cmp', 't': t, 'u': u})
    # argument checking of constructors and comparisons
    for v in range(5):
        for _ in range(60 if thorough else 12):
            coord = _rand_coord_gen(rng)
            locs = _rand_locs(rng, coord, valid=rng.random() < 0.7)
            if v == 2:
                locs = [r[:4] + [0] for r in locs]
            cases.append({'_k': 'api', 'v': v, 't': locs})
        cases.append({'_k': 'api', 'v': v, 't': []})          # no location at all, in every constructor form
    # list-level mirroring of lists that contain mirror-image pairs / equal duplicates
    for _ in range(2000 if thorough else 250):
        cases.append(_mirror_pair_case(rng))
    # default ordering of features (FeatureList.sort / sorted) against the order of the covered ranges
    for _ in range(2500 if thorough else 300):
        cases.append(_sort_case(rng))
    # state-independence stream: shared Location objects, repeated / reordered queries, mutation of results and operands
    for _ in range(4000 if thorough else 450):
        cases.append(_indep_case(rng))
    # round 6: composition laws, operand kinds of the comparisons, kinds of coordinate values
    for _ in range(5000 if thorough else 380):
        cases.append(_law_case(rng))
    cases += _ops_cases(rng, 8 if thorough else 2)
    cases += _args_cases(rng, 40 if thorough else 6)
    nrand = 16000 if thorough else 900
    for _ in range(nrand):
        coord = _rand_coord_gen(rng)
        r = rng.random()
        if r < 0.7:
            fts = _rand_fts(rng, coord, valid=rng.random() < 0.93)
            ops = [_rand_op(rng, coord, len(fts)) for _ in range(rng.choice([1, 1, 2, 3, 4, 6]))]
            cases.append({'_k': 'h', 'fts': fts, 'ops': ops})
        elif r < 0.85:
            cases.append({'_k': 'rr', 'fts': _rand_fts(rng, coord, valid=rng.random() < 0.95), 'L': rng.choice([0, 10, coord()])})
        else:
            cases.append({'_k': 'cmp', 't': _rand_locs(rng, coord, valid=rng.random() < 0.95),
                          'u': _rand_locs(rng, coord, valid=rng.random() < 0.95)})
    return [_pack(c) for c in cases]
