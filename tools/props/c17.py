"""C17 -- bundled genetic-code tables: loader correspondence, independent NCBI oracle, immutability checks."""
import os, re, ast, json, itertools
from framework import coq_N, coq_bs

ID = 'C17'
COQ_IMPORTS = ['C17_Model', 'C17_Convert', 'C17_Gcode', 'G_codes', 'G_gc_ids', 'G_gc_all'] + ['G_gcrec_%d' % i for i in
               (1, 2, 3, 4, 5, 6, 9, 10, 11, 12, 13, 14, 15, 16, 21, 22, 23, 24, 25, 26, 27, 28, 29, 30, 31, 32, 33)]
GENERATORS = ['gen_codes', 'gen_gcode_json', 'gen_gcode_prt', 'gen_gcode_records', 'gen_gcode_prt_text', 'gen_gcode_conv']
EXTRA_TARGETS = []
COQCHK = False
COQCHK_NOTE = ('not run for C17: the 27 table theorems are vm_compute enumerations of 3375 codons each; coqchk re-checks them '
               'without the bytecode VM and does not finish within the time limit (it was started once and stopped after 25 min)')
LETTERS = 'ACGTRYSWKMBDHVN'
RULE = ('finite theorem over all 27 tables x 3375 IUPAC codons proved in Coq on tables regenerated from gc.json/gc.prt; '
        'correspondence cases: (a) (table id, codon) -> what gcode(id) answers (tt entry, membership in starts/stops/astarts/astops), '
        'all 64 unambiguous codons x 27 tables + the 27 inverse tables (+ types of the collections) + 1.5k (quick) / 12k (thorough) random codons; '
        '(b) sequences of 1-13 gcode() calls on a cleared cache (call forms gcode(x) / gcode(tt=x) / gcode(), int / str / float / bool / None / list '
        'arguments, known and unknown ids): exception class or table id + which call created the returned object, 250 / 2000 sequences; '
        '(c) the real script convert.py (runpy, scratch cwd, patched CODES) on synthetic gc.prt-like texts (0-3 tables, missing / repeated / '
        'malformed name, id, ncbieaa, sncbieaa lines, short lines, several or no stops / starts, CRLF / CR) and alphabets (sub-alphabets of '
        'IUPAC, extra spellings, letters without expansion, value letters that are no key, a missing base) against the Gallina model, 90 / 600 '
        'small-alphabet + 4 / 24 whole-IUPAC cases, plus corpus/C17; thorough additionally runs gcode() against the independent NCBI oracle on '
        'ALL 27 x 3375 (table, codon) pairs; non-trivial = distinct (id, codon) with an ambiguous letter or a start/stop flag, a call sequence '
        'with >= 2 calls, a conversion (by result shape)')
TRUSTED = ['json.load, set(), functools.lru_cache, importlib.resources (loader of gcode(); compared on every case)',
           'runpy.run_path of sugar/data/data_gcode/convert.py in a scratch directory with sugar.data.CODES patched (generator tie)',
           'independent gc.prt parser in tools/gens/gcode.py',
           'history clause (no library operation modifies the tables): static AST walk of sugar/ + snapshot before/after a '
           'battery of library calls -- testing, not proof']
ASSUMPTIONS = ['in the Coq model library operations are pure functions of the tables; immutability of the shared Python objects '
               'behind lru_cache is checked statically/dynamically only']
LEVEL_TEXT = ('(a) Complete enumeration inside Coq (vm_compute, 27 tables x 15^3 codons, bound stated in the theorem) of every clause of the '
              'property against the NCBI definition parsed independently from gc.prt and the hand-written IUPAC code '
              '(C17_ids, C17_tables_match_ncbi, C17_ttinv_sound, C17_codes_are_iupac); tables are regenerated from /repo on every run. '
              '(b) The generator convert.py is modelled line by line in Gallina (C17_Convert: filter_line, the parsing loop with its '
              'NameError/ValueError/IndexError/KeyError behaviour, generate_gc with the three loops over the alphabet and the growing tt); '
              'C17_convert_whole: the whole script run inside Coq on the regenerated text of gc.prt with sugar.data.CODES raises nothing and yields '
              'the keys of gc.json in order and under every key the table of gc.json (unbounded pipeline lemma convert_with_emitted + '
              'the per-table finite theorems); C17_convert_reproduces_json: the model run inside Coq on the regenerated text of gc.prt and on sugar.data.CODES reproduces '
              'every table of gc.json (27 generated finite theorems G_gcconv_<id>.conv_matches_json). '
              '(c) Unbounded, for ANY ncbieaa/sncbieaa lines (any base table) and any alphabet whose expansions are base codons: '
              'C17_generate_gc_spec (no exception; tt answers base entry / common amino acid of all expansions / nothing), '
              'C17_entry_iff_expansions_agree, C17_base_entries, C17_starts_stops, C17_ambiguous_sets, C17_ttinv_rows, C17_ttinv_keys, '
              'C17_generate_gc_index_error; C17_codes_instance: sugar.data.CODES satisfies the side condition, so the 27 shipped tables are instances. '
              '(d) The loader gcode() as a state machine over its lru_cache (C17_Gcode: functools._make_key call forms gcode(x) / gcode(tt=x) / '
              'gcode(), str(tt) lookup, KeyError / TypeError, identity of the returned object): C17_gcode_reads_stable (the same call returns '
              'the same object after any sequence of other calls), C17_gcode_returns_requested (a hit through == never gives another table), '
              'C17_gcode_unhashable, C17_gcode_error_keeps_cache, C17_gcode_unknown_id; tied by random call sequences on a cleared cache (per call: exception class or table id + which call '
              'created the object). The loader gcode() is also tied by comparing gcode(id) with the regenerated tables; the model of convert.py is tied by running the '
              'real script (runpy, scratch cwd, patched CODES) on synthetic gc.prt-like texts and alphabets and comparing with the model; '
              'the shipped gc.json is re-derived from gc.prt by the real convert.py (in-process and in a subprocess with another PYTHONHASHSEED). '
              'The history clause is partial: static AST rule (stores / mutating calls / augmented assignments through gcode() results and '
              'their aliases) + snapshot testing over random histories of translate (all options), find_orfs, match/matchall start/stop, '
              'BioSeq/BioBasket wrappers and the CLI translate command, observing both cached call forms gcode(id) and gcode(tt=id).')
LEVEL_NOTE = ('Trusted: Coq kernel/vm_compute; tools/gens/gcode.py, gcode_thm.py, c17.py (translators incl. the independent gc.prt parser); '
              'json/set/lru_cache/runpy of CPython. No axioms. Not proved: that no Python operation mutates the cached Attr objects '
              '(checked by AST rule and snapshots only; the cache model shows stability of READS, not absence of mutation through aliases). '
              'Cache eviction (maxsize=128) is not modelled: the modelled key kinds give at most 1 + 4 x 27 = 109 entries; other hashable spellings '
              '(numpy integers, int/str subclasses) are outside the model. The model of convert.py treats Python sets as lists in the key order of CODES; '
              'fields filled while iterating a set (ambiguous part of tt, astarts, astops) are compared as sets. Domain of the convert.py tie: '
              'ASCII text, id fields without sign/underscore, alphabets whose value letters are bases or no code letters (otherwise line 47 '
              'depends on the hash order of a set).')
TECHNIQUE = ('Coq finite-domain theorems (forallb by vm_compute, lifted) over tables regenerated from /repo + line-by-line Gallina model of '
             'convert.py executed in Coq on the regenerated gc.prt + unbounded theorems (induction) about generate_gc + loader/generator correspondence')

IDS = (1, 2, 3, 4, 5, 6, 9, 10, 11, 12, 13, 14, 15, 16, 21, 22, 23, 24, 25, 26, 27, 28, 29, 30, 31, 32, 33)
IUPAC = {'A': 'A', 'C': 'C', 'G': 'G', 'T': 'T', 'R': 'AG', 'Y': 'CT', 'S': 'CG', 'W': 'AT', 'K': 'GT', 'M': 'AC',
         'B': 'CGT', 'D': 'AGT', 'H': 'ACT', 'V': 'ACG', 'N': 'ACGT'}
_PRT = None


def prt():
    """independent parse of gc.prt: id -> (ncbieaa, sncbieaa)"""
    global _PRT
    if _PRT is None:
        import sugar.data
        raw = open(os.path.join(os.path.dirname(sugar.data.__file__), 'data_gcode', 'gc.prt'), encoding='latin-1').read()
        _PRT = {}
        for m in re.finditer(r'\bid\s+(\d+)\s*,\s*ncbieaa\s+"([^"]{64})"\s*,\s*sncbieaa\s+"([^"]{64})"', raw):
            _PRT[int(m.group(1))] = (m.group(2), m.group(3))
    return _PRT


def codon_num(c):
    return LETTERS.index(c[0]) * 225 + LETTERS.index(c[1]) * 15 + LETTERS.index(c[2])


def expected(tid, codon):
    aa, sc = prt()[tid]
    idx = lambda c: 'TCAG'.index(c[0]) * 16 + 'TCAG'.index(c[1]) * 4 + 'TCAG'.index(c[2])
    ex = [a + b + c for a in IUPAC[codon[0]] for b in IUPAC[codon[1]] for c in IUPAC[codon[2]]]
    aas = {aa[idx(e)] for e in ex}
    amb = len(ex) > 1
    anystop = any(sc[idx(e)] == '*' for e in ex)
    anystart = any(sc[idx(e)] == 'M' for e in ex)
    return [aas.pop() if len(aas) == 1 else None, (not amb) and anystart, (not amb) and anystop, amb and anystart, amb and anystop]



# ---- convert.py (gc.prt -> gc.json): the real script is run on synthetic gc.prt-like texts / alphabets ----------------------

STD_AA = 'FFLLSSSSYY**CC*WLLLLPPPPHHQQRRRRIIIMTTTTNNKKSSRRVVVVAAAADDEEGGGG'
AMBIG = [('R', 'AG'), ('Y', 'CT'), ('S', 'GC'), ('W', 'AT'), ('K', 'GT'), ('M', 'AC'), ('B', 'CGT'), ('D', 'AGT'), ('H', 'ACT'),
         ('V', 'ACG'), ('N', 'ACGT')]


def _gen_codes(rng, full_ok):
    r = rng.random()
    if full_ok and r < .5:
        return 'CODES'
    base = [[b, b] for b in 'ACGT']
    extra = [list(x) for x in rng.sample(AMBIG, rng.randrange(0, 4))]
    codes = base + extra
    w = rng.random()
    if w < .12:
        codes.append(['n', 'ACGT'])                       # another spelling of a code letter
    elif w < .24:
        codes.append(['Q', rng.choice(['AU', 'U', 'XA'])])   # a value letter that is no key: tt[...] raises KeyError
    elif w < .32:
        codes = [c for c in codes if c[0] != 'G']         # alphabet without one base
    elif w < .40:
        codes.append(['Z', ''])                           # no expansion at all
    elif w < .48:
        codes.append(['E', rng.choice(['AA', 'CAC', 'TT'])])   # repeated letters in a value
    elif w < .54:
        codes = [c if c[0] != 'T' else ['T', 'TC'] for c in codes]   # a base letter that is ambiguous
    if rng.random() < .5:
        codes += [['.', '.'], ['-', '-']]
    rng.shuffle(codes)
    return codes


def _gen_prt(rng, max_tables):
    lines = []
    if rng.random() < .5:
        lines.append('--  This is a genetic code table, name "no" id 9')
    if rng.random() < .6:
        lines.append('Genetic-code-table ::= {')
    nt = rng.choice([0, 1, 1, 1, 1, 2, 2, 2, 3][:5 + 2 * max_tables])
    for k in range(nt):
        ind = rng.choice([' ', '  ', '\t', '', ' \t '])
        blk = []
        names = rng.choice([['Standard', 'SGC0'], ['Yeast Mitochondrial', 'SGC2'], ['SGC9', 'Late, but "quoted"'], ['One'],
                            ['the name of names'], ['sgc lower'], ['Mold; Protozoan; Coelenterate', 'SGC3'], ['Alt', ' SGC7 ']])
        if rng.random() < .08:
            names = rng.choice([[], [' SGC0 ']])
        for nm in names:
            blk.append('name "%s" ,' % nm)
        idv = rng.choice(['1', '2', '4', '11', '33', '1', '007', '12,3', '"5"', '6 ']) if rng.random() < .9 else \
            rng.choice(['x', '', '1 2', 'entifier 5', '3.0', '0x1'])
        idl = 'id %s ,' % idv
        aa = list(STD_AA)
        for _ in range(rng.choice([0, 1, 2, 5, 20])):
            aa[rng.randrange(64)] = rng.choice('ACDEFGHIKLMNPQRSTVWY*')
        aa = ''.join(aa)
        sc = ['-'] * 64
        for _ in range(rng.choice([0, 1, 3, 6])):
            sc[rng.randrange(64)] = 'M'
        for _ in range(rng.choice([0, 1, 3, 4, 10])):
            sc[rng.randrange(64)] = '*'
        sc = ''.join(sc)
        q = rng.random()
        if q < .05:
            aa = aa[:rng.choice([0, 10, 63])]
        elif q < .10:
            sc = sc[:rng.choice([0, 63])]
        elif q < .15:
            aa += 'XY'
            sc += '*'
        aal = 'ncbieaa  "%s",' % aa
        scl = 'sncbieaa "%s"' % sc
        q = rng.random()
        if q < .06:                                        # other spellings filter_line accepts: no quotes, quotes in the middle
            aal = 'ncbieaa %s' % aa
        elif q < .10:
            aal = 'ncbieaa  "%s" "%s",' % (aa[:20], aa[20:])
        elif q < .14:
            scl = 'sncbieaa %s ,' % sc
        elif q < .17:
            aal = 'ncbieaa,"%s"  , -- ncbieaa' % aa
        body = [idl, aal, scl]
        q = rng.random()
        if q < .06:
            body = [idl, scl, aal]                         # the sncbieaa line comes first: the previous table's aas (or NameError)
        elif q < .10:
            body = [aal, scl]                              # no id line
        elif q < .14:
            body = [idl, scl]
        elif q < .18:
            body = [aal, idl, scl]
        blk += body
        if rng.random() < .5:
            blk.append('-- Base1  ' + 'T' * 16 + 'C' * 16 + 'A' * 16 + 'G' * 16)
        lines.append(' {')
        lines += [ind + b for b in blk]
        lines.append(' }' + (',' if k + 1 < nt else ''))
    if rng.random() < .6:
        lines.append('}')
    nl = rng.choice(['\n', '\n', '\n', '\r\n', '\r'])
    text = nl.join(lines)
    if rng.random() < .7:
        text += nl
    return text


def _chunks(s):
    return sorted(s[i:i + 3] for i in range(0, len(s), 3))


def _canon_json(gcs):
    """what gcode() would expose of each table of a gc.json object (sets / dict content, no orders)"""
    out = []
    for key, t in gcs.items():
        out.append([int(key), t['id'], t['name'], t['aa_line'], t['sc_line'], sorted(c + a for c, a in t['tt'].items()),
                    sorted(a + ''.join(sorted(cs)) for a, cs in t['ttinv'].items()),
                    sorted(t['starts']), sorted(t['astarts']), sorted(t['stops']), sorted(t['astops'])])
    return sorted(out)


def _canon_model(mv):
    out = []
    for key, gid, name, aa, sc, tt, ttinv, starts, astarts, stops, astops in mv:
        out.append([key, gid, name, aa, sc, sorted(tt), sorted(r[0] + ''.join(_chunks(r[1:])) for r in ttinv),
                    _chunks(starts), _chunks(astarts), _chunks(stops), _chunks(astops)])
    return sorted(out)


def run_convert(text, codes):
    """run the real script sugar/data/data_gcode/convert.py in a scratch directory (it reads ./gc.prt and writes ./gc.json)"""
    import runpy, shutil, tempfile
    import sugar.data
    path = os.path.join(os.path.dirname(sugar.data.__file__), 'data_gcode', 'convert.py')
    d = tempfile.mkdtemp(prefix='C17-conv-')
    cwd = os.getcwd()
    old = sugar.data.CODES
    try:
        with open(os.path.join(d, 'gc.prt'), 'w', newline='') as f:
            f.write(text)
        os.chdir(d)
        if codes != 'CODES':
            sugar.data.CODES = {k: v for k, v in codes}
        runpy.run_path(path, run_name='__main__')
        with open(os.path.join(d, 'gc.json')) as f:
            return json.load(f)
    finally:
        os.chdir(cwd)
        sugar.data.CODES = old
        shutil.rmtree(d, ignore_errors=True)


def _conv_spec(case, got):
    """property clauses on every table the script produced, from its own aa_line / sc_line and the alphabet of the case"""
    if isinstance(got, dict):
        return None
    import sugar.data
    # the shipped alphabet is judged against the hand-written IUPAC code, not against sugar.data.CODES itself
    codes = dict(IUPAC) if case['codes'] == 'CODES' else {k: v for k, v in case['codes']}
    letters = [k for k in codes if k not in '.-']
    if any(x not in 'TCAG' for k in letters for x in codes[k]):
        return None
    base = [a + b + c for a in 'TCAG' for b in 'TCAG' for c in 'TCAG']
    for key, gid, name, aa, sc, tt, ttinv, starts, astarts, stops, astops in got:
        if key != gid:
            return 'table stored under key %r has id %r' % (key, gid)
        amino = dict(zip(base, aa))
        ttd = {x[:3]: x[3] for x in tt}
        if starts != sorted(c for c, f in zip(base, sc) if f == 'M') or stops != sorted(c for c, f in zip(base, sc) if f == '*'):
            return 'table %d: starts/stops %r %r do not follow sc_line %r' % (key, starts, stops, sc)
        if ttinv != sorted(a + ''.join(sorted(c for c in base if amino[c] == a)) for a in set(aa[:64])):
            return 'table %d: ttinv is not the inverse of the 64 base codons' % key
        for c in [a + b + d for a in letters for b in letters for d in letters] + base:
            ex = [c] if c in base else [x + y + z for x in codes[c[0]] for y in codes[c[1]] for z in codes[c[2]]]
            aas = {amino[e] for e in ex}
            want = aas.pop() if len(aas) == 1 else None
            if ttd.get(c) != want:
                return 'table %d: tt[%s] = %r, expansions %r give %r' % (key, c, ttd.get(c), ex, want)
            if c not in base:
                for nm, lst, flag in (('astarts', astarts, 'M'), ('astops', astops, '*')):
                    w = any(sc[base.index(e)] == flag for e in ex)
                    if (c in lst) != w:
                        return 'table %d: %s in %s is %r, expansions %r flagged: %r' % (key, c, nm, c in lst, ex, w)
        if set(ttd) - set(a + b + d for a in letters for b in letters for d in letters) - set(base):
            return 'table %d: tt has keys outside the alphabet' % key
    return None


# ---- gcode(): call forms, key spellings, exceptions, identity of the cached object -----------------------------------------

def _gen_gcalls(rng):
    calls = []
    pool_z = list(IDS) + [0, 7, 8, 17, 34, -1, 100, 1, 1, 2, 11]
    pool_s = [str(i) for i in IDS] + ['01', ' 1', 'Standard', '', '1.0', 'True', 'None', '1', '2', '+1', '1_1']
    few_z = [rng.choice(pool_z) for _ in range(3)]
    few_s = [rng.choice(pool_s) for _ in range(2)] + [str(few_z[0])]
    for _ in range(rng.randrange(1, 14)):
        f = rng.choice([0, 0, 0, 1, 1, 2])
        kind = rng.choice([0, 0, 0, 1, 1, 2, 2, 3, 4, 5])
        z = rng.choice(few_z) if rng.random() < .8 else rng.choice(pool_z)
        st = rng.choice(few_s) if rng.random() < .8 else rng.choice(pool_s)
        calls.append([f, kind, z, st])
    return calls


def _run_gcalls(calls):
    from sugar.data import gcode
    if not hasattr(gcode, 'cache_clear'):      # another cache than functools.lru_cache cannot be reset from outside: nothing to compare
        return {'nocache': True}
    gcode.cache_clear()
    objs, out = [], []
    try:
        for f, kind, z, st in calls:
            v = [z, st, float(z), z == 1, None, [z]][kind]
            try:
                g = gcode() if f == 2 else (gcode(tt=v) if f == 1 else gcode(v))
            except (KeyError, TypeError) as e:
                objs.append(None)
                out.append({'e': type(e).__name__})
                continue
            objs.append(g)
            out.append([g.id, next(i for i, o in enumerate(objs) if o is g)])
        # every object handed out for one id has the same content
        for i, o in enumerate(objs):
            for p in objs[:i]:
                if o is not None and p is not None and o.id == p.id and o is not p:
                    assert dict(o) == dict(p), 'two gcode() objects of table %r differ' % o.id
    finally:
        gcode.cache_clear()
    return out


def _gcalls_spec(case, got):
    if isinstance(got, dict) and got.get('nocache'):
        return None
    if isinstance(got, dict):
        return 'the call sequence raised ' + got['e']
    seen = {}
    for (f, kind, z, st), r in zip(case['gcalls'], got):
        key = repr((f, kind, z if kind != 1 else st)) if f != 2 else 'default'
        want = 1 if f == 2 else (z if kind == 0 else (int(st) if kind == 1 and st.isdigit() and str(int(st)) == st else None))
        if isinstance(r, dict):
            if want in IDS and kind in (0, 1) or f == 2:
                return 'gcode call %r raised %s' % ((f, kind, z, st), r['e'])
            if kind == 5 and r['e'] != 'TypeError' or kind != 5 and r['e'] != 'KeyError':
                return 'gcode call %r raised %s' % ((f, kind, z, st), r['e'])
            continue
        if kind in (0, 1) or f == 2:
            if r[0] != want:
                return 'gcode call %r returned table %r' % ((f, kind, z, st), r[0])
        elif r[0] != z:
            return 'gcode call %r returned table %r' % ((f, kind, z, st), r[0])
        if key in seen and seen[key] != r:
            return 'the same gcode call %r returned another object the second time' % ((f, kind, z, st),)
        seen[key] = r
    return None


def gen_cases(rng, tier):
    cases = []
    for t in IDS:
        for c in itertools.product('TCAG', repeat=3):
            cases.append({'id': t, 'codon': ''.join(c)})
    for t in IDS:      # the whole inverse table of every id (rows incl. the stop symbol '*', codon sets)
        cases.append({'id': t, 'ttinv': True})
    for _ in range(12000 if tier == 'thorough' else 1500):
        cases.append({'id': rng.choice(IDS), 'codon': ''.join(rng.choice(LETTERS) for _ in range(3))})
    for _ in range(2000 if tier == 'thorough' else 250):
        cases.append({'gcalls': _gen_gcalls(rng)})
    # convert.py on synthetic inputs; the expensive ones (whole IUPAC alphabet: 3375 codons per table inside Coq) are spread
    # over the shards of 400 cases
    nfull, nsmall = (24, 600) if tier == 'thorough' else (4, 90)
    for _ in range(nsmall):
        cases.append({'conv': 1, 'codes': _gen_codes(rng, False), 'text': _gen_prt(rng, 2)})
    step = max(1, len(cases) // (nfull + 1))
    for k in range(nfull):
        cases.insert(min(len(cases), 7 + k * step), {'conv': 1, 'codes': 'CODES', 'text': _gen_prt(rng, 0)})
    return cases


def impl(case):
    if 'gcalls' in case:
        return _run_gcalls(case['gcalls'])
    if case.get('conv'):
        return _canon_json(run_convert(case['text'], case['codes']))
    from sugar.data import gcode
    gc = gcode(case['id'])
    assert gc.id == case['id']
    if case.get('ttinv'):
        assert all(isinstance(v, set) for v in gc.ttinv.values()), 'ttinv rows are not sets'
        assert all(type(getattr(gc, f)) is set for f in ('starts', 'stops', 'astarts', 'astops')), 'start/stop collections are not sets'
        from collections.abc import Mapping
        assert isinstance(gc.tt, Mapping) and isinstance(gc.ttinv, Mapping) and isinstance(gc.name, str) and type(gc.id) is int
        return [[a, sorted(codon_num(x) for x in gc.ttinv[a])] for a in sorted(gc.ttinv)]
    c = case['codon']
    return [gc.tt.get(c), c in gc.starts, c in gc.stops, c in gc.astarts, c in gc.astops]


def split_model(case, m):
    if 'gcalls' in case:
        return all(abs(c[2]) < 10 ** 6 for c in case['gcalls']), m
    if case.get('conv'):
        return bool(m[0]), (_canon_model(m[1]) if isinstance(m[1], list) else m[1])
    return True, m


def agree(case, iv, mv):
    if 'gcalls' in case and isinstance(iv, dict) and iv.get('nocache'):
        return True
    if case.get('ttinv') and isinstance(mv, list):      # row order / codon order of the JSON file are not part of the claim
        mv = sorted([a, sorted(cs)] for a, cs in mv)
    return iv == mv


def _coq_codes(codes):
    if codes == 'CODES':
        return 'CODES'
    return '[' + '; '.join('(x%02x, %s)' % (ord(k), coq_bs(v) if v else '[]') for k, v in codes) + ']'


def model_term(case):
    if 'gcalls' in case:
        return 'out (run_C17_gcode json_ids [%s])' % '; '.join(
            '(%d%%N, %d%%N, (%d)%%Z, %s)' % (f, k, z, coq_bs(st) if st else '[]') for f, k, z, st in case['gcalls'])
    if case.get('conv'):
        return 'out (run_C17_conv %s %s)' % (_coq_codes(case['codes']), coq_bs(case['text']) if case['text'] else '[]')
    if case.get('ttinv'):
        return 'out (run_C17_ttinv G_gcrec_%d.rec)' % case['id']
    return 'out (run_C17 G_gcrec_%d.rec %s)' % (case['id'], coq_N(codon_num(case['codon'])))


def spec(case, got):
    if 'gcalls' in case:
        return _gcalls_spec(case, got)
    if case.get('conv'):
        return _conv_spec(case, got)
    if isinstance(got, dict):
        return 'raised ' + got['e']
    if case.get('ttinv'):
        aa, _ = prt()[case['id']]
        cod = [a + b + c for a in 'TCAG' for b in 'TCAG' for c in 'TCAG']
        exp = sorted([x, sorted(codon_num(c) for c, y in zip(cod, aa) if y == x)] for x in set(aa))
        if got != exp:
            return 'gcode(%d).ttinv: rows %r, the NCBI definition has %r; first differing row: %r' % (
                case['id'], ''.join(r[0] for r in got), ''.join(r[0] for r in exp),
                next(((g, e) for g, e in zip(got, exp) if g != e), None))
        return None
    exp = expected(case['id'], case['codon'])
    if got != exp:
        return 'gcode(%d) for %s: expected [tt, start, stop, astart, astop] = %r got %r' % (case['id'], case['codon'], exp, got)
    return None


def nontrivial(case, got):
    if 'gcalls' in case:
        return 'gcalls:' + json.dumps(got)[:200] if isinstance(got, list) and len(got) > 1 else None
    if case.get('conv'):
        if isinstance(got, dict):
            return 'conv:' + got['e']
        return 'conv:%d tables, %d tt entries, %d astops' % (len(got), sum(len(t[5]) for t in got), sum(len(t[10]) for t in got))
    if case.get('ttinv'):
        return 'ttinv'
    if any(ch not in 'ACGT' for ch in case['codon']) or (isinstance(got, list) and any(got[1:])):
        return 'amb' if any(ch not in 'ACGT' for ch in case['codon']) else 'flag'
    return None


def histkey(case, got):
    if 'gcalls' in case:
        ks = ['gcode() sequences']
        if isinstance(got, list):
            ks += sorted({'gcode(): ' + (r['e'] if isinstance(r, dict) else ('cache hit' if r[1] != i else 'load'))
                          for i, r in enumerate(got)})
        return ks
    if case.get('conv'):
        return ['convert.py: ' + (got['e'] if isinstance(got, dict) else '%d tables' % len(got)),
                'convert.py alphabet: ' + ('CODES' if case['codes'] == 'CODES' else '%d letters' % len(case['codes']))]
    if case.get('ttinv'):
        return ['ttinv', 'table=%d' % case['id']]
    n = sum(ch not in 'ACGT' for ch in case['codon'])
    return ['ambiguous_letters=%d' % n, 'table=%d' % case['id']]


def python_snippet(case):
    if 'gcalls' in case:
        return ("import sys; sys.path.insert(0, '/verif/tools/props'); sys.path.insert(0, '/verif/tools'); import c17; "
                "print(c17._run_gcalls(%r))  # [form 0 positional/1 tt=/2 no argument, kind 0 int/1 str/2 float/3 bool/4 None/5 list, int, str]"
                % (case['gcalls'],))
    if case.get('conv'):
        return ("import sys; sys.path.insert(0, '/verif/tools/props'); sys.path.insert(0, '/verif/tools'); import c17; "
                "print(c17.run_convert(%r, %r))" % (case['text'], case['codes']))
    if case.get('ttinv'):
        return "from sugar.data import gcode; print({k: sorted(v) for k, v in gcode(%d).ttinv.items()})" % case['id']
    return ("from sugar.data import gcode; gc=gcode(%d); c=%r; print(gc.tt.get(c), c in gc.starts, c in gc.stops, c in gc.astarts, c in gc.astops)"
            % (case['id'], case['codon']))


# ---- history clause -------------------------------------------------------------------------------------------------

MUTATORS = {'add', 'update', 'pop', 'clear', 'remove', 'discard', 'setdefault', 'popitem', 'append', 'extend', 'insert',
            '__setitem__', '__delitem__', 'difference_update', 'intersection_update', 'symmetric_difference_update', 'sort'}


def _ast_violations():
    """names bound to gcode(...) must never be assigned through, deleted from, or receive a mutating method call"""
    import sugar
    root = os.path.dirname(sugar.__file__)
    bad = []
    for dp, dn, fs in os.walk(root):
        if 'tests' in dp:
            continue
        for f in fs:
            if not f.endswith('.py'):
                continue
            p = os.path.join(dp, f)
            tree = ast.parse(open(p).read())
            for fn in [n for n in ast.walk(tree) if isinstance(n, (ast.FunctionDef, ast.AsyncFunctionDef, ast.Module))]:
                if isinstance(fn, ast.FunctionDef) and fn.name == 'gcode':
                    continue        # the loader itself builds the object before it is cached

                def walk_own(node):      # the nodes of this scope, not those of nested function definitions
                    todo = list(ast.iter_child_nodes(node))
                    while todo:
                        x = todo.pop()
                        yield x
                        if not isinstance(x, (ast.FunctionDef, ast.AsyncFunctionDef)):
                            todo.extend(ast.iter_child_nodes(x))

                def is_gcode(e):
                    return isinstance(e, ast.Call) and getattr(e.func, 'id', getattr(e.func, 'attr', None)) == 'gcode'
                names, aliases = set(), set()

                def rooted(e, also=()):
                    """an attribute / subscript chain (or .values() / .items() / .keys() view) that ends in a gcode() result"""
                    while True:
                        if isinstance(e, (ast.Attribute, ast.Subscript)):
                            e = e.value
                        elif (isinstance(e, ast.Call) and isinstance(e.func, ast.Attribute) and e.func.attr in ('values', 'items', 'keys', 'get')
                              and also):
                            e = e.func.value
                        else:
                            break
                    return (isinstance(e, ast.Name) and (e.id in names or e.id in aliases)) or is_gcode(e)
                for _round in range(3):      # names bound to a gcode() result, then names bound to parts of it (aliases)
                    for n in walk_own(fn):
                        if isinstance(n, ast.Assign) and is_gcode(n.value):
                            names |= {t.id for t in n.targets if isinstance(t, ast.Name)}
                        elif isinstance(n, ast.NamedExpr) and is_gcode(n.value) and isinstance(n.target, ast.Name):
                            names.add(n.target.id)
                        elif isinstance(n, ast.Assign) and isinstance(n.value, (ast.Attribute, ast.Subscript)) and rooted(n.value):
                            aliases |= {t.id for t in n.targets if isinstance(t, ast.Name)}
                        elif isinstance(n, (ast.For, ast.comprehension)) and rooted(n.iter, also=True) and not isinstance(n.iter, ast.Name):
                            aliases |= {t.id for t in ast.walk(n.target) if isinstance(t, ast.Name)}
                uses_gcode = names or any(is_gcode(n) for n in walk_own(fn))
                if not uses_gcode:
                    continue
                for n in walk_own(fn):
                    tg = []
                    if isinstance(n, ast.Assign):
                        tg = n.targets
                    elif isinstance(n, (ast.AugAssign, ast.AnnAssign)):
                        tg = [n.target]
                    elif isinstance(n, ast.Delete):
                        tg = n.targets
                    for t in tg:
                        if isinstance(t, (ast.Attribute, ast.Subscript)) and rooted(t):
                            bad.append('%s:%d store through a gcode() result' % (os.path.relpath(p, root), n.lineno))
                        elif isinstance(n, ast.AugAssign) and isinstance(t, ast.Name) and t.id in aliases:
                            bad.append('%s:%d augmented assignment to %s, an alias of a part of a gcode() result (in-place for sets/dicts)'
                                       % (os.path.relpath(p, root), n.lineno, t.id))
                    if isinstance(n, ast.Call) and isinstance(n.func, ast.Attribute) and n.func.attr in MUTATORS and rooted(n.func.value):
                        bad.append('%s:%d %s() on a gcode() result' % (os.path.relpath(p, root), n.lineno, n.func.attr))
    return sorted(set(bad))


def _snapshot():
    from sugar.data import gcode
    snap = {}
    for t in IDS:
        snap[t] = ''
        for gc in (gcode(t), gcode(tt=t)) + ((gcode(),) if t == 1 else ()):
            snap[t] += json.dumps({'id': gc.id, 'name': gc.name, 'tt': dict(gc.tt), 'ttinv': {k: sorted(v) for k, v in gc.ttinv.items()},
                                   'starts': sorted(gc.starts), 'stops': sorted(gc.stops), 'astarts': sorted(gc.astarts),
                                   'astops': sorted(gc.astops), 'keys': sorted(vars(gc))}, sort_keys=True)
    return snap


def _reproduce_checks(rng, cov):
    """gc.json is what convert.py makes of gc.prt (any iteration order of the Python set all_codes)"""
    import subprocess, sys, tempfile, shutil
    import sugar.data
    d = os.path.join(os.path.dirname(sugar.data.__file__), 'data_gcode')
    text = open(os.path.join(d, 'gc.prt'), encoding='latin-1').read()
    shipped = _canon_json(json.load(open(os.path.join(d, 'gc.json'))))
    runs = []
    try:
        runs.append(('in-process', _canon_json(run_convert(text, 'CODES'))))
    except Exception as e:
        runs.append(('in-process', {'e': type(e).__name__}))
    seed = rng.randrange(1, 4000000)
    tmp = tempfile.mkdtemp(prefix='C17-repro-')
    try:
        shutil.copy(os.path.join(d, 'gc.prt'), os.path.join(tmp, 'gc.prt'))
        env = dict(os.environ, PYTHONHASHSEED=str(seed), PYTHONPATH=os.path.dirname(os.path.dirname(os.path.dirname(sugar.data.__file__))))
        r = subprocess.run([sys.executable, os.path.join(d, 'convert.py')], cwd=tmp, env=env, capture_output=True, timeout=120)
        if r.returncode == 0:
            runs.append(('PYTHONHASHSEED=%d' % seed, _canon_json(json.load(open(os.path.join(tmp, 'gc.json'))))))
        else:
            runs.append(('PYTHONHASHSEED=%d' % seed, {'e': r.stderr.decode('latin-1').strip().splitlines()[-1][:200] if r.stderr.strip() else 'exit %d' % r.returncode}))
    finally:
        shutil.rmtree(tmp, ignore_errors=True)
    cov['convert_py_reruns'] = [how for how, _ in runs]
    for how, got in runs:
        if got != shipped:
            diff = 'raised %s' % got['e'] if isinstance(got, dict) else next(
                ('table %s field %d' % (g[0], k) for g, w in zip(got, shipped) for k in range(len(g)) if g[k] != w[k]), 'table set differs')
            yield {'case': {'convert.py on the shipped gc.prt': how}, 'impl': None, 'noshrink': True,
                   'spec': 'sugar/data/data_gcode/convert.py run on the shipped gc.prt (%s) does not reproduce the shipped gc.json: %s' % (how, diff)}


def extra_checks(rng, tier, cov):
    from sugar import BioSeq, BioBasket
    from sugar.core.cane import translate
    for b in _ast_violations():
        yield {'case': {'static': b}, 'impl': None, 'spec': 'history clause: ' + b, 'noshrink': True}
    yield from _reproduce_checks(rng, cov)
    if tier == 'thorough':
        n_all = 0
        for t in IDS:
            for c in itertools.product(LETTERS, repeat=3):
                case = {'id': t, 'codon': ''.join(c)}
                sp = spec(case, impl(case))
                n_all += 1
                if sp:
                    yield {'case': case, 'impl': impl(case), 'spec': sp, 'noshrink': True}
                    break
        cov['oracle_exhaustive_pairs'] = n_all
        cov['exhaustive'] = True
    before = _snapshot()
    n = 3000 if tier == 'thorough' else 400
    calls = 0
    import warnings
    from sugar.data import gcode

    def light(t):      # per-call fingerprint of one shared table, as reached through both cached call forms
        out = []
        for gc in (gcode(t), gcode(tt=t)):
            out.append((len(gc.tt), len(gc.starts), len(gc.stops), len(gc.astarts), len(gc.astops),
                        sum(len(v) for v in gc.ttinv.values()), len(gc.ttinv), len(vars(gc)), gc.name, gc.id,
                        hash(frozenset(gc.tt.items())), hash(frozenset(gc.stops)), hash(frozenset(gc.starts))))
        return out
    first_change = None
    import contextlib, io, sys
    from sugar.core.cane import find_orfs, match
    from sugar.scripts import cli
    ops_seen = {}
    for _ in range(n):
        s = ''.join(rng.choice('ACGTUN-RY') for _ in range(rng.randrange(0, 40)))
        r = rng.random()
        if r < .3:      # an open reading frame without final stop, DNA or RNA spelling
            s = ''.join(rng.choice(['GCT', 'AAA', 'GGN', 'CTR', 'ATG', 'TTY']) for _ in range(rng.randrange(1, 8)))
            if rng.random() < .5:
                s = s.replace('T', 'U')
        elif r < .5:    # start ... stop, ambiguous stops, gaps
            s = (rng.choice(['ATG', 'TTG', 'CTG', 'ATR', 'NTG', 'A-TG']) +
                 ''.join(rng.choice(['GCT', 'AAA', 'TAR', 'TGA', 'G-C-T', 'NNN', 'TRA']) for _ in range(rng.randrange(0, 6))) +
                 rng.choice(['TAA', 'TAG', 'TGA', 'TAR', 'TCA', 'AGA', '']))
        tt = rng.choice(IDS)
        kw = dict(complete=rng.random() < .5, check_start=rng.choice([None, False, True]), check_stop=rng.random() < .3,
                  final_stop=rng.choice([None, True, False]), astop=rng.choice('X*?'), tt=tt, warn=rng.random() < .5,
                  gap=rng.choice(['-', '-', None, '.']), gap_after=rng.choice([2, 2, 0, 1, None]))
        plain = s.replace('N', 'A').replace('R', 'G').replace('Y', 'C')
        okw = dict(rf=rng.choice(['fwd', 'bwd', 'both', 0, -1, (0, -2)]), need_start=rng.choice(['always', 'once', 'never']),
                   need_stop=rng.random() < .5, minlen=rng.choice([0, 0, 3, 30]), start=rng.choice(['start', 'start', 'ATG|TTG']),
                   stop=rng.choice(['stop', 'stop', 'TAA']))
        mrf = rng.choice(['fwd', 'bwd', 'both', 1, -3, None])
        ops = {
            'translate': lambda: translate(s, **kw),
            'translate(BioSeq)': lambda: translate(BioSeq(s), **kw),
            'BioSeq.translate': lambda: BioSeq(s).translate(**kw),
            'BioSeq.copy.translate': lambda: BioSeq(plain).copy().translate(complete=True, tt=tt),
            'BioBasket.translate': lambda: BioBasket([BioSeq(plain), BioSeq(s)]).translate(**kw),
            'find_orfs': lambda: find_orfs(BioSeq(s), **okw),
            'BioSeq.find_orfs': lambda: BioSeq(plain).find_orfs(**okw),
            'BioBasket.find_orfs': lambda: BioBasket([BioSeq(plain)]).find_orfs(rf='both'),
            'match(start)': lambda: match(BioSeq(s), 'start', rf=mrf, gap=kw['gap']),
            'match(stop)': lambda: match(BioSeq(s), 'stop', rf=mrf, matchall=True),
            'BioSeq.matchall(stop)': lambda: BioSeq(plain).matchall('stop', rf='both'),
            'BioSeq.match(start)': lambda: BioSeq(plain).match('start', rf=mrf),
            'cli translate': lambda: cli(['translate', plain.replace('-', '') or 'ATG', '-tt', str(tt)] + (['-c'] if kw['complete'] else [])),
        }
        names = rng.sample(sorted(ops), rng.randrange(1, 5))
        if 'translate' not in names and rng.random() < .5:
            names.insert(0, 'translate')
        for nm in names:
            l0 = light(tt)
            stdin0 = sys.stdin
            sys.stdin = io.StringIO('')      # the CLI reads standard input for the file name '-': never block on it
            try:
                with warnings.catch_warnings(), contextlib.redirect_stdout(io.StringIO()), contextlib.redirect_stderr(io.StringIO()):
                    warnings.simplefilter('ignore')
                    try:
                        ops[nm]()
                    except (Exception, SystemExit):      # the stream observes the tables, not the results
                        pass
            finally:
                sys.stdin = stdin0
            calls += 1
            ops_seen[nm] = ops_seen.get(nm, 0) + 1
            if first_change is None and light(tt) != l0:
                first_change = {'table': tt, 'op': nm, 'seq': s, 'translate_options': {k: v for k, v in kw.items() if k != 'tt'},
                                'orf_options': repr(okw), 'match_rf': repr(mrf)}
    cov['history_ops'] = ops_seen
    # a copy handed out by the library is the caller's own: customising it in place must not reach the shared table
    import copy as _copy
    for t in IDS:
        for how in ('Attr.copy', 'deepcopy'):
            mine = gcode(t).copy() if how == 'Attr.copy' else _copy.deepcopy(gcode(t))
            l0 = light(t)
            wrong = [f for f in ('starts', 'stops', 'astarts', 'astops') if type(getattr(mine, f, None)) is not set]
            if wrong:
                yield {'case': {'id': t, 'fields': wrong}, 'impl': None, 'noshrink': True,
                       'spec': 'gcode(%d).%s is a %s, not a set' % (t, wrong[0], type(getattr(mine, wrong[0], None)).__name__)}
                break
            mine.starts.add('NNN'); mine.stops.add('NNN'); mine.astarts.add('NNN'); mine.astops.add('NNN')
            mine.starts.discard('ATG'); mine.stops.intersection_update({'TAA'})
            mine.tt['NNN'] = '?'; mine.tt.pop('AAA', None)
            for k in list(mine.ttinv):
                mine.ttinv[k].add('NNN')
            mine.ttinv['?'] = {'NNN'}
            mine.name = 'customised'
            calls += 1
            if first_change is None and light(t) != l0:
                first_change = {'table': t, 'customised_in_place': how}
    after = _snapshot()
    cov['history_calls'] = calls
    cov['tables_snapshotted'] = len(before)
    for t in IDS:
        if before[t] != after[t]:
            case = {'table': t, 'calls': calls}
            if first_change and first_change['table'] == t:
                case.update(first_change)
            yield {'case': case, 'impl': None, 'noshrink': True,
                   'spec': 'history clause: gcode(%d) changed after %d library calls%s' % (
                       t, calls, ' (first seen after %r)' % (first_change,) if first_change and first_change['table'] == t else '')}


def search_cases(broken, rng):
    """a table theorem failed: enumerate the whole table (or all tables) with the independent oracle"""
    if any('gcconv' in b or 'conv_all' in b or 'G_codes' in b or 'C17_Conv' in b for b in broken):
        import sugar.data
        yield {'conv': 1, 'codes': 'CODES',
               'text': open(os.path.join(os.path.dirname(sugar.data.__file__), 'data_gcode', 'gc.prt'), encoding='latin-1').read()}
    ids = [int(m) for b in broken for m in re.findall(r'G_gcrec_(\d+)\.v', b)] or list(IDS)
    for t in ids:
        yield {'id': t, 'ttinv': True}
        for c in itertools.product(LETTERS, repeat=3):
            yield {'id': t, 'codon': ''.join(c)}

def valid_case(c):
    """shrinking: a case over the whole IUPAC alphabet costs seconds per evaluation inside Coq - report it as it is"""
    return not (c.get('conv') and c.get('codes') == 'CODES')


MODELLED_FUNCS = {'sugar/data/__init__.py': ['gcode'], 'sugar/data/data_gcode/convert.py': ['generate_gc', 'filter_line']}
NO_SHRINK_KEYS = {'ttinv', 'id', 'conv', 'codes', 'gcalls'}
