"""C18 -- copy() isolation; metadata containers behave as mappings.

Three ties to /repo:
  kind 'attr'  : a history of mapping operations on x = Meta(d), run on the real Attr/Meta and on the value-level Gallina model
                 (coq/model/C18_Model.v): per-operation results, final typed snapshot, x == plain dict view.
  kind 'heap'  : a small program over several variables with Meta(d), x.copy(), Meta(x) (shallow re-wrap) and assignments of
                 existing (shared) sub-objects, run on the real classes and on the heap model (coq/lib/C18_Heap.v): snapshots of
                 all variables at the end -> ties the aliasing structure (what copy() separates, what re-wrapping shares).
  extra_checks : random histories of public mutating operations on real BioSeq / BioBasket / FeatureList / Meta objects and their
                 copies, compared through deep structural snapshots and id()-reachability (no model needed).
"""
import json, copy as _copy
from framework import coq_bs, coq_z, coq_list

ID = 'C18'
COQ_IMPORTS = ['C18_Model', 'C18_Heap', 'C18_Obj']
GENERATORS = ['gen_attr_reserved', 'gen_c18_str']
DISAGREEMENT_IS_TIE_ONLY = False
MODELLED_FUNCS = {'sugar/core/meta.py': ['Attr.__init__', 'Attr.__getitem__', 'Attr.__setitem__', 'Attr.__delitem__', 'Attr.__getattr__',
                                         'Attr.copy', 'Attr.update', 'Attr.__iter__', 'Attr.__len__'],
                  'sugar/core/seq.py': ['BioSeq.__add__', 'BioSeq.__iadd__', 'BioSeq.reverse', 'BioSeq.copy', 'BioSeq.fts', 'BioSeq.id',
                                        'BioSeq.complement', 'BioSeq.rc', 'BioBasket.__init__', 'BioBasket.complement', 'BioBasket.rc', 'BioBasket.__setitem__', 'BioBasket.fts', 'BioBasket.reverse', 'BioBasket.copy', 'BioBasket.sort', 'BioBasket.filter',
                                        '_BioSeqStr.lower', '_BioSeqStr.upper', '_BioBasketStr.__getattr__']}
NO_SHRINK_KEYS = ['mapkind', 'obj', 'how', 'mk', 'sub', 'data', 'arg', 'a', 'b', 'operand', 'method', 'n']

# ----------------------------------------------------------------------------- literals

KEYS = ['a', 'b', 'c', 'id', 'name', '_x', 'k 1', 'A', 'fts', 'type', 'n', 'x.y', '']
MAPPING_METHODS = ['items', 'keys', 'values', 'get', 'update', 'pop', 'copy', 'setdefault', 'clear', 'popitem']
RESERVED_SAMPLES = MAPPING_METHODS + ['tostr', '__class__', '__dict__', '__deepcopy__', '__len__', '_abc_impl']


def reserved(k):
    from sugar.core.meta import Meta
    return k in set(dir(Meta)) or (len(k) >= 4 and k.startswith('__') and k.endswith('__'))


def rand_key(rng, p_res=0.0):
    if rng.random() < p_res:
        return rng.choice(RESERVED_SAMPLES)
    return rng.choice(KEYS[:6]) if rng.random() < 0.7 else rng.choice(KEYS)


def rand_scalar(rng):
    return rng.choice([None, True, False, 0, 1, -7, 12345678901234567890, 'x', '', 'ACGT', 'a b', 1, 2])


def rand_lit(rng, depth=3, p_res=0.0):
    r = rng.random()
    if depth <= 0 or r < 0.35:
        return rand_scalar(rng)
    if r < 0.55:
        return [rand_lit(rng, depth - 1, p_res) for _ in range(rng.randint(0, 3))]
    return rand_dict(rng, depth - 1, p_res)


def rand_dict(rng, depth=3, p_res=0.0):
    d = {}
    for _ in range(rng.randint(0, 4)):
        d[rand_key(rng, p_res)] = rand_lit(rng, depth, p_res)
    return d


def fresh(j):
    return json.loads(json.dumps(j))


def coq_tree(j):
    if j is None:
        return 'TNull'
    if j is True:
        return '(TBool true)'
    if j is False:
        return '(TBool false)'
    if isinstance(j, int):
        return '(TInt %s)' % coq_z(j)
    if isinstance(j, str):
        return '(TStr %s)' % coq_bs(j)
    if isinstance(j, list):
        return '(TList %s)' % coq_list([coq_tree(x) for x in j])
    if isinstance(j, dict):
        return '(TMap TgDict %s)' % coq_list(['(%s, %s)' % (coq_bs(k), coq_tree(v)) for k, v in j.items()])
    raise TypeError(j)


def coq_path(p):
    return coq_list(['(PK %s)' % coq_bs(e) if isinstance(e, str) else '(PI %s)' % coq_z(e) for e in p])


# ----------------------------------------------------------------------------- typed snapshot of metadata values

MAPKINDS = ['dict', 'OrderedDict', 'defaultdict', 'UserDict', 'ChainMap', 'mappingproxy']


def make_mapping(kind, d):
    """the same items as the dict d, as another kind of collections.abc.Mapping"""
    import collections, types
    if kind == 'dict':
        return d
    if kind == 'OrderedDict':
        return collections.OrderedDict(d)
    if kind == 'defaultdict':
        return collections.defaultdict(list, d)
    if kind == 'UserDict':
        return collections.UserDict(d)
    if kind == 'ChainMap':
        return collections.ChainMap(d)
    if kind == 'mappingproxy':
        return types.MappingProxyType(d)
    if kind == 'Attr':
        from sugar.core.meta import Attr
        return Attr(d)
    if kind == 'Meta':
        from sugar.core.meta import Meta
        return Meta(d)
    raise ValueError(kind)


def wrap_kind(j, kind, depth=0):
    """JSON literal -> Python value whose mapping nodes (outside lists) are of the given kind ('mix': varies by depth).
    The Coq model has ONE kind of non-Attr mapping literal: that every Mapping is treated like a dict IS the law."""
    if kind in (None, 'dict'):
        return j
    if isinstance(j, dict):
        k = MAPKINDS[1 + (depth + len(j)) % (len(MAPKINDS) - 1)] if kind == 'mix' else kind
        return make_mapping(k, {a: wrap_kind(b, kind, depth + 1) for a, b in j.items()})
    return j          # lists keep plain content: Attr does not convert inside lists, and list elements are edited as dicts


def msnap(o, _path=()):
    """['M'|'A'|'D', [k, v], ...] / ['L', ...] / scalar -- the same shape as enc in C18_Model.v"""
    import collections.abc
    from sugar.core.meta import Attr, Meta
    if o is None or isinstance(o, (bool, int, str)):
        return o
    if id(o) in _path:
        return ['cycle']
    _path = _path + (id(o),)
    if isinstance(o, Meta):
        return ['M'] + [[k, msnap(v, _path)] for k, v in vars(o).items()]
    if isinstance(o, Attr):
        return ['A'] + [[k, msnap(v, _path)] for k, v in vars(o).items()]
    if isinstance(o, collections.abc.Mapping):        # any mapping that is not an Attr is a "plain dict" for the model
        return ['D'] + [[k, msnap(v, _path)] for k, v in o.items()]
    if isinstance(o, list):
        return ['L'] + [msnap(v, _path) for v in o]
    if isinstance(o, tuple):
        return [msnap(v, _path) for v in o]
    return ['?', type(o).__name__]


def to_plain(o):
    """independent recursive dict view"""
    import collections.abc
    from sugar.core.meta import Attr
    if isinstance(o, collections.abc.Mapping):
        return {k: to_plain(v) for k, v in (vars(o) if isinstance(o, Attr) else o).items()}
    if isinstance(o, list):
        return [to_plain(v) for v in o]
    return o


# ----------------------------------------------------------------------------- kind 'attr'

ATTR_OPS = ['setitem', 'setattr', 'delitem', 'delattr', 'getitem', 'getattr', 'get', 'pop', 'popitem', 'setdefault', 'clear',
            'update', 'len', 'keys', 'contains', 'eq', 'lappend', 'lset']


def paths_of(j, pre=()):
    """all paths into a JSON literal (approximate shadow of the object state, used only to aim operations)"""
    out = [list(pre)]
    if isinstance(j, dict):
        for k, v in j.items():
            out += paths_of(v, pre + (k,))
    elif isinstance(j, list):
        for i, v in enumerate(j):
            out += paths_of(v, pre + (i if i % 2 == 0 else i - len(j),))
    return out


def shadow_apply(sh, op):
    """keep an approximate JSON shadow so that later operations aim at existing places; errors are ignored"""
    try:
        name, p = op[0], op[1]
        t = sh
        for e in p:
            t = t[e]
        if name in ('setitem', 'setattr', 'setdefault'):
            if name != 'setdefault' or op[2] not in t:
                t[op[2]] = fresh(op[3])
        elif name in ('delitem', 'delattr', 'pop'):
            del t[op[2]]
        elif name == 'update':
            t.update(fresh(op[2]))
        elif name == 'clear':
            t.clear()
        elif name == 'lappend':
            t.append(fresh(op[2]))
        elif name == 'lset':
            t[op[2]] = fresh(op[3])
        elif name == 'popitem':
            del t[next(iter(t))]
    except Exception:
        pass


def gen_attr_case(rng, nops, p_res=0.0):
    d = rand_dict(rng, 3, p_res)
    if rng.random() < 0.5:
        d.setdefault('a', {'b': {'c': 1}, 'l': [{'x': 1}, [2]]})
    sh = fresh(d)
    ops = []
    for _ in range(nops):
        ps = paths_of(sh)
        r = rng.random()
        if r < 0.75:
            # aim at a mapping or list that exists
            good = []
            for p in ps:
                t = sh
                for e in p:
                    t = t[e]
                if isinstance(t, (dict, list)):
                    good.append((p, t))
            p, t = rng.choice(good)
        else:
            p = rng.choice(ps)
            t = None
            if rng.random() < 0.3:
                p = p + [rand_key(rng) if rng.random() < 0.6 else rng.choice([0, -1, 3])]
        if isinstance(t, list):
            name = rng.choice(['lappend', 'lset', 'len', 'eq', 'getitem', 'setitem'])
        elif t is None and rng.random() < 0.8:
            name = rng.choice(['setitem', 'delitem', 'getitem', 'len', 'eq'])
        elif any(isinstance(e, int) for e in p) and rng.random() < 0.85:      # a plain dict inside a list: no attribute access
            name = rng.choice([n for n in ATTR_OPS[:-2] if n not in ('setattr', 'getattr', 'delattr')])
        else:
            name = rng.choice(ATTR_OPS[:-2])
        ex = list(t.keys()) if isinstance(t, dict) and t else []
        k = rng.choice(ex) if ex and rng.random() < 0.6 else rand_key(rng, p_res)
        if name in ('setitem', 'setattr', 'setdefault'):
            op = [name, p, k, rand_lit(rng, 2, p_res)]
        elif name in ('delitem', 'delattr', 'getitem', 'getattr', 'pop', 'contains'):
            op = [name, p, k]
        elif name == 'get':
            op = [name, p, k, rand_lit(rng, 1)]
        elif name == 'update':
            op = [name, p, rand_dict(rng, 2, p_res)]
        elif name == 'eq':
            tt = sh
            try:
                for e in p:
                    tt = tt[e]
            except Exception:
                tt = None
            cand = fresh(tt) if rng.random() < 0.6 else rand_lit(rng, 2)
            if isinstance(cand, dict) and rng.random() < 0.5:
                # same length, key sets differ only in a key whose value is None (a missing key is not a None value)
                r2 = rng.random()
                if cand and r2 < 0.5:
                    k0 = rng.choice(list(cand))
                    cand = {('zz_' + k if k == k0 else k): (None if k == k0 else v) for k, v in cand.items()}
                    if r2 < 0.25:
                        ops.append(['setitem', p, k0, None])
                        shadow_apply(sh, ops[-1])
                else:
                    ops.append(['setitem', p, 'nk', None])
                    shadow_apply(sh, ops[-1])
                    cand = dict(fresh(nav(sh, p)) if isinstance(tt, dict) else cand)
                    if 'nk' in cand:
                        del cand['nk']
                        cand['nk2'] = None
            op = [name, p, cand]
        elif name == 'lappend':
            op = [name, p, rand_lit(rng, 2, p_res)]
        elif name == 'lset':
            op = [name, p, rng.choice([0, -1, 1, 5]), rand_lit(rng, 2, p_res)]
        else:
            op = [name, p]
        ops.append(op)
        shadow_apply(sh, op)
    c = {'kind': 'attr', 'd': d, 'ops': ops}
    if rng.random() < 0.5:
        c['mapkind'] = rng.choice(MAPKINDS[1:] + ['mix', 'mix'])
    return c


def nav(o, p):
    for e in p:
        o = o[e]
    return o


def attr_do(root, op, mapkind=None):
    name, p = op[0], op[1]
    keypath = not any(isinstance(e, int) for e in p)

    def fresh(j, _f=globals()['fresh']):
        # the target of an int-free path is an Attr (an Attr never holds a plain dict), so any Mapping kind must be converted
        return wrap_kind(_f(j), mapkind) if keypath and name in ('setitem', 'setattr', 'setdefault', 'update', 'get', 'eq') else _f(j)
    t = nav(root, p)
    if name == 'setitem':
        t[op[2]] = fresh(op[3])
        return None
    if name == 'setattr':
        setattr(t, op[2], fresh(op[3]))
        return None
    if name == 'delitem':
        del t[op[2]]
        return None
    if name == 'delattr':
        delattr(t, op[2])
        return None
    if name == 'getitem':
        return msnap(t[op[2]])
    if name == 'getattr':
        return msnap(getattr(t, op[2]))
    if name == 'get':
        return msnap(t.get(op[2], fresh(op[3])))
    if name == 'pop':
        return msnap(t.pop(op[2]))
    if name == 'popitem':
        k, v = t.popitem()
        return [k, msnap(v)]
    if name == 'setdefault':
        return msnap(t.setdefault(op[2], fresh(op[3])))
    if name == 'clear':
        t.clear()
        return None
    if name == 'update':
        t.update(fresh(op[2]))
        return None
    if name == 'len':
        return len(t)
    if name == 'keys':
        ks = list(t)
        assert ks == list(t.keys()) == [k for k, _ in t.items()]
        return ks
    if name == 'contains':
        return op[2] in t
    if name == 'eq':
        d = fresh(op[2])
        r = (t == d)
        assert (d == t) == r and (t != d) == (not r), 'asymmetric =='
        return bool(r)
    if name == 'lappend':
        t.append(fresh(op[2]))
        return None
    if name == 'lset':
        t[op[2]] = fresh(op[3])
        return None
    raise RuntimeError(name)


def impl_attr(case):
    from sugar.core.meta import Meta
    import framework as F
    mk = case.get('mapkind')
    x = Meta(wrap_kind(fresh(case['d']), mk))
    res = []
    for op in case['ops']:
        try:
            res.append(attr_do(x, op, mk))
        except AssertionError:
            raise
        except Exception as e:
            res.append(F.canon_exc(e))
    pl = to_plain(x)
    return [res, msnap(x), bool(x == pl) and bool(pl == x)]


def coq_op(op):
    name, p = op[0], coq_path(op[1])
    if name in ('setitem', 'setattr', 'setdefault', 'get'):
        c = {'setitem': 'OSetItem', 'setattr': 'OSetAttr', 'setdefault': 'OSetDefault', 'get': 'OGet'}[name]
        return '(%s %s %s %s)' % (c, p, coq_bs(op[2]), coq_tree(op[3]))
    if name in ('delitem', 'delattr', 'getitem', 'getattr', 'pop', 'contains'):
        c = {'delitem': 'ODelItem', 'delattr': 'ODelAttr', 'getitem': 'OGetItem', 'getattr': 'OGetAttr', 'pop': 'OPop',
             'contains': 'OContains'}[name]
        return '(%s %s %s)' % (c, p, coq_bs(op[2]))
    if name in ('update', 'eq', 'lappend'):
        c = {'update': 'OUpdate', 'eq': 'OEq', 'lappend': 'OListAppend'}[name]
        return '(%s %s %s)' % (c, p, coq_tree(op[2]))
    if name == 'lset':
        return '(OListSet %s %s %s)' % (p, coq_z(op[2]), coq_tree(op[3]))
    c = {'popitem': 'OPopItem', 'clear': 'OClear', 'len': 'OLen', 'keys': 'OKeys'}[name]
    return '(%s %s)' % (c, p)



# ----------------------------------------------------------------------------- kind 'heap'

NREGS = 4


def _paths_to(j, want):
    out = []
    for p in paths_of(j):
        t = j
        for e in p:
            t = t[e]
        if want(t):
            out.append(p)
    return out


def gen_heap_case(rng, nops):
    sh = [None] * NREGS
    ops = []

    def setregs():
        return [i for i in range(NREGS) if sh[i] is not None]

    for n in range(nops):
        live = setregs()
        r = rng.random()
        if not live or r < 0.12:
            i = rng.randrange(NREGS)
            d = rand_dict(rng, 3)
            if rng.random() < 0.7:
                d.setdefault('a', {'b': {'c': 1}, 'l': [{'x': 1}, [2]]})
            ops.append(['new', i, d])
            sh[i] = fresh(d)
            continue
        i = rng.choice(live)
        j = rng.choice(live)
        is_c = lambda t: isinstance(t, (dict, list))
        if r < 0.24:
            k = rng.randrange(NREGS)
            ops.append(['copy', k, j])
            sh[k] = fresh(sh[j])
        elif r < 0.36:
            k = rng.randrange(NREGS)
            q = rng.choice(_paths_to(sh[j], lambda t: isinstance(t, dict))) if rng.random() < 0.9 else rng.choice(paths_of(sh[j]))
            ops.append(['wrap', k, j, q])
            try:
                t = nav(sh[j], q)
                if isinstance(t, dict):
                    sh[k] = fresh(t)
            except Exception:
                pass
        elif r < 0.52:
            p = rng.choice(_paths_to(sh[i], lambda t: isinstance(t, dict))) if rng.random() < 0.9 else rng.choice(paths_of(sh[i]))
            o = ['setitem', p, rand_key(rng), rand_lit(rng, 2)]
            ops.append(['setlit', i, p, o[2], o[3]])
            shadow_apply(sh[i], o)
        elif r < 0.72:
            p = rng.choice(_paths_to(sh[i], lambda t: isinstance(t, dict))) if rng.random() < 0.9 else rng.choice(paths_of(sh[i]))
            qs = _paths_to(sh[j], is_c)
            if i == j and rng.random() < 0.9:      # not an ancestor of the target (that would be a cycle)
                qs = [q for q in qs if q != p[:len(q)]]
            q = rng.choice(qs) if qs and rng.random() < 0.85 else rng.choice(paths_of(sh[j]))
            k = rand_key(rng)
            ops.append(['setref', i, p, k, j, q])
            try:
                shadow_apply(sh[i], ['setitem', p, k, fresh(nav(sh[j], q))])
            except Exception:
                pass
        elif r < 0.78:
            p = rng.choice(_paths_to(sh[i], lambda t: isinstance(t, dict)))
            t = nav(sh[i], p)
            k = rng.choice(list(t)) if t and rng.random() < 0.8 else rand_key(rng)
            ops.append(['del', i, p, k])
            shadow_apply(sh[i], ['delitem', p, k])
        elif r < 0.84:
            ps = _paths_to(sh[i], lambda t: isinstance(t, list))
            if not ps and rng.random() < 0.9:
                continue
            p = rng.choice(ps) if ps else []
            v = rand_lit(rng, 2)
            ops.append(['applit', i, p, v])
            shadow_apply(sh[i], ['lappend', p, v])
        elif r < 0.90:
            ps = _paths_to(sh[i], lambda t: isinstance(t, list))
            if not ps and rng.random() < 0.9:
                continue
            p = rng.choice(ps) if ps else []
            qs = _paths_to(sh[j], is_c)
            if i == j and rng.random() < 0.9:
                qs = [q for q in qs if q != p[:len(q)]]
            q = rng.choice(qs) if qs else []
            ops.append(['appref', i, p, j, q])
            try:
                shadow_apply(sh[i], ['lappend', p, fresh(nav(sh[j], q))])
            except Exception:
                pass
        else:
            ps, qs = _paths_to(sh[i], is_c), _paths_to(sh[j], is_c)
            p = rng.choice(ps)
            q = p if (rng.random() < 0.5 and p in qs) else rng.choice(qs)
            ops.append(['is', i, p, j, q])
    return {'kind': 'heap', 'ops': ops}


def heap_do(regs, op):
    from sugar.core.meta import Meta
    name = op[0]
    if name == 'new':
        regs[op[1]] = Meta(fresh(op[2]))
    elif name == 'copy':
        regs[op[1]] = regs[op[2]].copy()
    elif name == 'wrap':
        regs[op[1]] = Meta(nav(regs[op[2]], op[3]))
    elif name == 'setlit':
        nav(regs[op[1]], op[2])[op[3]] = fresh(op[4])
    elif name == 'setref':
        v = nav(regs[op[4]], op[5])
        nav(regs[op[1]], op[2])[op[3]] = v
    elif name == 'del':
        del nav(regs[op[1]], op[2])[op[3]]
    elif name == 'applit':
        nav(regs[op[1]], op[2]).append(fresh(op[3]))
    elif name == 'appref':
        v = nav(regs[op[3]], op[4])
        nav(regs[op[1]], op[2]).append(v)
    elif name == 'is':
        a, b = nav(regs[op[1]], op[2]), nav(regs[op[3]], op[4])
        if isinstance(a, (dict, list)) or hasattr(a, '__dict__'):
            if isinstance(b, (dict, list)) or hasattr(b, '__dict__'):
                return a is b
        return 'scalar'
    else:
        raise RuntimeError(name)
    return None


def impl_heap(case):
    import framework as F
    regs = [None] * NREGS
    res = []
    for op in case['ops']:
        try:
            res.append(heap_do(regs, op))
        except Exception as e:
            res.append(F.canon_exc(e))
    return [res, [msnap(r) for r in regs]]


def coq_hop(op):
    from framework import coq_nat
    name = op[0]
    if name == 'new':
        return '(HNew %s %s)' % (coq_nat(op[1]), coq_tree(op[2]))
    if name == 'copy':
        return '(HCopy %s %s)' % (coq_nat(op[1]), coq_nat(op[2]))
    if name == 'wrap':
        return '(HWrap %s %s %s)' % (coq_nat(op[1]), coq_nat(op[2]), coq_path(op[3]))
    if name == 'setlit':
        return '(HSetLit %s %s %s %s)' % (coq_nat(op[1]), coq_path(op[2]), coq_bs(op[3]), coq_tree(op[4]))
    if name == 'setref':
        return '(HSetRef %s %s %s %s %s)' % (coq_nat(op[1]), coq_path(op[2]), coq_bs(op[3]), coq_nat(op[4]), coq_path(op[5]))
    if name == 'del':
        return '(HDel %s %s %s)' % (coq_nat(op[1]), coq_path(op[2]), coq_bs(op[3]))
    if name == 'applit':
        return '(HAppendLit %s %s %s)' % (coq_nat(op[1]), coq_path(op[2]), coq_tree(op[3]))
    if name == 'appref':
        return '(HAppendRef %s %s %s %s)' % (coq_nat(op[1]), coq_path(op[2]), coq_nat(op[3]), coq_path(op[4]))
    if name == 'is':
        return '(HIs %s %s %s %s)' % (coq_nat(op[1]), coq_path(op[2]), coq_nat(op[3]), coq_path(op[4]))
    raise RuntimeError(name)

# ----------------------------------------------------------------------------- kind 'obj' (object-identity model, C18_Obj.v)
# Programs over 4 variables holding REAL BioSeq / BioBasket / FeatureList / Meta objects, run through the public API, and the same
# programs run by the capability-checked interpreter of coq/lib/C18_Obj.v.  Compared: the result of every step (for an object:
# which variables it IS afterwards) and the whole object graph behind the variables with identities numbered in first-visit order
# (so equal dumps = isomorphic graphs: deep snapshot + every is / id() fact at once).

OBJ_KEYS = ['a', 'b', 'n', 'name', 'note', 'gene', '_x']


class _OOD(Exception):
    """the operation is outside the modelled fragment (the model answers OutOfDomain as well)"""


def _is_obj(v):
    return not (v is None or isinstance(v, (bool, int, str)))


def o_slots(o):
    """public named slots of an object, in the order used by the model"""
    import collections.abc
    from sugar import BioSeq, BioBasket
    from sugar.core.fts import Feature, Location
    if isinstance(o, BioSeq):
        return [('data', o.data), ('meta', o.meta), ('type', o.type)]
    if isinstance(o, BioBasket):
        return [('meta', o.meta)]
    if isinstance(o, Feature):
        return [('locs', o.locs), ('meta', o.meta)]
    if isinstance(o, Location):
        return [('defect', int(o.defect)), ('meta', o.meta), ('start', o.start), ('stop', o.stop), ('strand', str(o.strand.value))]
    if isinstance(o, collections.abc.Mapping):
        return [(k, v) for k, v in o.items()]
    return []


def o_elems(o):
    from sugar import BioBasket
    from sugar.core.fts import FeatureList, LocationTuple
    if isinstance(o, (BioBasket, FeatureList)):
        return list(o.data)
    if isinstance(o, (LocationTuple, list)):
        return list(o)
    return []


def o_cls(o):
    import collections.abc
    from sugar import BioSeq, BioBasket
    from sugar.core.fts import Feature, FeatureList, Location, LocationTuple
    from sugar.core.meta import Attr, Meta
    for c, n in ((BioSeq, 'Seq'), (BioBasket, 'Basket'), (FeatureList, 'Fts'), (Feature, 'Feat'), (LocationTuple, 'Locs'),
                 (Location, 'Loc'), (Meta, 'Meta'), (Attr, 'Attr'), (collections.abc.Mapping, 'dict'), (list, 'list')):
        if isinstance(o, c):
            return n
    return '?' + type(o).__name__


def o_nav(o, q):
    for e in q:
        if not _is_obj(o):
            raise _OOD('nav through a scalar')
        if isinstance(e, str):
            d = dict(o_slots(o))
            if e not in d:
                raise _OOD('no slot %r' % e)
            o = d[e]
        else:
            if o_cls(o) not in ('Basket', 'Fts', 'Locs', 'list'):
                raise _OOD('index into %s' % o_cls(o))
            es = o_elems(o)
            if not -len(es) <= e < len(es):
                raise _OOD('index')
            o = es[e]
    return o


def o_dump(regs):
    order, seen = [], {}
    stack = [r for r in regs if _is_obj(r)]
    while stack:
        o = stack.pop(0)
        if id(o) in seen:
            continue
        seen[id(o)] = len(order)
        order.append(o)
        stack = [v for _, v in o_slots(o) if _is_obj(v)] + [v for v in o_elems(o) if _is_obj(v)] + stack
    rv = lambda v: [seen[id(v)]] if _is_obj(v) else v
    return [[rv(r) for r in regs],
            [[o_cls(o), [[k, rv(v)] for k, v in o_slots(o)], [rv(v) for v in o_elems(o)]] for o in order]]


def mk_feature(lit):
    from sugar.core.fts import Feature, Location
    locs = [Location(a, b, st, df, meta=fresh(m)) for a, b, st, df, m in lit['locs']]
    return Feature(lit['type'], locs, meta=fresh(lit['meta']))


def mk_seq(lit):
    from sugar import BioSeq
    s = BioSeq(lit['data'], meta=fresh(lit['meta']))
    if lit['fts']:            # a sequence without features keeps NO 'fts' item (like one read from FASTA): BioSeq.fts creates it lazily
        s.fts = [mk_feature(f) for f in lit['fts']]
    return s


def mk_obj(lit):
    from sugar import BioBasket
    from sugar.core.fts import FeatureList
    from sugar.core.meta import Meta
    k = lit['k']
    if k == 'seq':
        return mk_seq(lit)
    if k == 'basket':
        return BioBasket([mk_seq(x) for x in lit['seqs']], meta=fresh(lit['meta']))
    if k == 'fts':
        return FeatureList([mk_feature(f) for f in lit['fts']])
    if k == 'meta':
        return Meta(fresh(lit['meta']))
    raise ValueError(k)


def obj_do(regs, op):
    """one step on the real objects, public API only; returns the result of the Python expression"""
    import operator, collections.abc
    from sugar import BioSeq, BioBasket
    from sugar.core.fts import FeatureList
    from sugar.core.meta import Attr
    name = op[0]
    if name == 'new':
        regs[op[1]] = r = mk_obj(op[2])
        return r
    if name == 'clr':
        regs[op[1]] = None
        return None
    if name == 'pure':
        _, i, fn, j, q = op
        x = o_nav(regs[j], q)
        if not _is_obj(x):
            raise _OOD('scalar receiver')
        f = fn[0]
        if f == 'get':
            r = x
        elif f == 'copy':
            r = x.copy() if hasattr(x, 'copy') and not isinstance(x, (list, dict)) else _raise_ood()
        elif f == 'slice':
            if not isinstance(x, (BioSeq, BioBasket, FeatureList)):
                raise _OOD('slice')
            r = x[fn[1]:fn[2]]
        elif f == 'addlit':
            if not isinstance(x, BioSeq):
                raise _OOD('add')
            r = x + fn[1]
        elif f == 'filterlen':
            if not isinstance(x, BioBasket):
                raise _OOD('filter')
            r = x.filter(len_gt=fn[1])
        elif f == 'basketfts':
            if not isinstance(x, BioBasket) or any('fts' not in s_.meta for s_ in x):
                raise _OOD('basket.fts')          # the getter of a sequence without the item creates it: not modelled
            r = x.fts
        else:
            raise ValueError(f)
        regs[i] = r
        return r
    if name == 'inpl':
        _, d, fn, j, q = op
        x = o_nav(regs[j], q)
        f = fn[0]
        if f in ('reverse', 'lower', 'upper', 'complement', 'rc'):
            if not isinstance(x, (BioSeq, BioBasket)):
                raise _OOD(f)
            r = getattr(x.str, f)() if f in ('lower', 'upper') else getattr(x, f)()
        elif f == 'iaddlit':
            if not isinstance(x, BioSeq):
                raise _OOD(f)
            r = operator.iadd(x, fn[1])
        elif f == 'sortlen':
            if not isinstance(x, BioBasket):
                raise _OOD(f)
            r = x.sort(len)
        elif f == 'filterlen':
            if not isinstance(x, BioBasket):
                raise _OOD(f)
            r = x.filter(inplace=True, len_gt=fn[1])
        else:
            raise ValueError(f)
        if d is not None:
            regs[d] = r
        return r
    if name == 'mut':
        _, fn, j, q = op
        x = o_nav(regs[j], q)
        f = fn[0]
        if f == 'setlit':
            if not isinstance(x, collections.abc.MutableMapping):
                raise _OOD(f)
            x[fn[1]] = fresh(fn[2])
        elif f == 'delkey':
            if not isinstance(x, collections.abc.MutableMapping):
                raise _OOD(f)
            del x[fn[1]]
        elif f == 'setid':
            if not isinstance(x, BioSeq):
                raise _OOD(f)
            x.id = fn[1]
        elif f == 'appendseq':
            if not isinstance(x, BioBasket):
                raise _OOD(f)
            x.append(mk_seq(fn[1]))
        elif f == 'appendfeat':
            if not isinstance(x, FeatureList):
                raise _OOD(f)
            x.append(mk_feature(fn[1]))
        elif f == 'appendlit':
            if type(x) is not list:
                raise _OOD(f)
            x.append(fresh(fn[1]))
        elif f == 'delidx':
            if not (isinstance(x, (BioBasket, FeatureList)) or type(x) is list):
                raise _OOD(f)
            del x[fn[1]]
        elif f == 'clear':
            if not (isinstance(x, (BioBasket, FeatureList)) or type(x) is list):
                raise _OOD(f)
            x.clear()
        else:
            raise ValueError(f)
        return None
    if name == 'bin':
        _, d, fn, j, q, j2, q2 = op
        a, b = o_nav(regs[j], q), o_nav(regs[j2], q2)
        if not (_is_obj(a) and _is_obj(b)):
            raise _OOD('scalar operand')
        f = fn[0]
        if f == 'is':
            r = a is b
        elif f == 'extend':
            if not ((isinstance(a, BioBasket) and isinstance(b, BioBasket)) or (isinstance(a, FeatureList) and isinstance(b, FeatureList))):
                raise _OOD(f)
            r = operator.iadd(a, b)
        elif f == 'setfts':
            if not (isinstance(a, BioSeq) and isinstance(b, FeatureList)):
                raise _OOD(f)
            a.fts = b
            r = None
        elif f == 'getfts':
            if not isinstance(a, BioSeq):
                raise _OOD(f)
            r = a.fts                      # the getter: lazily stores a FRESH FeatureList in a sequence that has none
        elif f == 'basketsetfts':
            if not (isinstance(a, BioBasket) and isinstance(b, FeatureList)):
                raise _OOD(f)
            if not all(isinstance(s_.meta.get('id'), str) for s_ in a) or \
                    not all(ft.meta.get('seqid') is None or isinstance(ft.meta.get('seqid'), str) for ft in b):
                raise _OOD(f)
            a.fts = b
            r = None
        elif f == 'setitem':
            if not (isinstance(a, BioBasket) and isinstance(b, BioSeq)):
                raise _OOD(f)
            a[fn[1]] = b
            r = None
        elif f == 'setref':
            if not isinstance(a, Attr) or (isinstance(b, collections.abc.Mapping) and not isinstance(b, Attr)):
                raise _OOD(f)
            a[fn[1]] = b
            r = None
        else:
            raise ValueError(f)
        if d is not None:
            regs[d] = r
        return r
    raise ValueError(name)


def _raise_ood():
    raise _OOD('copy')


def _obj_oracle(op, regs_before, before, regs, r):
    """contracts of one step, from first principles on the real objects (independent of the Coq model)"""
    name = op[0]
    if name == 'inpl':
        x = o_nav(regs_before[op[3]], op[4])
        if r is not x:
            return 'in-place operation %s did not return the receiver (a %s%s): returned %s' % (
                op[2][0], o_cls(x), ' with %d elements' % len(o_elems(x)) if o_cls(x) in ('Basket', 'Fts') else '', type(r).__name__)
    if name == 'pure' and op[2][0] != 'get':
        x = o_nav(regs_before[op[3]], op[4])
        if r is x:
            return 'not-in-place operation %s returned its receiver' % op[2][0]
        if o_dump(regs_before) != before:
            return 'not-in-place operation %s changed an existing object (receiver or something reachable from a variable)' % op[2][0]
        if op[2][0] == 'copy':
            common = set(reach(x)) & set(reach(r))
            if common:
                return 'copy() shares a mutable %s object with its operand' % type(reach(x)[sorted(common)[0]]).__name__
            if o_dump([r])[1] != o_dump([x])[1]:
                return 'copy() is not structurally equal to its operand (object graph incl. internal sharing)'
    return None


def impl_obj(case):
    import framework as F, warnings
    regs = [None] * NREGS
    res = []
    with warnings.catch_warnings():
        warnings.simplefilter('ignore')
        for op in case['ops']:
            try:
                regs_before = list(regs)
                before = o_dump(regs_before) if op[0] == 'pure' else None
                r = obj_do(regs, op)
                why = _obj_oracle(op, regs_before, before, regs, r)
                if why:
                    res.append({'viol': why})
                else:
                    res.append(['obj'] + [r is x for x in regs] if _is_obj(r) else r)
            except _OOD:
                res.append({'e': 'OutOfDomain'})
            except Exception as e:
                res.append(F.canon_exc(e))
        return [res, o_dump(regs)]


# ---- generator: the program is grown while it runs on real objects, so that paths and receivers exist ----

def r_odata(rng):
    n = rng.choice([0, 1, 2, 3, 5, 8, 12])
    r = rng.random()
    alpha = 'ACGT' if r < 0.65 else 'ACGTacgtN-' if r < 0.9 else 'ACGU'      # RNA: complement() takes the U <-> T detour
    return ''.join(rng.choice(alpha) for _ in range(n))


def r_ometa(rng, depth=2, with_id=None):
    d = {}
    if with_id is not None:
        d['id'] = with_id
    for _ in range(rng.randint(0, 3)):
        k = rng.choice(OBJ_KEYS)
        r = rng.random()
        if depth > 0 and r < 0.35:
            d[k] = r_ometa(rng, depth - 1)
        elif depth > 0 and r < 0.5:
            d[k] = [rng.choice([1, 'x', None])] + ([r_ometa(rng, 0)] if rng.random() < 0.5 else [])
        else:
            d[k] = rng.choice([1, 2, 'x', 'ACGT', None, True, -3])
    return d


def r_ofeat(rng, seqid):
    strand = rng.choice('++-.?')
    n = rng.choice([1, 1, 2, 3])
    pos, locs = rng.randint(0, 3), []
    for _ in range(n):
        a = pos + rng.randint(0, 3)
        b = a + rng.randint(1, 5)
        pos = b + rng.randint(0, 2)
        locs.append([a, b, strand, rng.choice([0, 0, 1, 2]), r_ometa(rng, 1) if rng.random() < 0.4 else {}])
    if strand == '-':
        locs.reverse()
    m = r_ometa(rng, 1)
    m['seqid'] = seqid
    if rng.random() < 0.15:
        m['type'] = 'old'
    return {'type': rng.choice(['cds', 'gene', 'exon', None]), 'locs': locs, 'meta': m}


def r_oseq(rng, sid=None):
    sid = sid if sid is not None else rng.choice(['s1', 's2', 'q'])
    meta = r_ometa(rng, 2, with_id=sid if rng.random() < 0.9 else None)
    return {'k': 'seq', 'data': r_odata(rng), 'meta': meta, 'fts': [r_ofeat(rng, sid) for _ in range(rng.choice([0, 0, 1, 2]))]}


def r_oobj(rng):
    r = rng.random()
    if r < 0.3:
        return r_oseq(rng)
    if r < 0.75:
        return {'k': 'basket', 'seqs': [r_oseq(rng, 's%d' % i) for i in range(rng.choice([0, 1, 2, 2, 3, 4]))], 'meta': r_ometa(rng, 2)}
    if r < 0.9:
        return {'k': 'fts', 'fts': [r_ofeat(rng, rng.choice(['s0', 's1', 's1', 's2', 'q'])) for _ in range(rng.choice([0, 1, 2, 3, 4]))]}
    return {'k': 'meta', 'meta': r_ometa(rng, 3)}


def o_targets(o, limit=80):
    """(path, object) for the objects reachable from o (first path found), breadth first"""
    out, seen, todo = [], set(), [([], o)]
    while todo and len(out) < limit:
        p, x = todo.pop(0)
        if not _is_obj(x) or id(x) in seen:
            continue
        seen.add(id(x))
        out.append((p, x))
        for k, v in o_slots(x):
            todo.append((p + [k], v))
        es = o_elems(x)
        for i, v in enumerate(es):
            todo.append((p + [i if (i + len(p)) % 3 else i - len(es)], v))
    return out


OBJ_PURE = [['copy'], ['copy'], ['slice'], ['slice'], ['addlit'], ['filterlen'], ['basketfts'], ['get'], ['get']]
OBJ_INPL = ['reverse', 'lower', 'upper', 'complement', 'rc', 'iaddlit', 'sortlen', 'filterlen']
OBJ_MUT = ['setlit', 'setlit', 'delkey', 'setid', 'appendseq', 'appendfeat', 'appendlit', 'delidx', 'clear']
OBJ_BIN = ['is', 'is', 'extend', 'setfts', 'setref', 'setitem', 'basketsetfts', 'getfts', 'getfts', 'getfts']
OBJ_WANT = {'basketfts': ('Basket',), 'slice': ('Seq', 'Basket', 'Fts'), 'addlit': ('Seq',), 'filterlen': ('Basket',), 'reverse': ('Seq', 'Basket'),
            'lower': ('Seq', 'Basket'), 'upper': ('Seq', 'Basket'), 'complement': ('Seq', 'Basket'), 'rc': ('Seq', 'Basket'), 'iaddlit': ('Seq',), 'sortlen': ('Basket',),
            'setlit': ('Meta', 'Attr', 'dict'), 'delkey': ('Meta', 'Attr', 'dict'), 'setid': ('Seq',), 'appendseq': ('Basket',),
            'appendfeat': ('Fts',), 'appendlit': ('list',), 'delidx': ('Basket', 'Fts', 'list'), 'clear': ('Basket', 'Fts', 'list'),
            'copy': ('Seq', 'Basket', 'Fts', 'Meta', 'Attr')}


def _pick(rng, regs, want, live):
    """a variable and a path to an object of one of the wanted classes (None: not found)"""
    for _ in range(4):
        j = rng.choice(live)
        ts = [(p, x) for p, x in o_targets(regs[j]) if want is None or o_cls(x) in want]
        if ts:
            p, x = rng.choice(ts) if rng.random() < 0.8 else ts[0]
            return j, p, x
    return None


def gen_obj_case(rng, nops):
    import warnings
    regs = [None] * NREGS
    ops = []
    with warnings.catch_warnings():
        warnings.simplefilter('ignore')
        try:
            for _ in range(nops):
                live = [i for i in range(NREGS) if _is_obj(regs[i])]
                r = rng.random()
                if not live or r < 0.1:
                    op = ['new', rng.randrange(NREGS), r_oobj(rng)]
                elif r < 0.13:
                    op = ['clr', rng.randrange(NREGS)]
                elif r < 0.4:
                    fn = list(rng.choice(OBJ_PURE))
                    got = _pick(rng, regs, OBJ_WANT.get(fn[0]), live)
                    if got is None:
                        continue
                    j, p, x = got
                    if fn[0] == 'slice':
                        n = len(x)
                        fn += [rng.choice([0, 0, 1, -1, 2, -n - 1]), rng.choice([n, n, n - 1, 1, -1, 0, n + 3])]
                    elif fn[0] == 'addlit':
                        fn.append(rng.choice(['ACG', '', 'T', 'acg']))
                    elif fn[0] == 'filterlen':
                        fn.append(rng.choice([0, 1, 2, 3, 5, 100, -1]))
                    op = ['pure', rng.randrange(NREGS), fn, j, p]
                elif r < 0.62:
                    f = rng.choice(OBJ_INPL)
                    got = _pick(rng, regs, OBJ_WANT[f], live)
                    if got is None:
                        continue
                    j, p, x = got
                    fn = [f]
                    if f == 'iaddlit':
                        fn.append(rng.choice(['ACG', '', 'TT']))
                    elif f == 'filterlen':
                        fn.append(rng.choice([0, 1, 2, 3, 5, 100, -1]))
                    op = ['inpl', rng.choice([None, None] + list(range(NREGS))), fn, j, p]
                elif r < 0.85:
                    f = rng.choice(OBJ_MUT)
                    got = _pick(rng, regs, OBJ_WANT[f], live)
                    if got is None:
                        continue
                    j, p, x = got
                    fn = [f]
                    if f == 'setlit':
                        fn += [rng.choice(OBJ_KEYS), rng.choice([1, 'v', None, r_ometa(rng, 1), [1, {'a': {}}]])]
                    elif f == 'delkey':
                        ks = [k for k, _ in o_slots(x) if k not in ('fts',)]
                        fn.append(rng.choice(ks) if ks and rng.random() < 0.85 else rng.choice(OBJ_KEYS))
                    elif f == 'setid':
                        fn.append(rng.choice(['z', 's1', '']))
                    elif f == 'appendseq':
                        fn.append(r_oseq(rng))
                    elif f == 'appendfeat':
                        fn.append(r_ofeat(rng, 's1'))
                    elif f == 'appendlit':
                        fn.append(rng.choice([1, 'v', None, {'a': 1}, [2]]))
                    elif f == 'delidx':
                        n = len(o_elems(x))
                        fn.append(rng.choice([0, -1, n - 1, n, 1]))
                    op = ['mut', fn, j, p]
                else:
                    f = rng.choice(OBJ_BIN)
                    wa, wb = {'is': (None, None), 'extend': (('Basket', 'Fts'), None), 'setfts': (('Seq',), ('Fts',)),
                              'setref': (('Meta', 'Attr'), ('Attr', 'list', 'Fts', 'Meta')), 'setitem': (('Basket',), ('Seq',)), 'basketsetfts': (('Basket',), ('Fts',)), 'getfts': (('Seq',), None)}[f]
                    ga = _pick(rng, regs, wa, live)
                    if ga is None:
                        continue
                    if f == 'extend':
                        wb = (o_cls(ga[2]),)
                    gb = _pick(rng, regs, wb, live)
                    if gb is None:
                        continue
                    if (f == 'is' and rng.random() < 0.4) or f == 'getfts':
                        gb = ga
                    fn = [f] + ([rng.choice(OBJ_KEYS)] if f == 'setref' else [])
                    if f == 'setitem':
                        n = len(o_elems(ga[2]))
                        fn.append(rng.choice([0, -1, n - 1, n, 1]))
                    op = ['bin', rng.choice([None] + list(range(NREGS))) if f in ('extend', 'getfts') else None, fn, ga[0], ga[1], gb[0], gb[1]]
                ops.append(op)
                try:
                    obj_do(regs, op)
                except Exception:
                    pass
        except Exception:
            pass              # a broken library must not break the generator: the program so far is the case
    return {'kind': 'obj', 'ops': ops}


def coq_featlit(f):
    from framework import coq_opt
    locs = coq_list(['(LocLit %s %s %s %s %s)' % (coq_z(a), coq_z(b), coq_bs(st), coq_z(df), coq_tree(m)) for a, b, st, df, m in f['locs']])
    return '(FeatLit %s %s %s)' % (coq_opt(f['type'], coq_bs), locs, coq_tree(f['meta']))


def coq_seqlit(s):
    return '(SeqLit %s %s %s)' % (coq_bs(s['data']), coq_tree(s['meta']), coq_list([coq_featlit(f) for f in s['fts']]))


def coq_objlit(o):
    k = o['k']
    if k == 'seq':
        return '(LSeq %s)' % coq_seqlit(o)
    if k == 'basket':
        return '(LBasket %s %s)' % (coq_list([coq_seqlit(x) for x in o['seqs']]), coq_tree(o['meta']))
    if k == 'fts':
        return '(LFts %s)' % coq_list([coq_featlit(f) for f in o['fts']])
    return '(LMeta %s)' % coq_tree(o['meta'])


def coq_oop(op):
    from framework import coq_nat, coq_opt
    name = op[0]
    if name == 'new':
        return '(ONew %s %s)' % (coq_nat(op[1]), coq_objlit(op[2]))
    if name == 'clr':
        return '(OClr %s)' % coq_nat(op[1])
    if name == 'pure':
        _, i, fn, j, q = op
        f = {'copy': 'PCopy', 'get': 'PGet', 'basketfts': 'PBasketFts'}.get(fn[0]) or {
            'slice': lambda: '(PSlice %s %s)' % (coq_z(fn[1]), coq_z(fn[2])), 'addlit': lambda: '(PAddLit %s)' % coq_bs(fn[1]),
            'filterlen': lambda: '(PFilterLen %s)' % coq_z(fn[1])}[fn[0]]()
        return '(OPure %s %s %s %s)' % (coq_nat(i), f, coq_nat(j), coq_path(q))
    if name == 'inpl':
        _, d, fn, j, q = op
        f = {'reverse': 'FReverse', 'lower': 'FLower', 'upper': 'FUpper', 'sortlen': 'FSortLen', 'complement': 'FComplement',
             'rc': 'FRc'}.get(fn[0]) or {
            'iaddlit': lambda: '(FIaddLit %s)' % coq_bs(fn[1]), 'filterlen': lambda: '(FFilterLen %s)' % coq_z(fn[1])}[fn[0]]()
        return '(OInpl %s %s %s %s)' % (coq_opt(d, coq_nat), f, coq_nat(j), coq_path(q))
    if name == 'mut':
        _, fn, j, q = op
        f = {'setlit': lambda: '(MSetLit %s %s)' % (coq_bs(fn[1]), coq_tree(fn[2])), 'delkey': lambda: '(MDelKey %s)' % coq_bs(fn[1]),
             'setid': lambda: '(MSetId %s)' % coq_bs(fn[1]), 'appendseq': lambda: '(MAppendSeq %s)' % coq_seqlit(fn[1]),
             'appendfeat': lambda: '(MAppendFeat %s)' % coq_featlit(fn[1]), 'appendlit': lambda: '(MAppendLit %s)' % coq_tree(fn[1]),
             'delidx': lambda: '(MDelIdx %s)' % coq_z(fn[1]), 'clear': lambda: 'MClear'}[fn[0]]()
        return '(OMut %s %s %s)' % (f, coq_nat(j), coq_path(q))
    if name == 'bin':
        _, d, fn, j, q, j2, q2 = op
        f = {'is': 'BIs', 'extend': 'BExtend', 'setfts': 'BSetFts', 'basketsetfts': 'BBasketSetFts', 'getfts': 'BGetFts'}.get(fn[0]) or (
            '(BSetItem %s)' % coq_z(fn[1]) if fn[0] == 'setitem' else '(BSetRef %s)' % coq_bs(fn[1]))
        return '(OBin %s %s %s %s %s %s)' % (coq_opt(d, coq_nat), f, coq_nat(j), coq_path(q), coq_nat(j2), coq_path(q2))
    raise RuntimeError(name)


# ----------------------------------------------------------------------------- framework API

def gen_cases(rng, tier):
    cases = []
    n = 12000 if tier == 'thorough' else 700
    for i in range(n):
        p_res = 0.15 if i % 10 == 0 else 0.0
        cases.append(gen_attr_case(rng, rng.randint(1, 12), p_res))
    for i in range(12000 if tier == 'thorough' else 500):
        cases.append(gen_heap_case(rng, rng.randint(2, 12)))
    for i in range(12000 if tier == 'thorough' else 500):
        cases.append(gen_obj_case(rng, rng.randint(2, 12)))
    return cases


def impl(case):
    if case['kind'] == 'attr':
        return impl_attr(case)
    if case['kind'] == 'heap':
        return impl_heap(case)
    if case['kind'] == 'obj':
        return impl_obj(case)
    if case['kind'] == 'history' and case.get('locmeta_nested'):
        return locmeta_nested_check()
    if case['kind'] == 'history':
        import random as _random
        why, trace = run_history(_random.Random(case['seed']), case['obj'], case['nops'], {})
        return why
    if case['kind'] == 'rewrap':
        import random as _random
        return rewrap_checks(_random.Random(case['seed']), {})
    if case['kind'] == 'f20':
        return f20_probe(case['key'])
    if case['kind'] == 'eqpair':
        return impl_eqpair(case)
    if case['kind'] == 'inplace':
        return impl_inplace(case)
    if case['kind'] == 'strns':
        return impl_strns(case)
    if case['kind'] == 'sweep':
        import random as _random
        return deep_edit_sweep(_random.Random(case['seed']), case['obj'], {})
    if case['kind'] == 'pure':
        return impl_pure(case)
    if case['kind'] == 'mapkind':
        return impl_mapkind(case)
    raise ValueError(case['kind'])


def model_term(case):
    if case['kind'] == 'attr':
        return 'out (run_C18 %s %s)' % (coq_tree(case['d']), coq_list([coq_op(o) for o in case['ops']]))
    if case['kind'] == 'heap':
        return 'out (run_C18_heap %s)' % coq_list([coq_hop(o) for o in case['ops']])
    if case['kind'] == 'obj':
        return 'out (run_C18_obj %s)' % coq_list([coq_oop(o) for o in case['ops']])
    # relational cases (replays of extra_checks): no model; the expected value is "no violation"
    return 'out (VL [VB true; %s])' % ('VL []' if case['kind'] == 'rewrap' else 'VNone')


def split_model(case, m):
    return bool(m[0]), m[1]


def agree(case, implval, modelval):
    return json.dumps(implval, sort_keys=True) == json.dumps(modelval, sort_keys=True)


def spec(case, got):
    """first-principles oracle on the implementation's result (independent of the Coq model)"""
    if isinstance(got, dict):
        return 'raised %s' % got.get('e')
    if case['kind'] == 'attr':
        res, snap, eqplain = got
        if not eqplain:
            return 'Meta object does not compare equal to the equivalent dict'
        return None
    if case['kind'] == 'obj':
        for r in got[0]:
            if isinstance(r, dict) and 'viol' in r:
                return r['viol']
        return None
    if case['kind'] == 'heap':
        return None
    # relational kinds: the implementation-side value IS the verdict (None / [] = no violation)
    if got:
        return str(got)
    return None


def nontrivial(case, got):
    if case['kind'] == 'attr':
        names = sorted(set(o[0] for o in case['ops']))
        deep = any(len(o[1]) > 0 for o in case['ops'])
        return ['attr', names, deep] if deep or len(names) > 1 else None
    if case['kind'] == 'heap':
        names = sorted(set(o[0] for o in case['ops']))
        return ['heap', names] if {'copy', 'wrap', 'setref', 'appref'} & set(names) else None
    if case['kind'] == 'obj':
        names = sorted(set(o[0] + ':' + (o[2][0] if o[0] in ('pure', 'inpl', 'bin') else o[1][0] if o[0] == 'mut' else '') for o in case['ops']))
        return ['obj', names] if len(names) > 2 else None
    return None


def histkey(case, got):
    ks = ['kind=' + case['kind'], 'nops=%d' % len(case.get('ops', []))]
    if case['kind'] == 'attr':
        ks += ['op=' + o[0] for o in case['ops']] + ['mapkind=' + str(case.get('mapkind', 'dict'))]
    if case['kind'] == 'heap':
        ks += ['hop=' + o[0] for o in case['ops']]
    if case['kind'] == 'obj':
        ks += ['oop=' + o[0] + ':' + (o[2][0] if o[0] in ('pure', 'inpl', 'bin') else o[1][0] if o[0] == 'mut' else '') for o in case['ops']]
    if case['kind'] in ('attr', 'heap', 'obj'):
        if isinstance(got, list):
            ks += ['err=' + r['e'] for r in got[0] if isinstance(r, dict) and 'e' in r]
    return ks


def _case_keys(case):
    """every mapping KEY a case uses (keys of dict literals, key arguments, key path elements) -- operation names are not keys"""
    keys = set()

    def lit(j):
        if isinstance(j, dict):
            for k, v in j.items():
                keys.add(k)
                lit(v)
        elif isinstance(j, list):
            for v in j:
                lit(v)
    if case.get('kind') == 'attr':
        lit(case.get('d'))
        for o in case.get('ops', []):
            keys.update(e for e in o[1] if isinstance(e, str))
            if o[0] in ('setitem', 'setattr', 'setdefault', 'get', 'delitem', 'delattr', 'getitem', 'getattr', 'pop', 'contains'):
                keys.add(o[2])
            for a in o[2:]:
                if isinstance(a, (dict, list)):
                    lit(a)
    elif case.get('kind') == 'heap':
        for o in case.get('ops', []):
            for a in o[1:]:
                if isinstance(a, dict):
                    lit(a)
                elif isinstance(a, list):
                    keys.update(e for e in a if isinstance(e, str))
                    lit([e for e in a if isinstance(e, (dict, list))])
                elif isinstance(a, str):
                    keys.add(a)
    return keys


def features(case, got):
    f = {'kind': case.get('kind')}
    # F20 region: a case counts only if one of its KEYS is reserved (operation names such as copy / get / clear do not)
    f['key_in_reserved_set'] = bool(case.get('reserved_key')) or any(k in MAPPING_METHODS for k in _case_keys(case))
    return f


def python_snippet(case):
    return ('import sys, json; sys.path.insert(0, "/verif/tools"); from props import c18; '
            'print(c18.impl(json.loads(%r)))' % json.dumps(case))


RULE = ('kind attr: histories of 1-12 mapping operations (item/attribute set, get, delete, update, pop, popitem, setdefault, clear, '
        'len, keys, in, ==, nested list edits) at random paths of x = Meta(d) for random nested literals d; kind heap: programs of 2-12 '
        'steps over 4 variables (Meta(d), x.copy(), Meta(x.path), assignment/append of literals and of EXISTING sub-objects, del, '
        '"is" tests) compared with the heap model on the snapshots of all variables; extra: 800 (quick) / 30000 (thorough) random '
        'histories of 1-12 public operations (227 operations on BioSeq, BioBasket, FeatureList, Feature, Location, Meta) on real objects '
        'and their copies with deep structural snapshots, id()-reachability and write-footprint checks, plus re-wrap checks of every '
        'constructor / non-in-place operation; kind obj: programs of 2-12 steps over 4 variables holding real BioSeq / BioBasket / '
        'FeatureList / Meta objects (32 public operations at random reachable receivers, grown while running so that receivers exist; '
        'empty baskets / sequences / feature lists included) compared with the object-identity model on every step result and on the '
        'canonical object-graph dump; non-trivial = history that reaches a nested object or mixes operation kinds (attr), or '
        'contains copy / re-wrap / reference assignment (heap)')
TRUSTED = ['copy.deepcopy, object identity, reference semantics and collections.abc.MutableMapping mixins of CPython (heap model: deepcopy is '
           'modelled as read-and-rebuild, exact on tree-shaped objects; object model: graph copy incl. shared / cyclic objects)',
           'modelled: sugar/core/meta.py Attr/Meta (meta.py:10-81: __init__, __getitem__, __setitem__, __delitem__, __getattr__, '
           '__setattr__, __delattr__, copy, update, __iter__, __len__) as values (C18_Model.v) and over a heap (C18_Heap.v)',
           'NOT modelled, tied by randomized histories on the real classes only: translate, match, find_orfs, set operators, '
           'rc(update_fts=True), FeatureList slice / rc / sort / filter, Feature and Location edits (seq.py, fts.py, cane.py)',
           'tools/gens/c18.py: the reserved key set R is regenerated from dir(Meta) on every run; the table of the BioSeq.str / '
           'BioBasket.str namespaces (which methods return the receiver, for baskets with 0, 1, 2 sequences) is regenerated by calling them',
           'object model (C18_Obj.v): BioSeq / BioBasket / FeatureList / Feature / LocationTuple / Location / Meta as cells with identities; '
           'deepcopy = graph copy; tied to the real classes through the public API on every run']
ASSUMPTIONS = ['metadata keys are Latin-1 str outside the reserved set R = dir(Meta) + __dunder__ names (open finding F20)',
               'literal values are None/bool/int/str/list/dict (no floats, tuples, sets) in the modelled kinds',
               'heap kind: objects passed to copy() have no internal sharing and no cycles (decided by the model: tree_shaped)']
LEVEL_TEXT = ('Machine-checked Coq theorems (60, all closed under the global context) over three hand-written models '
              '(every statement of the modelled Attr methods is executed by the quick tier). '
              '(a) Value level (C18_Model.v): get/set/delete laws incl. key order; attribute access = key access and get-after-set at ANY path; '
              'recursive Mapping->Attr conversion (to_dict(Attr(d)) = d, conversion idempotent); an invariant (unique keys, an Attr never directly holds a '
              'plain dict) that Meta(d) establishes and EVERY modelled operation at every path preserves, hence after any history '
              'x == dict view == x; reading operations return the object unchanged; Mapping == is equality of finite maps (same key set, equal values; a missing key is not a None value). '
              '(b) Heap level (C18_Heap.v): frame theorem; y = x.copy() has an equal snapshot on disjoint cells; the no-dangling-reference and '
              'two-colour separation invariants are composed through EVERY modelled operation (Meta(d), copy, Meta(x) re-wrap, literal '
              'and reference assignment with conversion, del, list append, is), giving copy isolation over ARBITRARY histories of '
              'modelled operations from the empty heap, both directions, with no hypothesis left to the reader; copy/re-wrap/is are '
              'not in-place. (c) Refinement: for objects without internal sharing the heap operation followed by a deep read equals '
              'the value-level operation on the deep read (setitem of a literal, delitem, list append, at key paths). '
              '(d) Object-identity level (C18_Obj.v): BioSeq / BioBasket / FeatureList / Feature / LocationTuple / Location / Meta / Attr / list '
              'as a heap of objects with identities; copy() = deepcopy is a GRAPH copy (internal sharing and cycles preserved); slicing / + / '
              're-wrapping share meta.fts and nested metadata by design; every modelled public operation (32: constructors, copy, slicing of '
              'sequences / baskets / feature lists, +, filter, basket.fts (getter and setter), the lazily creating seq.fts getter, reverse, complement, rc, str.lower/upper, +=, sort(len), filter(inplace), basket[i] = seq, item set / del on '
              'metadata with conversion, id setter, append of sequences / features / literals, del [i], clear, container +=, fts setter, '
              'assignment of an existing object, is) is a PROGRAM for a capability-checked interpreter, and the theorems are proved once for '
              'the interpreter: obj_interp_separation (any program keeps the two-colour invariant and touches no cell of the other colour), '
              'obj_copy_isolation (after y = copy(x) at ANY reachable state, every finite sequence of modelled operations on y and scratch '
              'variables leaves every observation -- canonical dump of the object graph incl. identities -- through every other variable '
              'unchanged, and vice versa; by induction over operation sequences), obj_inplace_returns_receiver (receivers of ANY size, the '
              'empty basket included), obj_pure_only_allocates / obj_pure_not_inplace (not-in-place operations leave every existing object '
              'and every operand as it was), obj_reachable_ok (no dangling reference in any reachable state), obj_graph_copy_fresh, '
              'obj_graph_copy_iso / obj_copy_is_isomorphic (the canonical dump behind y = x.copy() EQUALS the dump behind x: classes, slots, '
              'elements, scalars and identity structure incl. internal sharing and cycles), obj_inplace_elements (on a basket of any size '
              'element-wise transformations keep the same element objects in order, sort gives a permutation, filter(inplace) a selection in '
              'order; class and metadata object kept), obj_extend_elements (+= : old elements followed by the operand elements, receiver '
              'returned), obj_slice_shares_meta / obj_slice_shares_fts (seq[a:b] is a NEW sequence with the upper-cased residues of the slice whose '
              'NEW top-level Meta holds the SAME item values: meta.fts and every nested metadata object of the slice ARE those of the origin -- '
              'sharing by design as a theorem), obj_inplace_seq_effect (an in-place transformation of a sequence changes exactly its residues: '
              'same object, class and metadata object, nothing else in the store), obj_pure_returns_new (copy / slicing / + / filter return an object that did not exist before), '
              'obj_step_footprint / obj_interp_footprint (WRITE FOOTPRINT: for ANY set of objects that contains the operands and is closed '
              'under references -- e.g. everything reachable from them -- an operation changes no object outside the set), '
              'obj_graph_copy_total / obj_copy_succeeds (on a heap without dangling references, hence on every reachable state, the fuelled '
              'DFS terminates within its fuel with a closed set and copy() of every existing object SUCCEEDS: the fail-closed branch is dead). '
              '(e) conv_on_every_entry (construction, item assignment, attribute assignment, update(), setdefault store the SAME '
              'recursively converted value, read back by key and by attribute), conv_list_not_descended; str_namespace_agrees over the '
              'REGENERATED table of observed behaviour (coq/gen/G_c18_str.v): BioBasket.str.<m>() is the basket exactly when '
              'BioSeq.str.<m>() works in place, for baskets with 0, 1 and 2 sequences (29 methods). '
              'All models are tied to the real classes by differential testing on every run (object model: same programs on real objects '
              'through the public API, compared on every step result incl. "is" with every variable and on the whole object graph with '
              'identities numbered in first-visit order); the remaining BioSeq / Feature / Location operations are decided by randomized operation '
              'histories and deterministic matrices on real objects (testing, not proof).')
LEVEL_NOTE = ('Proved for the models only; the models are tied to /repo by testing (0 disagreements over 36 033 cases in the thorough tier, 580 s; quick 1 733 cases, 39 s). '
              'All 24 statements of the 9 modelled Attr methods (meta.py) are executed in the quick tier; none is unreachable; of the modelled seq.py functions only the tuple-index branches of BioBasket.__setitem__ (seq.py:886-891) and data[\'meta\'] of BioBasket.__init__ (seq.py:661) are not reached (not modelled). '
              'Trusted: Coq kernel/vm_compute, copy.deepcopy and CPython reference semantics (heap model: deepcopy as read-and-rebuild, exact '
              'for tree-shaped objects, decided by tree_shaped; object model: deepcopy as graph copy over the reachable set computed by a '
              'fuelled DFS, failing closed -- OutOfDomain -- if the set were not closed; proved never to happen on reachable states), MutableMapping mixins, collections.UserList, the harness. '
              'Object model: residues are modelled for reverse / complement / rc / lower / upper / + / slicing only (no translate), feature '
              'coordinates are carried but never transformed, LocationTuple and Location are immutable in the model (Location.start/stop '
              'edits re-sort on deepcopy: tested only), set operators (&, |, -, ^) compare by deep equality and are tested only, '
              ''
              'Sequences built without features have NO fts item (as when read from FASTA): the lazily creating seq.fts getter is an operation of the model (a FRESH list per sequence); basket.fts on a basket with such a sequence would create the item inside a getter and is outside the modelled domain. '
              'seq.fts = x on a sequence whose metadata has no id item raises AttributeError AFTER assigning (setter reads self.id): outside the modelled domain. '
              'A disagreement counts as the open finding F20 only if one of the KEYS of the case is reserved (operation names such as copy / get / clear do not). '
              'TESTED ONLY (not modelled in Coq): rc(update_fts=True) / translate / match / find_orfs / set operators / Feature and Location '
              'edits -- 800/30000 random histories of 227 public operations (secondary operands that are sugar objects are snapshotted too) per '
              'run (subjects also read from GFF -- feature and location meta._gff -- and from SJSON, and EMPTY / one-element baskets, feature lists, sequences, metadata), 120/2000 exhaustive nested-edit sweeps (every reachable object of one side edited, both directions, depth up to 11), a 5160-case matrix of match/matchall/find_orfs/copy-chains over all reading-frame selections, 33 re-wrap checks, an 81-case matrix of mapping pairs differing only in None-valued keys through 14 equality forms, a 210-case matrix of in-place operators with tuple/generator/dict-view/iterator operands (identity, alias, meta, content), a '
              '351-case matrix of mapping kinds x entry paths, an 87-case matrix BioBasket.str.<m> x 0/1/2 sequences (the failing input behind C18_str_namespace_agrees). Not proved: refinement for reference assignment / paths through list '
              'indices; the heap analogue of the "Attr never holds a plain dict" invariant. '
              'Domain excludes reserved keys R = dir(Meta) + __dunder__ names: open finding F20 (keys such as items/update/copy shadow '
              'the mapping methods; __deepcopy__/__reduce_ex__/__getstate__ break copy(); __class__/__dict__ break attribute = key '
              'access), reported as KNOWN-FINDING while its witness fails. No axioms.')
TECHNIQUE = 'Coq proof over value-level, heap and object-identity models (capability-checked interpreter) + differential testing + randomized aliasing histories on real objects'


# ============================================================================= real-object histories (extra_checks)
# Everything below runs the REAL classes only; no model.  Deep structural snapshots are generic (they follow vars(),
# lists, tuples, dicts), so any new attribute of a sugar class is covered without touching this file.

import operator as _op
import enum as _enum

SAFE_KEYS = ['a', 'b', 'c', 'name', '_x', 'k 1', 'n', 'x.y', 'note', 'gene']


def _is_scalar(o):
    return o is None or isinstance(o, (bool, int, float, str, bytes, _enum.Enum, type)) or callable(o)


def dsnap(o, light=False, _depth=0):
    """deep structural snapshot: classes, attributes (vars), items, order.  light=True drops lazily created empty containers
    (meta.fts == FeatureList([]) created by the BioSeq.fts getter, Location._meta None vs empty Meta created by its getter)."""
    from sugar.core.meta import Attr
    if _depth > 40:
        return '<deep>'
    if isinstance(o, _enum.Enum):
        return ['enum', type(o).__name__, o.value]
    if isinstance(o, float):
        return ['float', repr(o)]
    if _is_scalar(o):
        return o if not callable(o) or isinstance(o, type) else ['callable', getattr(o, '__name__', '?')]
    if isinstance(o, dict):
        return ['dict', type(o).__name__] + [[repr(k), dsnap(v, light, _depth + 1)] for k, v in o.items()]
    if isinstance(o, (list, tuple)) and not hasattr(o, '__dict__'):
        return ['list' if isinstance(o, list) else 'tuple'] + [dsnap(v, light, _depth + 1) for v in o]
    items = []
    if isinstance(o, (list, tuple)):          # LocationTuple and friends
        items = [dsnap(v, light, _depth + 1) for v in o]
    d = vars(o) if hasattr(o, '__dict__') else {}
    ordered = isinstance(o, Attr)
    fields = []
    for k in (d if ordered else sorted(d, key=repr)):
        v = d[k]
        if light and k == 'fts' and hasattr(v, 'data') and len(v) == 0:
            continue
        if k == '_meta' and (v is None or (isinstance(v, Attr) and len(v) == 0)):
            fields.append([k, 'none-or-empty'])
            continue
        fields.append([repr(k), dsnap(v, light, _depth + 1)])
    return ['obj', type(o).__name__, items, fields]


def _sortlocs(sn):
    """deepcopy rebuilds a LocationTuple through LocationTuple.__new__, which sorts the locations again: after an in-place edit of
    Location.start/stop the copy may hold the same locations in another order (reported as a suspicious behaviour, not a violation of
    the isolation property); compare LocationTuples as multisets here"""
    if isinstance(sn, list):
        sn = [_sortlocs(x) for x in sn]
        if len(sn) == 4 and sn[0] == 'obj' and sn[1] == 'LocationTuple':
            sn = [sn[0], sn[1], sorted(sn[2], key=lambda x: json.dumps(x, default=str)), sn[3]]
    return sn


def children(o):
    if _is_scalar(o):
        return []
    if isinstance(o, dict):
        return list(o.values())
    out = []
    if isinstance(o, (list, tuple)):
        out += list(o)
    if hasattr(o, '__dict__'):
        out += list(vars(o).values())
    return out


def reach(o, acc=None):
    """id -> object for every non-scalar object reachable from o (tuples are traversed but, being immutable, not recorded)"""
    acc = {} if acc is None else acc
    stack = [o]
    seen = set()
    while stack:
        x = stack.pop()
        if _is_scalar(x) or id(x) in seen:
            continue
        seen.add(id(x))
        if not (isinstance(x, tuple) and not hasattr(x, '__dict__')):
            acc[id(x)] = x
        stack.extend(children(x))
    return acc


def shallow(o):
    """one-level state of an object: scalars by value, everything else by identity"""
    def h(v):
        return ('v', repr(v)) if _is_scalar(v) else ('id', id(v))
    if isinstance(o, dict):
        return [(repr(k), h(v)) for k, v in o.items()]
    out = []
    if isinstance(o, (list, tuple)):
        out.append([h(v) for v in o])
    if hasattr(o, '__dict__'):
        out.append([(k, h(v)) for k, v in vars(o).items()])
    return out


# ---- builders -----------------------------------------------------------------------------------------------

def r_data(rng, lo=0, hi=24):
    n = rng.randint(lo, hi)
    alpha = 'ACGT' if rng.random() < 0.7 else 'ACGT-N'
    d = ''.join(rng.choice(alpha) for _ in range(n))
    if rng.random() < 0.4:        # reverse complements of stop / start codons: hits on the backward strand
        i = rng.randint(0, len(d))
        d = d[:i] + rng.choice(['TTA', 'CTA', 'TCA', 'CAT', 'CATTTA']) + d[i:]
    return d


def r_metalit(rng, depth=2):
    d = {}
    for _ in range(rng.randint(1, 4)):
        k = rng.choice(SAFE_KEYS)
        r = rng.random()
        if depth > 0 and r < 0.35:
            d[k] = r_metalit(rng, depth - 1)
        elif depth > 0 and r < 0.55:
            d[k] = [rng.choice([1, 'x', None]), r_metalit(rng, depth - 1)]
        else:
            d[k] = rng.choice([1, 2, 'x', 'ACGT', None, True, 3.5])
    return d


def r_loc(rng, L, strand=None):
    from sugar.core.fts import Location
    L = max(L, 2)
    a = rng.randint(0, L - 1)
    b = rng.randint(a + 1, L)
    return Location(a, b, strand or rng.choice('+-.?'), rng.choice([0, 0, 1, 2, 3]),
                    meta=(r_metalit(rng, 1) if rng.random() < 0.4 else None))


def r_feature(rng, L, seqid):
    from sugar.core.fts import Feature
    strand = rng.choice('++-.?')
    locs = [r_loc(rng, L, strand) for _ in range(rng.choice([1, 1, 2, 3]))]
    meta = r_metalit(rng, 2)
    meta['seqid'] = seqid
    if rng.random() < 0.7:
        meta['name'] = rng.choice(['n1', 'n2', 'x'])
    return Feature(rng.choice(['cds', 'gene', 'exon', 'CDS', None]), locs, meta=meta)


def r_seq(rng, sid=None, nfts=None):
    from sugar import BioSeq
    sid = sid if sid is not None else rng.choice(['s1', 's2', 's3', 'q'])
    s = BioSeq(r_data(rng, 3), id=sid, meta=r_metalit(rng, 2))
    s.fts = [r_feature(rng, len(s), sid) for _ in range(rng.randint(0, 3) if nfts is None else nfts)]
    return s


def r_basket(rng):
    from sugar import BioBasket
    ids = ['s1', 's2', 's3', 'q', 's1']
    return BioBasket([r_seq(rng, ids[i]) for i in range(rng.randint(1, 4))], meta=r_metalit(rng, 2))


def r_fts(rng):
    from sugar.core.fts import FeatureList
    return FeatureList([r_feature(rng, 30, rng.choice(['s1', 's2'])) for _ in range(rng.randint(1, 5))])


def r_meta(rng):
    from sugar.core.meta import Meta
    return Meta(r_metalit(rng, 3))


def kind_of(o):
    from sugar import BioSeq, BioBasket
    from sugar.core.fts import Feature, FeatureList, Location
    from sugar.core.meta import Attr
    for cls, k in ((BioSeq, 'seq'), (BioBasket, 'basket'), (FeatureList, 'fts'), (Attr, 'meta'), (Feature, 'feature'),
                   (Location, 'loc')):
        if isinstance(o, cls):
            return k
    return None


# ---- operations: name -> (kind, mode, function(rng, o, ctx)); mode 'self' = in-place, must return the receiver;
#      'mut' = mutates, no return contract; 'pure' = documented as not in-place: receiver unchanged -----------------

def _ab(rng, n):
    a = rng.randint(0, max(n, 1))
    b = rng.randint(a, max(n, 1) + 1)
    return a, b


def _sub(rng, o):
    """a same-side collection made from o's own elements (so set operators see equal elements)"""
    items = [x for x in o if rng.random() < 0.5]
    return type(o)(items)


OPS = []


def op(kind, mode, name):
    def deco(f):
        OPS.append((kind, mode, name, f))
        return f
    return deco


# BioSeq
for _n in ('rc', 'complement', 'reverse'):
    op('seq', 'self', _n)(lambda rng, s, c, _n=_n: getattr(s, _n)())
op('seq', 'self', 'rc_update_fts')(lambda rng, s, c: s.rc(update_fts=True))
op('seq', 'self', 'translate')(lambda rng, s, c: s.translate(complete=True))
for _n, _a in (('lower', ()), ('upper', ()), ('swapcase', ()), ('replace', ('A', 'G')), ('strip', ('A',)), ('lstrip', ('AC',)),
               ('rstrip', ('T',)), ('center', (30, '-')), ('ljust', (28, 'N')), ('rjust', (28, 'N')), ('removeprefix', ('A',)),
               ('removesuffix', ('T',)), ('translate', ({65: 'T'},))):
    op('seq', 'self', 'str.' + _n)(lambda rng, s, c, _n=_n, _a=_a: getattr(s.str, _n)(*_a))
op('seq', 'self', 'iadd')(lambda rng, s, c: _op.iadd(s, rng.choice(['ACG', c.fresh_seq()])))
op('seq', 'mut', 'sl_inplace')(lambda rng, s, c: s.sl(inplace=True)[slice(*_ab(rng, len(s)))])
op('seq', 'mut', 'sl_inplace_gap')(lambda rng, s, c: s.sl(inplace=True, gap='-')[slice(*_ab(rng, len(s)))])
op('seq', 'mut', 'setitem_int')(lambda rng, s, c: s.__setitem__(rng.randint(0, max(len(s) - 1, 0)), 'C'))
op('seq', 'mut', 'setitem_slice')(lambda rng, s, c: s.__setitem__(slice(*_ab(rng, len(s))), 'GG'))
op('seq', 'mut', 'set_id')(lambda rng, s, c: setattr(s, 'id', rng.choice(['z', 's1', 'new'])))
op('seq', 'mut', 'set_data')(lambda rng, s, c: setattr(s, 'data', r_data(rng)))
op('seq', 'mut', 'set_type')(lambda rng, s, c: setattr(s, 'type', rng.choice(['nt', 'aa'])))
op('seq', 'mut', 'set_fts')(lambda rng, s, c: setattr(s, 'fts', [r_feature(rng, len(s), s.id) for _ in range(rng.randint(0, 3))]))
op('seq', 'mut', 'add_fts')(lambda rng, s, c: s.add_fts([r_feature(rng, len(s), s.id)]))
op('seq', 'mut', 'set_meta')(lambda rng, s, c: setattr(s, 'meta', c.Meta(dict(r_metalit(rng), id='m'))))
op('seq', 'pure', 'slice')(lambda rng, s, c: s[slice(*_ab(rng, len(s)))])
op('seq', 'pure', 'slice_step')(lambda rng, s, c: s[::rng.choice([2, -1])])
op('seq', 'pure', 'index')(lambda rng, s, c: s[rng.randint(0, max(len(s) - 1, 0))])
op('seq', 'pure', 'sl_update_fts')(lambda rng, s, c: s.sl(update_fts=True)[slice(*_ab(rng, len(s)))])
op('seq', 'pure', 'sl_gap')(lambda rng, s, c: s.sl(gap='-')[slice(*_ab(rng, len(s)))])
op('seq', 'pure', 'by_feature')(lambda rng, s, c: s[rng.choice(list(s.fts))])
op('seq', 'pure', 'by_feature_update')(lambda rng, s, c: s.sl(update_fts=True)[rng.choice(list(s.fts))])
op('seq', 'pure', 'by_location')(lambda rng, s, c: s[rng.choice(list(s.fts)).loc])
op('seq', 'pure', 'by_type')(lambda rng, s, c: s[rng.choice(['cds', 'gene'])])
op('seq', 'pure', 'add')(lambda rng, s, c: s + rng.choice(['ACG', c.fresh_seq()]))
op('seq', 'pure', 'radd')(lambda rng, s, c: 'ACG' + s)
op('seq', 'pure', 'match')(lambda rng, s, c: s.match(rng.choice(['A.G', 'AC', 'T'])))
op('seq', 'pure', 'matchall')(lambda rng, s, c: s.matchall('A', rf='both'))
op('seq', 'pure', 'find_orfs')(lambda rng, s, c: s.find_orfs(rf='both', need_start='never', need_stop=False))
op('seq', 'pure', 'match_rf')(lambda rng, s, c: s.match(rng.choice(PURE_SUBS), rf=_rf(rng.choice(PURE_RFS)), matchall=rng.random() < 0.4))
op('seq', 'pure', 'match_rf_bwd')(lambda rng, s, c: s.match(rng.choice(['stop', 'start', 'A', 'T']), rf=_rf(rng.choice(PURE_RFS[1:3] + PURE_RFS[6:]))))
op('seq', 'pure', 'matchall_rf')(lambda rng, s, c: s.matchall(rng.choice(PURE_SUBS), rf=_rf(rng.choice(PURE_RFS))))
op('seq', 'pure', 'find_orfs_rf')(lambda rng, s, c: s.find_orfs(rf=_rf(rng.choice(PURE_RFS)), need_start=rng.choice(['always', 'once', 'never']),
                                                               need_stop=rng.random() < 0.5))
op('seq', 'pure', 'copy_chain')(lambda rng, s, c: s.copy().rc().complement().reverse().str.lower())
op('seq', 'pure', 'copy')(lambda rng, s, c: s.copy())
op('seq', 'pure', 'text')(lambda rng, s, c: (str(s), repr(s), s.tostr(), s.tofmtstr('fasta'), s.countall(), s.gc, len(s),
                                              s == c.fresh_seq(), s.str.find('A'), s.str.count('A'), s.str.split('A')) and None)
op('seq', 'pure', 'tofmtstr')(lambda rng, s, c: (s.tofmtstr(rng.choice(['sjson', 'stockholm', 'gff']))) and None)

# Attr / Meta
op('meta', 'mut', 'setitem')(lambda rng, m, c: m.__setitem__(rng.choice(SAFE_KEYS), rng.choice([1, 'v', [1, {'q': 1}], r_metalit(rng)])))
op('meta', 'mut', 'setattr')(lambda rng, m, c: setattr(m, rng.choice(SAFE_KEYS), rng.choice([2, 'w', r_metalit(rng)])))
op('meta', 'mut', 'delitem')(lambda rng, m, c: m.__delitem__(rng.choice(list(m))))
op('meta', 'mut', 'delattr')(lambda rng, m, c: delattr(m, rng.choice(list(m))))
op('meta', 'mut', 'update')(lambda rng, m, c: m.update(r_metalit(rng)))
op('meta', 'mut', 'pop')(lambda rng, m, c: m.pop(rng.choice(list(m))))
op('meta', 'mut', 'popitem')(lambda rng, m, c: m.popitem())
op('meta', 'mut', 'clear')(lambda rng, m, c: m.clear() if rng.random() < 0.3 else None)
op('meta', 'mut', 'setdefault')(lambda rng, m, c: m.setdefault(rng.choice(SAFE_KEYS), r_metalit(rng)))
op('meta', 'mut', 'nested_list_edit')(lambda rng, m, c: [v for v in m.values() if isinstance(v, list)][0].append({'z': 1}))
op('meta', 'mut', 'nested_list_dict_edit')(lambda rng, m, c: [x for v in m.values() if isinstance(v, list) for x in v
                                                             if isinstance(x, dict)][0].update(z=rng.randint(0, 9)))
op('meta', 'pure', 'copy')(lambda rng, m, c: m.copy())
op('meta', 'pure', 'rewrap')(lambda rng, m, c: c.Meta(m))
op('meta', 'pure', 'read')(lambda rng, m, c: (dict(m), str(m), repr(m), len(m), list(m.items()), m == dict(m), m.get('a')) and None)

# FeatureList
op('fts', 'self', 'sort')(lambda rng, f, c: f.sort())
op('fts', 'self', 'sort_rev')(lambda rng, f, c: f.sort(reverse=True))
op('fts', 'self', 'sort_len')(lambda rng, f, c: f.sort(keys=len))
op('fts', 'self', 'rc')(lambda rng, f, c: f.rc(seqlen=rng.choice([0, 30])))
op('fts', 'self', 'filter_inplace')(lambda rng, f, c: f.filter(inplace=True, len_gt=rng.randint(0, 6)))
for _n in ('iand', 'ior', 'isub', 'ixor'):
    op('fts', 'self', _n)(lambda rng, f, c, _n=_n: getattr(_op, _n)(f, rng.choice([_sub(rng, f), r_fts(rng)])))
op('fts', 'mut', 'append')(lambda rng, f, c: f.append(r_feature(rng, 30, 's1')))
op('fts', 'mut', 'extend')(lambda rng, f, c: f.extend([r_feature(rng, 30, 's1')]))
op('fts', 'mut', 'insert')(lambda rng, f, c: f.insert(0, r_feature(rng, 30, 's2')))
op('fts', 'mut', 'pop')(lambda rng, f, c: f.pop())
op('fts', 'mut', 'delitem')(lambda rng, f, c: f.__delitem__(rng.randint(0, len(f) - 1)))
op('fts', 'mut', 'setitem')(lambda rng, f, c: f.__setitem__(rng.randint(0, len(f) - 1), r_feature(rng, 30, 's1')))
op('fts', 'mut', 'reverse')(lambda rng, f, c: f.reverse())
op('fts', 'mut', 'remove')(lambda rng, f, c: f.remove(f[0]))
op('fts', 'mut', 'set_data')(lambda rng, f, c: setattr(f, 'data', list(f.data[::-1])))
op('fts', 'pure', 'slice')(lambda rng, f, c: f.slice(*_ab(rng, 30)))
op('fts', 'pure', 'slice_rel')(lambda rng, f, c: f.slice(2, 20, rel=2))
op('fts', 'pure', 'select')(lambda rng, f, c: f.select(rng.choice(['cds', 'gene'])))
op('fts', 'pure', 'filter')(lambda rng, f, c: f.filter(len_gt=rng.randint(0, 6)))
op('fts', 'pure', 'get')(lambda rng, f, c: f.get('cds'))
for _n in ('add', 'and_', 'or_', 'sub', 'xor'):
    op('fts', 'pure', _n)(lambda rng, f, c, _n=_n: getattr(_op, _n)(f, rng.choice([_sub(rng, f), r_fts(rng)])))
op('fts', 'pure', 'getslice')(lambda rng, f, c: f[slice(*_ab(rng, len(f)))])
op('fts', 'pure', 'getitem')(lambda rng, f, c: f[rng.randint(0, len(f) - 1)])
op('fts', 'pure', 'copy')(lambda rng, f, c: f.copy())
op('fts', 'pure', 'groupby')(lambda rng, f, c: list(f.groupby('type').values()))
op('fts', 'pure', 'read')(lambda rng, f, c: (f.todict(), f.d, list(f.tolists()), f.tostr(), str(f), f.loc_range,
                                             f.tofmtstr('gff'), f.tostr(raw=True)) and None)

# Feature
op('feature', 'self', 'rc')(lambda rng, t, c: t.rc(seqlen=rng.choice([0, 30])))
op('feature', 'mut', 'set_locs')(lambda rng, t, c: setattr(t, 'locs', [r_loc(rng, 30, '+') for _ in range(rng.randint(1, 2))]))
for _n in ('type', 'name', 'id', 'seqid'):
    op('feature', 'mut', 'set_' + _n)(lambda rng, t, c, _n=_n: setattr(t, _n, rng.choice(['cds', 'zz', 's1'])))
op('feature', 'mut', 'set_meta')(lambda rng, t, c: setattr(t, 'meta', c.Meta(r_metalit(rng))))
op('feature', 'pure', 'read')(lambda rng, t, c: (t.loc, t.locs, len(t), repr(t), t.overlaps(t), t.type, t.id, t.locs.range) and None)
op('feature', 'pure', 'locs')(lambda rng, t, c: t.loc)

# Location
op('loc', 'mut', 'set_start')(lambda rng, l, c: setattr(l, 'start', l.start - rng.randint(0, 3)))
op('loc', 'mut', 'set_stop')(lambda rng, l, c: setattr(l, 'stop', l.stop + rng.randint(0, 3)))
op('loc', 'mut', 'set_strand')(lambda rng, l, c: setattr(l, 'strand', rng.choice('+-.?')))
op('loc', 'mut', 'set_defect')(lambda rng, l, c: setattr(l, 'defect', rng.choice([0, 1, 2, 3, 4])))
op('loc', 'mut', 'set_meta')(lambda rng, l, c: setattr(l, 'meta', rng.choice([None, r_metalit(rng, 1)])))
op('loc', 'mut', 'meta_edit')(lambda rng, l, c: l.meta.__setitem__(rng.choice(SAFE_KEYS), rng.choice([1, {'u': [1]}])))
op('loc', 'pure', 'read')(lambda rng, l, c: (len(l), repr(l), l.meta, l == l) and None)

# BioBasket
for _n in ('rc', 'complement', 'reverse', 'sort'):
    op('basket', 'self', _n)(lambda rng, b, c, _n=_n: getattr(b, _n)())
op('basket', 'self', 'rc_update_fts')(lambda rng, b, c: b.rc(update_fts=True))
op('basket', 'self', 'translate')(lambda rng, b, c: b.translate(complete=True))
op('basket', 'self', 'sort_rev')(lambda rng, b, c: b.sort(reverse=True))
op('basket', 'self', 'sort_len')(lambda rng, b, c: b.sort(keys=len))
op('basket', 'self', 'str.lower')(lambda rng, b, c: b.str.lower())
op('basket', 'self', 'str.replace')(lambda rng, b, c: b.str.replace('A', 'C'))
op('basket', 'self', 'filter_inplace')(lambda rng, b, c: b.filter(inplace=True, len_gt=rng.randint(0, 8)))
for _n in ('iand', 'ior', 'isub', 'ixor'):
    op('basket', 'self', _n)(lambda rng, b, c, _n=_n: getattr(_op, _n)(b, rng.choice([_sub(rng, b), c.fresh_basket()])))
op('basket', 'mut', 'append')(lambda rng, b, c: b.append(c.fresh_seq()))
op('basket', 'mut', 'extend')(lambda rng, b, c: b.extend([c.fresh_seq()]))
op('basket', 'mut', 'insert')(lambda rng, b, c: b.insert(0, c.fresh_seq()))
op('basket', 'mut', 'pop')(lambda rng, b, c: b.pop())
op('basket', 'mut', 'delitem')(lambda rng, b, c: b.__delitem__(rng.randint(0, len(b) - 1)))
op('basket', 'mut', 'setitem_str')(lambda rng, b, c: b.__setitem__(rng.randint(0, len(b) - 1), 'ACGTT'))
op('basket', 'mut', 'setitem_seq')(lambda rng, b, c: b.__setitem__(rng.randint(0, len(b) - 1), c.fresh_seq()))
op('basket', 'mut', 'setitem_slice')(lambda rng, b, c: b.__setitem__(slice(0, 1), ['ACG', c.fresh_seq()]))
op('basket', 'mut', 'setitem_2d')(lambda rng, b, c: b.__setitem__((slice(None), slice(1, 3)), 'T'))
op('basket', 'mut', 'set_fts')(lambda rng, b, c: setattr(b, 'fts', [r_feature(rng, 10, s.id) for s in b]))
op('basket', 'mut', 'add_fts')(lambda rng, b, c: b.add_fts([r_feature(rng, 10, b[0].id)]))
op('basket', 'mut', 'set_data')(lambda rng, b, c: setattr(b, 'data', list(b.data[::-1])))
op('basket', 'mut', 'set_meta')(lambda rng, b, c: setattr(b, 'meta', c.Meta(r_metalit(rng))))
op('basket', 'pure', 'slice')(lambda rng, b, c: b[slice(*_ab(rng, len(b)))])
op('basket', 'pure', 'index')(lambda rng, b, c: b[rng.randint(0, len(b) - 1)])
op('basket', 'pure', 'slice_2d')(lambda rng, b, c: b[:, slice(*_ab(rng, 8))])
op('basket', 'pure', 'index_2d')(lambda rng, b, c: b[0, slice(*_ab(rng, 8))])
op('basket', 'pure', 'by_type')(lambda rng, b, c: b[:2, 'cds'])
op('basket', 'pure', 'sl_update_fts')(lambda rng, b, c: b.sl(update_fts=True)[:, 1:5])
for _n in ('add', 'and_', 'or_', 'sub', 'xor'):
    op('basket', 'pure', _n)(lambda rng, b, c, _n=_n: getattr(_op, _n)(b, rng.choice([_sub(rng, b), c.fresh_basket()])))
op('basket', 'pure', 'filter')(lambda rng, b, c: b.filter(len_gt=rng.randint(0, 8)))
op('basket', 'pure', 'match_rf')(lambda rng, b, c: b.match(rng.choice(PURE_SUBS), rf=_rf(rng.choice(PURE_RFS)), matchall=rng.random() < 0.4))
op('basket', 'pure', 'match_rf_bwd')(lambda rng, b, c: b.match(rng.choice(['stop', 'start', 'A', 'T']), rf=_rf(rng.choice(PURE_RFS[1:3] + PURE_RFS[6:]))))
op('basket', 'pure', 'matchall_rf')(lambda rng, b, c: b.matchall(rng.choice(PURE_SUBS), rf=_rf(rng.choice(PURE_RFS))))
op('basket', 'pure', 'find_orfs_rf')(lambda rng, b, c: b.find_orfs(rf=_rf(rng.choice(PURE_RFS)), need_start=rng.choice(['always', 'once', 'never']),
                                                                  need_stop=rng.random() < 0.5))
op('basket', 'pure', 'copy_chain')(lambda rng, b, c: b.copy().rc().translate(complete=True))
op('basket', 'pure', 'copy')(lambda rng, b, c: b.copy())
op('basket', 'pure', 'fts')(lambda rng, b, c: b.fts)
op('basket', 'pure', 'todict')(lambda rng, b, c: list(b.todict().values()))
op('basket', 'pure', 'groupby')(lambda rng, b, c: list(b.groupby().values()))
op('basket', 'pure', 'match')(lambda rng, b, c: b.match('A'))
op('basket', 'pure', 'matchall')(lambda rng, b, c: b.matchall('AC', rf='both'))
op('basket', 'pure', 'find_orfs')(lambda rng, b, c: b.find_orfs(need_start='never', need_stop=False))
op('basket', 'pure', 'read')(lambda rng, b, c: (b.ids, b.d, b.countall(), str(b), b.tostr(), b.tofmtstr('fasta'), b.str.find('A'),
                                                len(b), b == c.fresh_basket(), repr(b)) and None)
op('basket', 'pure', 'tofmtstr')(lambda rng, b, c: b.tofmtstr(rng.choice(['sjson', 'stockholm', 'gff'])) and None)


# ---- operations with SECONDARY operands that are sugar objects (snapshotted like the receiver) ----------------------------

def op2(kind, mode, name, mk):
    def deco(call):
        def f(rng, o, c):
            return call(o, *mk(rng, o, c))
        f.mk, f.call = mk, call
        OPS.append((kind, mode, name, f))
        return call
    return deco


def r_pattern(rng, s=None):
    """a BioSeq used as a search pattern: upper / lower / mixed case, fresh or sharing with the searched sequence"""
    from sugar import BioSeq
    r = rng.random()
    if s is not None and r < 0.15:
        return s                                            # the searched sequence itself
    if s is not None and r < 0.3 and len(s) >= 3:
        a = rng.randint(0, len(s) - 3)
        return s[a:a + 3]                                   # a slice: shares nested metadata and the feature list
    p = BioSeq(rng.choice(['ATG', 'TAA', 'TTA', 'CAT', 'A', 'AC', 'GGGG']), id='pat', meta={'note': {'k': [1, {'z': 2}]}})
    case = rng.choice(['upper', 'lower', 'lower', 'mixed'])
    if case == 'lower':
        p.str.lower()
    elif case == 'mixed':
        p[0] = p.data[0].lower()
    return p


def r_lower_seq(rng):
    q = r_seq(rng)
    if rng.random() < 0.6:
        q.str.lower()
    return q


def r_basket_arg(rng, b=None):
    from sugar import BioBasket
    items = [r_lower_seq(rng) for _ in range(rng.randint(0, 2))]
    if b is not None:
        items += [x for x in b if rng.random() < 0.5]
    return BioBasket(items, meta=r_metalit(rng, 1))


def r_fts_arg(rng, f=None):
    from sugar.core.fts import FeatureList
    items = [r_feature(rng, 20, rng.choice(['s1', 's2'])) for _ in range(rng.randint(0, 2))]
    if f is not None:
        items += [x for x in f if rng.random() < 0.5]
    return FeatureList(items)


_RF = lambda rng: _rf(rng.choice(PURE_RFS))
op2('seq', 'pure', 'match_bioseq', lambda rng, s, c: (r_pattern(rng, s), _RF(rng), rng.random() < 0.4))(
    lambda s, p, rf, ma: s.match(p, rf=rf, matchall=ma))
op2('seq', 'pure', 'matchall_bioseq', lambda rng, s, c: (r_pattern(rng, s), _RF(rng)))(lambda s, p, rf: s.matchall(p, rf=rf))
op2('seq', 'pure', 'find_orfs_bioseq', lambda rng, s, c: (r_pattern(rng, s), r_pattern(rng, s), _RF(rng)))(
    lambda s, p1, p2, rf: s.find_orfs(rf=rf, start=p1, stop=p2, need_start='never', need_stop=False))
op2('seq', 'pure', 'cane_match_bioseq', lambda rng, s, c: (r_pattern(rng, s),))(
    lambda s, p: __import__('sugar.core.cane', fromlist=['match']).match(s, p, rf=None))
op2('basket', 'pure', 'match_bioseq', lambda rng, b, c: (r_pattern(rng, b[0] if len(b) else None), _RF(rng), rng.random() < 0.4))(
    lambda b, p, rf, ma: b.match(p, rf=rf, matchall=ma))
op2('basket', 'pure', 'find_orfs_bioseq', lambda rng, b, c: (r_pattern(rng), r_pattern(rng)))(
    lambda b, p1, p2: b.find_orfs(start=p1, stop=p2, need_start='never', need_stop=False))
op2('seq', 'pure', 'add_bioseq', lambda rng, s, c: (r_lower_seq(rng),))(lambda s, q: s + q)
op2('seq', 'pure', 'radd_bioseq', lambda rng, s, c: (r_lower_seq(rng),))(lambda s, q: q + s)
op2('seq', 'pure', 'eq_bioseq', lambda rng, s, c: (rng.choice([r_lower_seq(rng), s.copy()]),))(lambda s, q: (s == q, q == s, s != q) and None)
op2('seq', 'self', 'iadd_bioseq', lambda rng, s, c: (r_lower_seq(rng),))(lambda s, q: _op.iadd(s, q))
op2('seq', 'pure', 'count_bioseq', lambda rng, s, c: (r_pattern(rng),))(
    lambda s, p: (s.str.count(p), s.str.find(p), s.str.startswith(p), s.str.split(p)) and None)
op2('seq', 'self', 'replace_bioseq', lambda rng, s, c: (r_pattern(rng), r_pattern(rng)))(lambda s, p, q: s.str.replace(p, q))
op2('seq', 'pure', 'index_feature_arg', lambda rng, s, c: (r_feature(rng, max(len(s), 2), s.id),))(lambda s, ft: s[ft])
op2('seq', 'pure', 'index_feature_arg_update', lambda rng, s, c: (r_feature(rng, max(len(s), 2), s.id),))(
    lambda s, ft: s.sl(update_fts=True)[ft])
op2('seq', 'pure', 'index_location_arg', lambda rng, s, c: (r_loc(rng, max(len(s), 2)),))(lambda s, l: s[l])
op2('seq', 'pure', 'index_own_feature', lambda rng, s, c: (rng.choice(list(s.fts)),))(lambda s, ft: s.sl(gap='-')[ft])
op2('seq', 'mut', 'add_fts_arg', lambda rng, s, c: (r_fts_arg(rng),))(lambda s, fl: s.add_fts(fl))
op2('seq', 'mut', 'set_fts_arg', lambda rng, s, c: (r_fts_arg(rng),))(lambda s, fl: setattr(s, 'fts', fl))
op2('seq', 'mut', 'setitem_bioseq', lambda rng, s, c: (r_pattern(rng),))(lambda s, p: s.__setitem__(slice(0, 1), p))
op2('basket', 'pure', 'index_feature_arg', lambda rng, b, c: (r_feature(rng, 8, 's1'),))(lambda b, ft: b[:, ft])
op2('basket', 'pure', 'index_location_arg', lambda rng, b, c: (r_loc(rng, 8),))(lambda b, l: b[:2, l])
for _n in ('add', 'and_', 'or_', 'sub', 'xor', 'eq'):
    op2('basket', 'pure', _n + '_basket_arg', lambda rng, b, c: (r_basket_arg(rng, b),))(lambda b, a, _n=_n: getattr(_op, _n)(b, a))
    op2('fts', 'pure', _n + '_fts_arg', lambda rng, f, c: (r_fts_arg(rng, f),))(lambda f, a, _n=_n: getattr(_op, _n)(f, a))
for _n in ('iand', 'ior', 'isub', 'ixor', 'iadd'):
    op2('basket', 'self', _n + '_basket_arg', lambda rng, b, c: (r_basket_arg(rng, b),))(lambda b, a, _n=_n: getattr(_op, _n)(b, a))
    op2('fts', 'self', _n + '_fts_arg', lambda rng, f, c: (r_fts_arg(rng, f),))(lambda f, a, _n=_n: getattr(_op, _n)(f, a))
op2('basket', 'pure', 'radd_list', lambda rng, b, c: ([r_lower_seq(rng)],))(lambda b, l: l + b)
op2('basket', 'mut', 'append_arg', lambda rng, b, c: (r_lower_seq(rng),))(lambda b, q: b.append(q))
op2('basket', 'mut', 'extend_arg', lambda rng, b, c: (r_basket_arg(rng),))(lambda b, a: b.extend(a))
op2('basket', 'mut', 'setitem_seq_arg', lambda rng, b, c: (r_lower_seq(rng),))(lambda b, q: b.__setitem__(0, q))
op2('basket', 'mut', 'setitem_slice_arg', lambda rng, b, c: (r_basket_arg(rng),))(lambda b, a: b.__setitem__(slice(0, 1), a))
op2('basket', 'mut', 'set_fts_arg', lambda rng, b, c: (r_fts_arg(rng),))(lambda b, fl: setattr(b, 'fts', fl))
op2('basket', 'mut', 'add_fts_arg', lambda rng, b, c: (r_fts_arg(rng),))(lambda b, fl: b.add_fts(fl))
op2('fts', 'mut', 'extend_arg', lambda rng, f, c: (r_fts_arg(rng),))(lambda f, a: f.extend(a))
op2('fts', 'mut', 'append_arg', lambda rng, f, c: (r_feature(rng, 30, 's1'),))(lambda f, ft: f.append(ft))
op2('fts', 'pure', 'construct_from', lambda rng, f, c: ())(lambda f: type(f)(f))
op2('feature', 'pure', 'overlaps_arg', lambda rng, t, c: (r_feature(rng, 30, 's1'),))(lambda t, u: (t.overlaps(u), t == u, t < u) and None)
op2('feature', 'mut', 'set_locs_arg', lambda rng, t, c: ([r_loc(rng, 30, '+'), r_loc(rng, 30, '+')],))(lambda t, ls: setattr(t, 'locs', ls))
op2('meta', 'mut', 'update_attr_arg', lambda rng, m, c: (r_attr(rng),))(lambda m, a: m.update(a))
op2('meta', 'mut', 'setitem_attr_arg', lambda rng, m, c: (r_attr(rng),))(lambda m, a: m.__setitem__('shared_arg', a))
op2('meta', 'pure', 'eq_attr_arg', lambda rng, m, c: (rng.choice([r_attr(rng), m.copy(), dict(m)]),))(lambda m, a: (m == a, a == m) and None)
op2('meta', 'pure', 'rewrap_arg', lambda rng, m, c: ())(lambda m: (type(m)(m), dict(m)) and None)

for _n in ('iand', 'ior', 'isub', 'ixor', 'iadd'):
    for _k in ('tuple', 'generator', 'dict_values'):
        _mkop = {'tuple': tuple, 'generator': lambda l: (x for x in l), 'dict_values': lambda l: dict(enumerate(l)).values()}[_k]
        op('basket', 'self', '%s_%s' % (_n, _k))(lambda rng, b, c, _n=_n, _m=_mkop: getattr(_op, _n)(
            b, _m([x for x in b if rng.random() < 0.5] + [c.fresh_seq()])))
        op('fts', 'self', '%s_%s' % (_n, _k))(lambda rng, f, c, _n=_n, _m=_mkop: getattr(_op, _n)(
            f, _m([x for x in f if rng.random() < 0.5] + [r_feature(rng, 30, 's1')])))

OPS_BY_KIND = {}
for _k, _m, _n, _f in OPS:
    OPS_BY_KIND.setdefault(_k, []).append((_m, _n, _f))


def descend(rng, o):
    """pick the receiver: the object itself or something reachable through public accessors"""
    for _ in range(4):
        k = kind_of(o)
        r = rng.random()
        try:
            if k == 'basket' and r < 0.55 and len(o):
                o = rng.choice(o.data) if rng.random() < 0.8 else o.meta
            elif k == 'seq' and r < 0.6:
                o = rng.choice([o.meta, o.fts, o.fts])
            elif k == 'fts' and r < 0.55 and len(o):
                o = rng.choice(o.data)
            elif k == 'feature' and r < 0.6:
                o = rng.choice([o.meta, rng.choice(list(o.locs))])
            elif k == 'loc' and r < 0.3:
                o = o.meta
            elif k == 'meta' and r < 0.4:
                subs = [v for v in o.values() if kind_of(v) in ('meta', 'fts')]
                if not subs:
                    break
                o = rng.choice(subs)
            else:
                break
        except Exception:
            break
    return o


class Ctx:
    def __init__(self, rng):
        from sugar.core.meta import Meta
        self.rng, self.Meta = rng, Meta

    def fresh_seq(self):
        return r_seq(self.rng)

    def fresh_basket(self):
        return r_basket(self.rng)


BUILDERS = {'seq': r_seq, 'basket': r_basket, 'fts': r_fts, 'meta': r_meta}


def run_history(rng, kind, nops, cov, want_trace=False):
    """returns None or a violation description; fully determined by rng"""
    ctx = Ctx(rng)
    x = (BUILDERS.get(kind) or BUILDERS_EXTRA[kind])(rng)
    sx0 = dsnap(x)
    trace = ['y = x.copy()  # x: %s' % kind]
    try:
        y = x.copy()
    except Exception as e:
        return 'copy() raised %s: %s' % (type(e).__name__, e), trace
    if y is x or type(y) is not type(x):
        return 'copy() returned the receiver or another class', trace
    if dsnap(y) != sx0 or dsnap(x) != sx0:
        return 'copy() is not structurally equal to the original (or changed the original)', trace
    if not (x == y):
        return 'copy() does not compare equal to the original', trace
    common = set(reach(x)) & set(reach(y))
    if common:
        o = reach(x)[sorted(common)[0]]
        return 'after copy() the mutable %s object %r is reachable from both the original and the copy' % (type(o).__name__, o), trace
    roots = {'x': x, 'y': y}
    pools = {'x': [], 'y': []}
    snaps = {'x': sx0, 'y': dsnap(y)}
    for step in range(nops):
        side = rng.choice('xy') if step else 'y'
        other = 'y' if side == 'x' else 'x'
        base = roots[side] if not pools[side] or rng.random() < 0.7 else rng.choice(pools[side])
        recv = descend(rng, base)
        k = kind_of(recv)
        if k is None:
            continue
        mode, name, f = rng.choice(OPS_BY_KIND[k])
        before_light = dsnap(recv, light=True) if mode == 'pure' else None
        reg = {}
        for o in (roots['x'], roots['y']):
            reach(o, reg)
        sh_before = {i: shallow(o) for i, o in reg.items()}
        allowed = set(reach(recv))
        label = '%s: %s.%s [%s]' % (side, k, name, mode)
        args, arg_before = (), []
        if hasattr(f, 'mk'):                 # operation with secondary operands: build them first, snapshot ALL operands
            try:
                args = tuple(f.mk(rng, recv, ctx))
            except Exception:
                snaps[side] = dsnap(roots[side])     # building the operands may read lazily created containers (seq.fts)
                continue
            arg_before = [dsnap(a, light=True) for a in args]
            label += ' args=(%s)' % ', '.join(type(a).__name__ for a in args)
        trace.append(label)
        try:
            res = f.call(recv, *args) if hasattr(f, 'mk') else f(rng, recv, ctx)
            ok = True
        except Exception as e:
            res, ok = None, False
            cov['hist_op_exceptions'] = cov.get('hist_op_exceptions', 0) + 1
            trace[-1] += '  -> %s' % type(e).__name__
        cov['hist_ops'] = cov.get('hist_ops', 0) + 1
        cov.setdefault('hist_ops_by_name', {})
        cov['hist_ops_by_name'][k + '.' + name] = cov['hist_ops_by_name'].get(k + '.' + name, 0) + (1 if ok else 0)
        # (1) isolation: nothing observable through the other object changed
        if dsnap(roots[other]) != snaps[other]:
            return 'operation %s on %s changed the snapshot of %s' % (label, side, other), trace
        # (2) contracts of the operation itself
        if ok and mode == 'self' and res is not recv:
            return 'in-place operation %s did not return the receiver' % label, trace
        if mode == 'pure' and dsnap(recv, light=True) != before_light:
            return 'operation %s is documented as not in-place but changed its receiver' % label, trace
        # (2b) secondary operands: a not-in-place operation changes none of its operands; an in-place operation changes its
        #      receiver only (an operand that shares objects with the receiver may change with it)
        for ai, (a, b4) in enumerate(zip(args, arg_before)):
            cov['hist_secondary_operands'] = cov.get('hist_secondary_operands', 0) + 1
            if mode != 'pure' and (set(reach(a)) & allowed):
                continue
            if dsnap(a, light=True) != b4:
                return ('operation %s changed its operand #%d (%s): %r' % (label, ai + 1, type(a).__name__, a))[:600], trace
        # (3) footprint: every object whose one-level state changed was reachable from the receiver
        for i, o in reg.items():
            if i not in allowed and shallow(o) != sh_before[i]:
                # lazily created containers by getters are not changes of the public state
                return ('operation %s changed a %s object that is not reachable from its receiver' % (label, type(o).__name__)), trace
        snaps[side] = dsnap(roots[side])
        if ok and mode == 'pure' and name == 'copy':
            common = set(reach(recv)) & set(reach(res))
            if common:
                o = reach(recv)[sorted(common)[0]]
                return 'operation %s: the copy shares a mutable %s object with its operand: %r' % (label, type(o).__name__, o), trace
            if _sortlocs(dsnap(res, light=True)) != _sortlocs(dsnap(recv, light=True)):
                return 'operation %s: the copy is not structurally equal to its operand' % label, trace
        if ok and mode == 'pure':
            for r in (res if isinstance(res, (list, tuple)) and kind_of(res) is None else [res]):
                if kind_of(r) is not None and len(pools[side]) < 6:
                    pools[side].append(r)
    return None, trace


def rewrap_checks(rng, cov):
    out = []
    try:
        _rewrap_checks(rng, cov, out)
    except Exception as e:
        if not out:
            out.append('rewrap check raised %s: %s' % (type(e).__name__, e))
    return out


def _rewrap_checks(rng, cov, out):
    """constructors and non-in-place operations re-wrap metadata: the top level of the result's meta is its own object"""
    from sugar import BioSeq, BioBasket
    from sugar.core.fts import Feature, FeatureList, Location
    from sugar.core.meta import Meta, Attr

    class Stop(Exception):
        pass

    def chk(name, owner, make, top_edit):
        """make() derives an object from owner; top_edit(derived) edits only the top level; owner must not change"""
        s0 = dsnap(owner, light=True)
        d = make()
        if dsnap(owner, light=True) != s0:
            out.append('%s changed its operand' % name)
            raise Stop()
        top_edit(d)
        cov['rewrap_checks'] = cov.get('rewrap_checks', 0) + 1
        if dsnap(owner, light=True) != s0:
            out.append('%s: a top-level edit of the result changed the operand' % name)
            raise Stop()

    def edit_meta(o):
        o.meta.zz_new = 1
        o.meta['name'] = 'changed'
        if 'a' in o.meta:
            del o.meta['a']

    m = Meta(r_metalit(rng))
    m.name = 'orig'
    chk('Meta(m)', m, lambda: Meta(m), lambda d: (d.__setitem__('zz', 1), d.__setitem__('name', 'c')))
    chk('Attr(m)', m, lambda: Attr(m), lambda d: (d.__setitem__('zz', 1), d.pop('name')))
    chk('BioSeq(data, meta=m)', m, lambda: BioSeq('ACGT', meta=m), lambda d: (edit_meta(d), setattr(d, 'id', 'q')))
    chk('BioBasket([], meta=m)', m, lambda: BioBasket([], meta=m), edit_meta)
    chk('Feature(meta=m)', m, lambda: Feature('cds', start=1, stop=4, meta=m), lambda d: (edit_meta(d), setattr(d, 'type', 'g')))
    chk('Location(meta=m)', m, lambda: Location(1, 4, meta=m), edit_meta)
    s = r_seq(rng, 's1', nfts=3)
    s.meta.name = 'orig'
    L = len(s)

    def edit_seq(d):
        edit_meta(d)
        d.id = 'other'
        d.str.lower()
        d.reverse()
        d.fts = []

    chk('seq[a:b]', s, lambda: s[1:L - 1], edit_seq)
    chk('seq[i]', s, lambda: s[0], edit_seq)
    chk('seq + str', s, lambda: s + 'ACG', edit_seq)
    chk('str + seq', s, lambda: 'ACG' + s, edit_seq)
    chk('seq.sl(update_fts=True)[a:b]', s, lambda: s.sl(update_fts=True)[0:L], edit_seq)
    chk('seq[feature]', s, lambda: s[s.fts[0]], edit_seq)
    chk('seq.sl(update_fts=True)[feature]', s,
        lambda: s.sl(update_fts=True)[[f for f in s.fts if len(f.locs) == 1][0]] if any(len(f.locs) == 1 for f in s.fts) else s[0:1],
        edit_seq)
    chk('BioSeq(seq)', s, lambda: BioSeq(s), edit_seq)
    b = r_basket(rng)
    b.meta.name = 'orig'

    def edit_basket(d):
        edit_meta(d)
        d.append(BioSeq('AC', id='new'))
        d.data.reverse()
        d.pop(0)

    chk('basket[a:b]', b, lambda: b[0:len(b)], edit_basket)
    chk('basket + list', b, lambda: b + [BioSeq('A')], edit_basket)
    chk('basket.filter()', b, lambda: b.filter(len_ge=0), edit_basket)
    chk('basket & basket', b, lambda: b & b, edit_basket)
    chk('basket | basket', b, lambda: b | b, edit_basket)
    chk('BioBasket(basket)', b, lambda: BioBasket(b), edit_basket)
    chk('basket[:, a:b]', b, lambda: b[:, 0:2], lambda d: (edit_meta(d), [edit_seq(q) for q in d]))
    f = r_fts(rng)

    def edit_list(d):
        d.append(r_feature(rng, 30, 's1'))
        d.reverse()
        d.pop(0)

    def edit_fts_deep(d):
        for t in d:
            edit_meta(t)
            t.type = 'changed'
            t.locs = [Location(0, 1)]
        edit_list(d)

    chk('fts.slice()', f, lambda: f.slice(0, 40), edit_fts_deep)
    chk('fts.slice() location meta', f, lambda: f.slice(0, 40),
        lambda d: [(l.meta.__setitem__('zz', 1), setattr(l, 'start', -5), setattr(l, 'strand', '-')) for t in d for l in t.locs])
    chk('fts.select()', f, lambda: f.select(['cds', 'gene', 'exon']), edit_list)
    chk('fts.filter()', f, lambda: f.filter(len_ge=0), edit_list)
    chk('fts[a:b]', f, lambda: f[0:len(f)], edit_list)
    chk('fts + fts', f, lambda: f + f, edit_list)
    chk('fts | fts', f, lambda: f | f, edit_list)
    chk('fts & fts', f, lambda: f & f, edit_list)
    chk('FeatureList(fts)', f, lambda: FeatureList(f), edit_list)
    chk('basket.fts', b, lambda: b.fts, edit_list)
    g = f.copy()
    chk('Feature.rc() keeps old locations intact', f[0].locs, lambda: g[0].rc(30), lambda d: None)
    t0 = f[0]
    old = t0.locs
    s_old = dsnap(old)
    t0.rc(30)
    for l in t0.locs:
        l.meta.zz = 1
        l.start = -9
    if dsnap(old) != s_old:
        out.append('Feature.rc(): editing the new locations changed the previous LocationTuple')
    return out


# ---- deterministic matrices (replayable cases of kind 'pure' and 'mapkind') ---------------------------------------

PURE_DATA = ['CCCTTACCCCATGGGTTT',      # fwd: ATG; bwd strand AAACCCATGGGGTAAGGG: start and stop on the backward strand only
             'ATGAAATAGCC', 'GGCTATTTCAT', 'CCC-TTA-CCCCAT', 'TTATTACATCAT', 'ACGT', '']
PURE_RFS = ['fwd', 'bwd', 'both', 0, 1, 2, -1, -2, -3, [0, 1], [-1, -3], [0, -2], [-1, -2, -3]]
PURE_SUBS = ['start', 'stop', 'TAA', 'GGGG', 'AAAAAAA', 'A']


def _rf(rf):
    return tuple(rf) if isinstance(rf, list) else rf


def impl_pure(case):
    """one documented-as-not-in-place call; returns None or what changed.  The operand is snapshotted deeply (light: lazily
    created empty containers are not a change) before and after, whether or not the call raises."""
    from sugar import BioSeq, BioBasket
    def mk(i, data):
        q = BioSeq(data, id='s%d' % i, meta={'note': {'k': [1, {'z': 2}]}})
        if len(data) >= 6:
            q.fts = [c_feature(i, len(data))]
        return q
    if case['obj'] == 'seq':
        o = mk(1, case['data'][0])
    else:
        o = BioBasket([mk(i, d) for i, d in enumerate(case['data'])], meta={'b': {'c': 1}})
    call = case['call']
    arg, arg_name = None, case.get('arg')
    first = o if case['obj'] == 'seq' else (o[0] if len(o) else None)
    if arg_name:
        from sugar.core.fts import Feature, FeatureList, Location
        if arg_name.startswith('pat_'):
            if arg_name == 'pat_self':
                arg = first
            elif arg_name == 'pat_slice':
                arg = first[0:3]
            else:
                arg = BioSeq(case.get('sub', 'ATG'), id='pat', meta={'note': {'k': [1, {'z': 2}]}})
                if arg_name == 'pat_lower':
                    arg.str.lower()
                elif arg_name == 'pat_mixed':
                    arg.data = arg.data[:1].lower() + arg.data[1:]
        elif arg_name in ('seq_lower', 'seq_upper'):
            arg = mk(7, 'ACGTTTA')
            if arg_name == 'seq_lower':
                arg.str.lower()
        elif arg_name == 'basket':
            arg = BioBasket([mk(8, 'ACGTTTA').str.lower(), mk(9, case['data'][0])], meta={'q': {'r': [1]}})
        elif arg_name == 'feature':
            arg = c_feature(1, 6)
        elif arg_name == 'location':
            arg = Location(1, 5, '-', meta={'g': {'phase': [0]}})
        elif arg_name == 'fts':
            arg = FeatureList([c_feature(1, 6), c_feature(0, 7)])
        else:
            raise RuntimeError(arg_name)
    before = dsnap(o, light=True)
    arg_before = dsnap(arg, light=True)
    try:
        if arg_name and call in ('match', 'matchall'):
            o.match(arg, rf=_rf(case['rf']), matchall=(call == 'matchall') or case.get('matchall', False))
        elif call == 'cane_match':
            from sugar.core.cane import match as _m
            _m(first, arg, rf=None)
        elif call == 'find_orfs_start':
            o.find_orfs(rf=_rf(case['rf']), start=arg)
        elif call == 'find_orfs_stop':
            o.find_orfs(rf=_rf(case['rf']), stop=arg, need_start='never')
        elif call in ('add', 'and_', 'or_', 'sub', 'xor', 'eq', 'ne'):
            getattr(_op, call)(o, arg)
        elif call == 'radd':
            arg + o
        elif call == 'str_count':
            o.str.count(arg), o.str.find(arg)
        elif call == 'index':
            o[arg] if case['obj'] == 'seq' else o[:, arg]
        elif call == 'index_update_fts':
            o.sl(update_fts=True)[arg] if case['obj'] == 'seq' else o.sl(update_fts=True)[:, arg]
        elif call == 'add_fts':
            o.add_fts(arg)
        elif call == 'set_fts':
            o.fts = arg
        elif call == 'construct':
            type(o)(o), BioBasket([o] if case['obj'] == 'seq' else o)
        elif call == 'match':
            o.match(case['sub'], rf=_rf(case['rf']), matchall=case['matchall'])
        elif call == 'matchall':
            o.matchall(case['sub'], rf=_rf(case['rf']))
        elif call == 'find_orfs':
            o.find_orfs(rf=_rf(case['rf']), need_start=case.get('need_start', 'always'), need_stop=case.get('need_stop', True))
        elif call == 'slice_rc':       # slicing by a minus-strand location reverse-complements the SLICE, never the operand
            from sugar.core.fts import Location
            o[Location(1, max(len(o) - 1, 2), '-')]
        elif call == 'copy_rc':
            o.copy().rc().complement().reverse()
        elif call == 'copy_translate':
            o.copy().translate(complete=True)
        elif call == 'countall':
            o.countall()
        elif call == 'tostr':
            str(o), repr(o), o.tostr()
        else:
            raise RuntimeError(call)
    except RuntimeError:
        raise
    except Exception:
        pass
    after = dsnap(o, light=True)
    if arg_name and dsnap(arg, light=True) != arg_before:
        return '%s.%s(%s) changed its secondary operand (%s): now %r' % (
            case['obj'], call, ', '.join('%s=%r' % (k, case[k]) for k in ('arg', 'sub', 'rf', 'matchall') if k in case),
            type(arg).__name__, getattr(arg, 'data', arg))
    if case.get('mut_recv'):
        return None
    if after != before:
        def res(x):
            return x.data if case['obj'] == 'seq' else [q.data for q in x]
        return '%s.%s(%s) is documented as not in-place but changed its operand; residues now %r' % (
            case['obj'], call, ', '.join('%s=%r' % (k, case[k]) for k in ('sub', 'rf', 'matchall') if k in case), res(o))
    return None


def c_feature(i, L):
    from sugar.core.fts import Feature, Location
    return Feature('cds', [Location(0, 3, '+', meta={'g': {'phase': 0}}), Location(3, L, '+')], meta={'seqid': 's%d' % i, 'name': 'f'})


def locmeta_nested_check():
    """copy() of FeatureList / BioSeq / BioBasket isolates NESTED location metadata (depth >= 2), both directions"""
    from sugar import BioSeq, BioBasket
    from sugar.core.fts import Feature, FeatureList, Location
    def mk():
        l1 = Location(0, 9, '+', meta={'_gff': {'phase': 0, 'deep': {'x': [1]}}, 'tags': ['a', {'t': 1}]})
        l2 = Location(12, 21, '+', meta={'_gff': {'phase': 1}})
        return FeatureList([Feature('gene', start=0, stop=30, meta={'seqid': 's1'}), Feature('CDS', [l1, l2], meta={'seqid': 's1'})])
    for name in ('FeatureList', 'BioSeq', 'BioBasket'):
        x = mk()
        if name != 'FeatureList':
            q = BioSeq('A' * 30, id='s1')
            q.fts = x
            x = q if name == 'BioSeq' else BioBasket([q])
        get = lambda o: (o if name == 'FeatureList' else o.fts if name == 'BioSeq' else o[0].fts)[1].locs[0].meta
        for a, b in ((0, 1), (1, 0)):
            pair = [x, x.copy()]
            before = dsnap(pair[b])
            m = get(pair[a])
            m._gff.phase = 2
            m._gff.deep.x.append(5)
            m.tags[1]['t'] = 9
            m.tags.append('c')
            if dsnap(pair[b]) != before:
                return '%s.copy(): a nested edit of location metadata on %s changed %s' % (
                    name, 'the copy' if a else 'the original', 'the original' if a else 'the copy')
    return None


def pure_matrix(tier):
    cases = []
    for obj, datas in (('seq', [[d] for d in PURE_DATA]), ('basket', [['CCCTTACCC', 'GGGTCAGGG'], PURE_DATA[:3], ['ACGT']])):
        for data in datas:
            for rf in PURE_RFS:
                for sub in PURE_SUBS:
                    for ma in (False, True):
                        cases.append({'kind': 'pure', 'obj': obj, 'data': data, 'call': 'match', 'sub': sub, 'rf': rf, 'matchall': ma})
                    cases.append({'kind': 'pure', 'obj': obj, 'data': data, 'call': 'matchall', 'sub': sub, 'rf': rf})
                for ns in ('always', 'once', 'never'):
                    cases.append({'kind': 'pure', 'obj': obj, 'data': data, 'call': 'find_orfs', 'rf': rf, 'need_start': ns,
                                  'need_stop': ns != 'never'})
            for call in ('copy_rc', 'copy_translate', 'countall', 'tostr') + (('slice_rc',) if obj == 'seq' else ()):
                cases.append({'kind': 'pure', 'obj': obj, 'data': data, 'call': call})
            if not data or len(data[0]) < 6:
                continue
            # secondary operands that are sugar objects: every operand is snapshotted
            for pat in ('pat_upper', 'pat_lower', 'pat_mixed', 'pat_self', 'pat_slice'):
                for sub in ('ATG', 'TTA', 'A'):
                    for rf in ('fwd', 'bwd', 'both', -1, [0, -2]):
                        for call in ('match', 'matchall', 'find_orfs_start', 'find_orfs_stop'):
                            cases.append({'kind': 'pure', 'obj': obj, 'data': data, 'call': call, 'arg': pat, 'sub': sub, 'rf': rf,
                                          'matchall': False})
                    cases.append({'kind': 'pure', 'obj': obj, 'data': data, 'call': 'cane_match', 'arg': pat, 'sub': sub})
                    if obj == 'seq':
                        cases.append({'kind': 'pure', 'obj': obj, 'data': data, 'call': 'str_count', 'arg': pat, 'sub': sub})
            if obj == 'seq':
                for a in ('seq_lower', 'seq_upper'):
                    for call in ('add', 'radd', 'eq', 'ne'):
                        cases.append({'kind': 'pure', 'obj': obj, 'data': data, 'call': call, 'arg': a})
            else:
                for call in ('add', 'and_', 'or_', 'sub', 'xor', 'eq', 'ne'):
                    cases.append({'kind': 'pure', 'obj': obj, 'data': data, 'call': call, 'arg': 'basket'})
            for a in ('feature', 'location'):
                for call in ('index', 'index_update_fts'):
                    cases.append({'kind': 'pure', 'obj': obj, 'data': data, 'call': call, 'arg': a})
            for call in ('add_fts', 'set_fts'):
                cases.append({'kind': 'pure', 'obj': obj, 'data': data, 'call': call, 'arg': 'fts', 'mut_recv': True})
            cases.append({'kind': 'pure', 'obj': obj, 'data': data, 'call': 'construct'})
    return cases


MAPKIND_HOWS = ['init', 'init_kw', 'setitem', 'setattr', 'update', 'update_kind', 'setdefault', 'nested_set', 'BioSeq', 'BioBasket',
                'Feature', 'Location', 'seq_meta_set']


def impl_mapkind(case):
    """a nested mapping of the given kind enters a metadata object through one entry path; it must be converted recursively
    (Attr at every mapping level, attribute access = key access), compare equal to the equivalent dict, and copy() must isolate"""
    from sugar import BioSeq, BioBasket
    from sugar.core.fts import Feature, Location
    from sugar.core.meta import Attr, Meta
    kind, how, down = case['mk'], case['how'], case.get('down', 0)
    inner = {'b': 1, 'c': {'d': 2, 'e': [1, {'f': 3}]}}
    expected = fresh(inner)
    value = wrap_kind(fresh(inner), kind) if kind not in ('Attr', 'Meta') else make_mapping(kind, fresh(inner))
    for _ in range(down):                       # one or two levels down inside another mapping
        value = {'w': value}
        expected = {'w': expected}
    if down and case.get('outer'):
        value = make_mapping(case['outer'], value)
    try:
        if how == 'init':
            m = Meta({'a': value})
        elif how == 'init_kw':
            m = Attr(a=value)
        elif how == 'setitem':
            m = Meta(); m['a'] = value
        elif how == 'setattr':
            m = Attr(); m.a = value
        elif how == 'update':
            m = Attr(); m.update({'a': value})
        elif how == 'update_kind':              # the argument of update() itself is a non-dict mapping
            m = Meta(); m.update(make_mapping(kind if kind not in ('Attr', 'Meta', 'mix') else 'UserDict', {'a': value}))
        elif how == 'setdefault':
            m = Meta(); m.setdefault('a', value)
        elif how == 'nested_set':
            m = Meta({'n': {'o': {}}}); m.n.o.a = value; m = m.n.o
        elif how == 'BioSeq':
            m = BioSeq('ACGT', id='x', meta={'a': value}).meta
        elif how == 'BioBasket':
            m = BioBasket([], meta={'a': value}).meta
        elif how == 'Feature':
            m = Feature('CDS', start=0, stop=3, meta={'a': value}).meta
        elif how == 'Location':
            m = Location(0, 3, meta={'a': value}).meta
        elif how == 'seq_meta_set':
            q = BioSeq('ACGT', id='x'); q.meta.a = value; m = q.meta
        else:
            raise RuntimeError(how)
    except RuntimeError:
        raise
    except Exception as e:
        return 'storing a nested %s raised %s: %s' % (kind, type(e).__name__, e)
    try:
        node, exp, path = m['a'], expected, 'a'
        if kind in ('Attr', 'Meta') and not down and m['a'] is not value:
            return 'an existing %s value was copied instead of being kept' % kind
        steps = ['w'] * down + ['c']
        for k in [None] + steps:
            if k is not None:
                if getattr(node, k) is not node[k]:
                    return 'attribute and key access differ at %s.%s' % (path, k)
                node, exp, path = node[k], exp[k], path + '.' + k
            if not isinstance(node, Attr):
                return 'nested %s at %s was stored as %s, expected Attr' % (kind, path, type(node).__name__)
            if not (node == exp and exp == node):
                return 'converted mapping at %s does not compare equal to the equivalent dict' % path
        if node.d != 2 or node['e'][1] != {'f': 3} or isinstance(node.e[1], Attr):
            return 'leaf values wrong below %s' % path
        if to_plain(m)['a'] != expected or not (m['a'] == expected) or not (dict(m) == to_plain(m)):
            return 'plain view differs from the equivalent dict'
        before = to_plain(m)
        m2 = m.copy()
        tgt = m2.a
        for k in steps:
            tgt = tgt[k]
        tgt.d = 99
        tgt.new = {'x': {}}
        if not isinstance(tgt.new.x, Attr):
            return 'assignment after copy() did not convert'
        del m2.a[(['w'] * down + ['b'])[0]]
        if to_plain(m) != before:
            return 'edit of the copy leaked into the original'
    except Exception as e:
        return 'nested %s via %s: %s: %s' % (kind, how, type(e).__name__, e)
    return None


def mapkind_matrix():
    cases = []
    for mk in MAPKINDS + ['mix', 'Attr', 'Meta']:
        for how in MAPKIND_HOWS:
            cases.append({'kind': 'mapkind', 'mk': mk, 'how': how, 'down': 0})
            cases.append({'kind': 'mapkind', 'mk': mk, 'how': how, 'down': 1})
            cases.append({'kind': 'mapkind', 'mk': mk, 'how': how, 'down': 2, 'outer': 'UserDict'})
    return cases


# ---- copy() subjects that come from files, and an exhaustive nested-edit sweep ------------------------------------------

def r_gff_text(rng, ids=('s1', 's2')):
    lines = ['##gff-version 3']
    n = 0
    for sid in ids:
        for _ in range(rng.randint(1, 3)):
            n += 1
            a = rng.randint(1, 20)
            ftype = rng.choice(['gene', 'CDS', 'exon'])
            strand = rng.choice('+-.')
            attrs = 'ID=f%d;Name=n%d;note=%s' % (n, n, rng.choice(['a', 'a,b', 'x y']))
            lines.append('\t'.join([sid, 'src', ftype, str(a), str(a + rng.randint(2, 9)), rng.choice(['.', '0.5']), strand,
                                    rng.choice(['.', '0', '1']), attrs]))
            if rng.random() < 0.6:          # a second line with the same ID: one feature with two locations, per-location _gff
                b = a + 12
                lines.append('\t'.join([sid, 'src', ftype, str(b), str(b + rng.randint(2, 9)), '.', strand, rng.choice(['0', '1', '2']),
                                        'ID=f%d;Name=n%d;tag=%s' % (n, n, rng.choice(['t', 'u,v']))]))
    return '\n'.join(lines) + '\n'


def r_gff_fts(rng):
    import io
    from sugar import read_fts
    return read_fts(io.StringIO(r_gff_text(rng)), 'gff')


def r_gff_basket(rng):
    """sequences with features read from GFF attached (feature meta._gff and location meta._gff are nested Attr objects)"""
    from sugar import BioSeq, BioBasket
    b = BioBasket([BioSeq(r_data(rng, 34, 40), id='s1', meta=r_metalit(rng, 2)), BioSeq(r_data(rng, 34, 40), id='s2')],
                  meta=r_metalit(rng, 1))
    b.fts = r_gff_fts(rng)
    return b


def r_sjson_basket(rng):
    """objects as the SJSON reader builds them; SJSON drops private keys such as _gff, so public nested feature / location metadata
    is added before writing"""
    from sugar import BioBasket
    b = r_gff_basket(rng)
    for q in b:
        for ft in q.fts:
            ft.meta.extra = {'k': [1, {'z': 2}], 'm': {'n': {'o': 1}}}
            for loc in ft.locs:
                loc.meta.info = {'p': {'q': [1, 2]}, 'tags': ['a', {'t': 1}]}
    return BioBasket.fromfmtstr(b.tofmtstr('sjson'))


def r_attr(rng):
    from sugar.core.meta import Attr
    a = Attr(r_metalit(rng, 3))
    a.lst = [1, {'z': [2, {'y': 3}]}]
    a.deep = {'d1': {'d2': {'d3': [1]}}}
    return a


def _r_empty(kind):
    def f(rng):
        from sugar import BioSeq, BioBasket
        from sugar.core.fts import FeatureList
        from sugar.core.meta import Meta
        if kind == 'basket0':
            return BioBasket([], meta=r_metalit(rng, 2))
        if kind == 'basket1':
            return BioBasket([r_seq(rng, 's1')], meta=r_metalit(rng, 1))
        if kind == 'fts0':
            return FeatureList([])
        if kind == 'seq0':
            return BioSeq('', id='e', meta=r_metalit(rng, 1))
        return Meta({})
    return f


BUILDERS_EXTRA = {'basket0': _r_empty('basket0'), 'basket1': _r_empty('basket1'), 'fts0': _r_empty('fts0'), 'seq0': _r_empty('seq0'),
                  'meta0': _r_empty('meta0'), 'gff_fts': r_gff_fts, 'gff_basket': r_gff_basket, 'gff_seq': lambda rng: r_gff_basket(rng)[0],
                  'sjson_basket': r_sjson_basket, 'sjson_seq': lambda rng: r_sjson_basket(rng)[0], 'attr': r_attr}


def depths(o):
    """id -> depth of every non-scalar object reachable from o (breadth first)"""
    out, frontier = {id(o): (0, o)}, [o]
    d = 0
    while frontier:
        d += 1
        nxt = []
        for x in frontier:
            for c in children(x):
                if not _is_scalar(c) and id(c) not in out:
                    out[id(c)] = (d, c)
                    nxt.append(c)
        frontier = nxt
    return out


def edit_object(o, tag):
    """a small in-place edit of one object through its public interface; returns False if the type has none"""
    from sugar import BioSeq
    from sugar.core.fts import Feature, Location
    from sugar.core.meta import Attr
    if isinstance(o, Attr):
        o['zz_' + tag] = {'e': [1]}
        for k in list(o)[:1]:
            if not k.startswith('zz_') and k not in ('fts', 'id'):
                del o[k]
    elif isinstance(o, dict):
        o['zz_' + tag] = 1
    elif isinstance(o, list):
        if o:
            o.pop(0)
        else:
            o.append('zz_' + tag)
    elif isinstance(o, Location):
        o.start -= 1
        o.strand = '-' if str(o.strand) != '-' else '+'
        o.defect = int(o.defect) ^ 1
    elif isinstance(o, Feature):
        o.type = 'zz_' + tag
    elif isinstance(o, BioSeq):
        o.data = o.data[::-1] + 'A'
        o.type = 'aa'
    elif hasattr(o, 'data') and isinstance(o.data, list):
        o.data = o.data[1:]
    else:
        return False
    return True


def deep_edit_sweep(rng, kind, cov):
    """y = x.copy(); then EVERY mutable object reachable from one side (at every depth) is edited in turn, and the other side's deep
    snapshot must stay what it was -- both directions, each on a fresh pair"""
    build = BUILDERS.get(kind) or BUILDERS_EXTRA[kind]
    seed = rng.getrandbits(32)
    import random as _random
    for direction in ('copy', 'original'):
        x = build(_random.Random(seed))
        sx = dsnap(x)
        try:
            y = x.copy()
        except Exception as e:
            return '%s.copy() raised %s: %s' % (kind, type(e).__name__, e)
        if dsnap(y) != sx or dsnap(x) != sx:
            return '%s.copy() is not structurally equal to the original' % kind
        common = set(reach(x)) & set(reach(y))
        if common:
            o = reach(x)[sorted(common)[0]]
            return 'after %s.copy() a mutable %s object is reachable from both sides: %r' % (kind, type(o).__name__, o)
        edited, other = (y, x) if direction == 'copy' else (x, y)
        before = dsnap(other)
        objs = sorted(depths(edited).values(), key=lambda t: -t[0])      # deepest first
        for d, o in objs:
            try:
                done = edit_object(o, 'd%d' % d)
            except Exception:
                done = False
            if done:
                cov['sweep_edits'] = cov.get('sweep_edits', 0) + 1
                if d >= 2:
                    cov['sweep_edits_depth_ge2'] = cov.get('sweep_edits_depth_ge2', 0) + 1
                cov['sweep_max_depth'] = max(cov.get('sweep_max_depth', 0), d)
                if dsnap(other) != before:
                    return ('%s.copy(): editing a %s object at depth %d of the %s changed the %s' %
                            (kind, type(o).__name__, d, 'copy' if direction == 'copy' else 'original',
                             'original' if direction == 'copy' else 'copy'))
    return None


SWEEP_KINDS = ['seq', 'basket', 'fts', 'meta', 'attr', 'gff_fts', 'gff_basket', 'gff_seq', 'sjson_basket', 'sjson_seq']

# ---- mapping equality = equality of finite maps (replayable kind 'eqpair') -----------------------------------------------

EQ_PAIRS = [
    ({'id': 's1', 'name': None}, {'id': 's1', 'gene': None}),
    ({'a': None}, {'b': None}),
    ({'a': None}, {'a': None}),
    ({'a': None, 'b': 1}, {'b': 1, 'a': None}),
    ({'a': None, 'b': 1}, {'b': 1, 'c': None}),
    ({'a': 0}, {'b': None}),
    ({'a': None}, {}),
    ({}, {}),
    ({'n': {'x': None, 'y': 1}}, {'n': {'z': None, 'y': 1}}),
    ({'n': {'x': None, 'y': 1}}, {'n': {'y': 1, 'x': None}}),
    ({'l': [{'x': None}]}, {'l': [{'y': None}]}),
    ({'l': [{'x': None}]}, {'l': [{'x': None}]}),
    ({'a': 1, 'b': None, 'c': [None]}, {'a': 1, 'c': [None], 'd': None}),
    ({'a': False}, {'a': 0}), ({'a': True}, {'a': 1}), ({'a': ''}, {'a': None}), ({'a': None}, {'a': 0}),
]


def plain_eq(a, b):
    """finite-map equality written from first principles (no ==, no .get on mappings)"""
    if isinstance(a, dict) and isinstance(b, dict):
        ka, kb = sorted(a), sorted(b)
        return ka == kb and all(plain_eq(a[k], b[k]) for k in ka)
    if isinstance(a, list) and isinstance(b, list):
        return len(a) == len(b) and all(plain_eq(x, y) for x, y in zip(a, b))
    if isinstance(a, (dict, list)) or isinstance(b, (dict, list)):
        return False
    if a is None or b is None:
        return a is None and b is None
    if isinstance(a, str) or isinstance(b, str):
        return isinstance(a, str) and isinstance(b, str) and a == b
    return int(a) == int(b)          # bool is an int


def impl_eqpair(case):
    from sugar import BioSeq, BioBasket
    from sugar.core.fts import Feature, FeatureList, Location
    from sugar.core.meta import Attr, Meta
    a, b = case['a'], case['b']
    exp = plain_eq(a, b)
    mk = case.get('mk', 'dict')
    forms = {
        'Attr==dict': lambda: Attr(fresh(a)) == wrap_kind(fresh(b), mk),
        'dict==Attr': lambda: wrap_kind(fresh(a), mk) == Attr(fresh(b)),
        'Meta==Meta': lambda: Meta(fresh(a)) == Meta(fresh(b)),
        'Attr==Meta': lambda: Attr(fresh(a)) == Meta(fresh(b)),
        'Meta!=Meta': lambda: not (Meta(fresh(a)) != Meta(fresh(b))),
        'nested': lambda: Meta({'w': fresh(a), 'k': 1}) == {'k': 1, 'w': fresh(b)},
        'in list': lambda: Meta({'w': [fresh(a)]}).w == [Attr(fresh(b))],
        'BioSeq==BioSeq': lambda: BioSeq('ACGT', id='q', meta=fresh(a)) == BioSeq('ACGT', id='q', meta=fresh(b)),
        'BioBasket==': lambda: BioBasket([BioSeq('AC', id='q')], meta=fresh(a)) == BioBasket([BioSeq('AC', id='q')], meta=fresh(b)),
        'Feature==': lambda: Feature('cds', start=0, stop=3, meta=fresh(a)) == Feature('cds', start=0, stop=3, meta=fresh(b)),
        'Location==': lambda: Location(0, 3, meta=fresh(a)) == Location(0, 3, meta=fresh(b)),
        'FeatureList -': lambda: len(FeatureList([Feature('cds', start=0, stop=3, meta=fresh(a))]) -
                                     FeatureList([Feature('cds', start=0, stop=3, meta=fresh(b))])) == 0,
        'FeatureList in': lambda: Feature('cds', start=0, stop=3, meta=fresh(a)) in FeatureList([Feature('cds', start=0, stop=3, meta=fresh(b))]),
        'copy renamed': lambda: _copy_renamed(a, b),
    }
    for name, f in forms.items():
        e = exp
        if name in ('BioSeq==BioSeq',):
            e = plain_eq(dict(fresh(a), id=a.get('id', 'q')), dict(fresh(b), id=b.get('id', 'q')))
        if name in ('Feature==', 'FeatureList -', 'FeatureList in'):
            e = plain_eq(dict(fresh(a), type='cds'), dict(fresh(b), type='cds'))
        if name == 'copy renamed':
            e = True
        try:
            got = bool(f())
        except Exception as ex:
            return '%s on %r / %r raised %s: %s' % (name, a, b, type(ex).__name__, ex)
        if got != e:
            return '%s: equality of %r and %r is %s, the equivalent dicts compare %s' % (name, a, b, got, e)
    return None


def _copy_renamed(a, b):
    """a copy whose None-valued key was renamed must not compare equal to the original (and an untouched copy must)"""
    from sugar.core.meta import Meta
    x = Meta(fresh(a))
    y = x.copy()
    if not (x == y and y == x):
        return False
    nk = [k for k, v in x.items() if v is None]
    if nk:
        del y[nk[0]]
        y['zz_renamed'] = None
        if x == y or y == x:
            return False
    return True


def eq_matrix():
    cases = []
    for a, b in EQ_PAIRS:
        for mk in ('dict', 'UserDict', 'mappingproxy'):
            cases.append({'kind': 'eqpair', 'a': a, 'b': b, 'mk': mk})
            if a != b:
                cases.append({'kind': 'eqpair', 'a': b, 'b': a, 'mk': mk})
    return cases


# ---- in-place operators with right operands that are not lists (replayable kind 'inplace') ------------------------------

def impl_inplace(case):
    """r = (recv OP= operand): r is the receiver, a second reference sees the update, the basket meta is retained, and (where the
    operand can be iterated twice) the content is what the list semantics say"""
    import random as _random
    from sugar import BioBasket
    from sugar.core.fts import FeatureList
    rng = _random.Random(case.get('seed', 0))
    if case['obj'] == 'basket':
        recv = r_basket(rng)
        recv.meta.keep = {'me': [1]}
        pool = [r_lower_seq(rng) for _ in range(3)] + list(recv)[:2]
    else:
        recv = r_fts(rng)
        pool = [r_feature(rng, 30, 's1') for _ in range(3)] + list(recv)[:2]
    items = [x for x in pool if rng.random() < 0.7] or pool[:1]
    okind = case['operand']
    operand = {'tuple': lambda: tuple(items), 'generator': lambda: (x for x in items), 'list': lambda: list(items),
               'dict_values': lambda: {i: x for i, x in enumerate(items)}.values(), 'iter': lambda: iter(items),
               'same_type': lambda: type(recv)(items), 'set': lambda: set(items)}[okind]
    try:
        arg = operand()
    except TypeError:
        return None                       # unhashable elements: no set operand exists
    alias = recv
    old = list(recv.data)
    meta_before = dsnap(getattr(recv, 'meta', None))
    items_before = [dsnap(x, light=True) for x in items]
    opname = case['op']
    mem = lambda x, l: any(x == y for y in l)
    expected = {'ior': old + [x for x in items if not mem(x, old)], 'iand': [x for x in old if mem(x, items)],
                'isub': [x for x in old if not mem(x, items)], 'iadd': old + list(items), 'ixor': None}[opname]
    try:
        r = getattr(_op, opname)(recv, arg)
    except Exception as e:
        return None if okind in ('generator', 'iter') else '%s %s= %s raised %s: %s' % (case['obj'], opname, okind, type(e).__name__, e)
    if r is not recv:
        return ('%s %s with a %s operand did not return the receiver (a new %s was bound instead: receiver unmodified, identity lost)'
                % (case['obj'], opname, okind, type(r).__name__))
    if alias is not recv or list(alias.data) != list(r.data):
        return 'a second reference does not see the update'
    if case['obj'] == 'basket' and dsnap(recv.meta) != meta_before:
        return 'basket meta was not retained by %s' % opname
    if [dsnap(x, light=True) for x in items] != items_before:
        return 'the elements of the right operand were changed'
    if expected is not None and okind not in ('generator', 'iter'):
        if len(recv.data) != len(expected) or any(a is not b for a, b in zip(recv.data, expected)):
            return '%s %s= %s: content %r, expected %r' % (case['obj'], opname, okind, recv.data, expected)
    return None


def inplace_matrix():
    return [{'kind': 'inplace', 'obj': obj, 'op': o, 'operand': k, 'seed': sd}
            for obj in ('basket', 'fts') for o in ('ior', 'iand', 'isub', 'ixor', 'iadd')
            for k in ('tuple', 'generator', 'dict_values', 'iter', 'list', 'same_type', 'set') for sd in (0, 1, 2)]


STRNS_ARGS = {'center': (9, '-'), 'count': ('A',), 'removeprefix': ('A',), 'removesuffix': ('A',), 'endswith': ('A',), 'find': ('A',),
              'index': ('A',), 'ljust': (9, 'N'), 'rjust': (9, 'N'), 'lstrip': ('A',), 'rstrip': ('A',), 'strip': ('A',),
              'replace': ('A', 'G'), 'rfind': ('A',), 'rindex': ('A',), 'split': ('A',), 'rsplit': ('A',), 'startswith': ('A',),
              'translate': ({65: 'T'},), 'maketrans': ('A', 'T')}


def impl_strns(case):
    """None, or why BioBasket.str.<m>() of a basket with n sequences is not the basket although BioSeq.str.<m>() works in place
    (or the other way round).  The same observation is the regenerated Coq table G_c18_str (C18_str_namespace_agrees)."""
    import warnings
    from sugar import BioSeq, BioBasket
    m, n = case['method'], case['n']
    args = STRNS_ARGS.get(m, ())
    with warnings.catch_warnings():
        warnings.simplefilter('ignore')
        s = BioSeq('ACGTA', id='a')
        try:
            inplace = getattr(s.str, m)(*args) is s
        except Exception:
            return None
        b = BioBasket([BioSeq('ACGTA', id='a'), BioSeq('TTAGCA', id='b')][:n])
        try:
            rb = getattr(b.str, m)(*args)
        except Exception as e:
            return 'BioBasket.str.%s raised %s on a basket with %d sequences' % (m, type(e).__name__, n) if inplace else None
    if inplace and rb is not b:
        return ('in-place operation BioBasket.str.%s on a basket with %d sequences did not return the receiver (returned %s)'
                % (m, n, type(rb).__name__))
    if not inplace and rb is b:
        return 'BioBasket.str.%s returns the basket although BioSeq.str.%s returns a value' % (m, m)
    return None


def strns_matrix():
    from sugar.core.seq import _BioSeqStr
    return [{'kind': 'strns', 'method': m, 'n': n} for m in sorted(x for x in dir(_BioSeqStr) if not x.startswith('_')) for n in (0, 1, 2)]


F20_WITNESS = {'kind': 'f20', 'reserved_key': True, 'key': 'items'}


def f20_probe(key='items'):
    """None if the mapping laws hold for this key, else a description"""
    from sugar.core.meta import Attr
    try:
        a = Attr({key: 1})
        if not (a == {key: 1}):
            return 'Attr({%r: 1}) != {%r: 1}' % (key, key)
        if a[key] != getattr(a, key):
            return 'attribute and key access differ for %r' % key
        if a.copy() != a:
            return 'copy differs'
        a.update({'z': 2})
        if dict(a.items()) != {key: 1, 'z': 2}:
            return 'items() wrong'
    except Exception as e:
        return 'key %r: %s: %s' % (key, type(e).__name__, e)
    return None


def extra_checks(rng, tier, cov):
    nh = 30000 if tier == 'thorough' else 800
    import random as _random
    kinds = ['seq', 'basket', 'fts', 'meta', 'gff_basket', 'seq', 'basket', 'gff_fts', 'attr', 'sjson_basket',
             'basket0', 'basket1', 'fts0', 'seq0', 'meta0']      # EMPTY / one-element receivers are legal values
    cov['histories'] = 0
    for i in range(nh):
        seed = rng.getrandbits(48)
        kind = kinds[i % len(kinds)]
        nops = 1 + (seed % 12)
        r = _random.Random(seed)
        why, trace = run_history(r, kind, nops, cov)
        cov['histories'] += 1
        if why:
            yield {'case': {'kind': 'history', 'obj': kind, 'seed': seed, 'nops': nops, 'trace': trace}, 'impl': why,
                   'spec': why, 'noshrink': True, 'model': None, 'wf': True, 'evaluated': False}
            break
    for i in range(200 if tier == 'thorough' else 40):
        seed = rng.getrandbits(48)
        for why in rewrap_checks(_random.Random(seed), cov):
            yield {'case': {'kind': 'rewrap', 'seed': seed}, 'impl': why, 'spec': why, 'noshrink': True, 'model': None, 'wf': True, 'evaluated': False}
            return
    import framework as F
    for i in range(2000 if tier == 'thorough' else 120):
        seed = rng.getrandbits(48)
        kind = SWEEP_KINDS[i % len(SWEEP_KINDS)]
        why = deep_edit_sweep(_random.Random(seed), kind, cov)
        cov['sweeps'] = cov.get('sweeps', 0) + 1
        if why:
            yield {'case': {'kind': 'sweep', 'obj': kind, 'seed': seed}, 'impl': why, 'spec': why,
                   'noshrink': True, 'model': None, 'wf': True, 'evaluated': False}
            return
    why = locmeta_nested_check()
    if why:
        yield {'case': {'kind': 'history', 'obj': 'fts', 'seed': 0, 'nops': 0, 'locmeta_nested': True}, 'impl': why, 'spec': why,
               'noshrink': True, 'model': None, 'wf': True, 'evaluated': False}
        return
    for mat, name in ((pure_matrix(tier), 'pure_matrix_cases'), (mapkind_matrix(), 'mapkind_matrix_cases'),
                      (eq_matrix(), 'eq_matrix_cases'), (inplace_matrix(), 'inplace_matrix_cases'),
                      (strns_matrix(), 'strns_matrix_cases')):
        cov[name] = len(mat)
        for case in mat:
            why = F.jcanon(F.run_impl(impl, case))
            if why:
                yield {'case': case, 'impl': why, 'spec': str(why), 'noshrink': True, 'model': None, 'wf': True, 'evaluated': False}
                return
    # open finding F20: reported through known_findings.json while its witness still fails
    bad = [k for k in MAPPING_METHODS if f20_probe(k)]
    cov['f20_keys_failing'] = bad
    if bad:
        w = f20_probe(bad[0])
        yield {'case': dict(F20_WITNESS, key=bad[0]), 'impl': w, 'spec': 'F20: ' + w, 'noshrink': True, 'model': None, 'wf': True, 'evaluated': False}
