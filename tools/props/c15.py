"""C15 -- Stockholm annotations survive I/O; row2fts/fts2row invert: cases, driver, model terms, oracle."""
import io, os, re, shutil, sys, tempfile, zlib
from framework import coq_bs, coq_N, coq_nat, coq_list, canon_exc

ID = 'C15'
COQ_IMPORTS = ['C15_Model']
GENERATORS = ['gen_flags']
MODELLED_FUNCS = {'sugar/_io/stockholm.py': ['is_stockholm', 'row2fts', 'fts2row', 'read_stockholm', 'write_stockholm']}
NO_SHRINK_KEYS = ['via', 'pos', 'in', 'out']
# Finding "handle_pos" (found by the chain stream in round 6, fixed in /repo by fae7633; witnesses in corpus/C15/handle_pos.json):
# binary handles were left at the 8 KiB read-ahead position of the text layer, and text files could not be read with detection
# after a first read. Since the fix the chain stream generates every handle kind with every mixture of given / detected format
# and compares the handle position after every step.
OPS = {'rt': 0, 'blocks': 1, 'multi': 2, 'read': 3, 'row2fts': 4, 'fts2row': 5, 'rowrt': 6, 'ftsrt': 7, 'readc': 8, 'multiloc': 9}
RESERVED = ['items', 'keys', 'values', 'get', 'update', 'pop', 'copy', 'setdefault', 'clear', 'popitem']
RULE = ('abstract alignments (1-6 rows, width 1-70, random GF/GC/GS/GR sets with adversarial ids/keys/values) written by sugar and '
        'read back (StringIO handle, real files by name/Path/handle/BytesIO/glob pattern, zip/tar/gztar/bz2 archives); the same alignments rendered by an independent interleaving renderer at every '
        'block width; 1-4 alignments per handle read repeatedly; CHAINS: successive reads on ONE handle (io.StringIO, open(f) text files, BytesIO, open(f, "rb"), unbuffered FileIO, NamedTemporaryFile) over files of 1-4 alignments behind leading bytes the caller consumed (also more than the 8 KiB read-ahead), the handle positioned by read/seek/readline also behind the first alignments, the format given or auto-detected in any mixture from step to step, result AND handle offset of every step compared with the model; TRANSPORTS of the round trip (36 besides the plain string: names with neutral/no/other registered extensions, Path, text/binary handles on either side, tofmtstr/fromfmtstr, gz by extension and option, every archive kind and archive= option, stdin, DOS line ends, iter_); the COMMAND LINE converter (sugar.scripts.cli convert, in process: -f/-fo/-o in every combination that resolves to Stockholm, stdout captured; and in a subprocess through stdin/stdout) on interleaved input; BIG files (9-20 thousand columns, beyond every buffer on the way) once through every transport, handle kind and the converter (oracle only); raw texts with DOS line ends / without header line;  raw texts with repeated GF/GS tags (adjacent and non-adjacent, merged with other tags and moved between sequence blocks), comments, blank lines, '
        'shuffled markup and garbage lines; HISTORIES (several calls in one process on the same objects/texts/rows with in-place edits of baskets, of read results and of returned feature lists in between, other options and colliding inputs; every step compared with the model on the current value); random well-formed and malformed feature lists and rows for fts2row/row2fts and both '
        'compositions; features with several locations (split, nested, later start with earlier stop, both strands, any order); non-trivial = distinct case with annotations of some kind, >1 block, >1 alignment, repeated lines, '
        'shared boundary / open end / offset / long feature')
TRUSTED = ['CPython str.strip/split(maxsplit)/startswith/find/center/upper, re.split("[.]+"), dict insertion order, sorted() stability, '
           'io.StringIO line iteration (all modelled by hand and compared on every case)',
           'handle positions: a handle is modelled as (text, offset); detect() = is_stockholm at the offset + seek back (main.py:61-79), sniffers of other formats are C03; TextIOWrapper/gzip/shutil/argparse/print are CPython and only compared',
           'sugar.scripts.convert modelled as read then write (scripts.py:33-45); iter_ as the rows of read (main.py:236-249)',
           'modelled: read_stockholm (stockholm.py:95-162), write_stockholm (166-203), row2fts (21-54), fts2row (57-91), '
           'BioSeq.__init__ upper-casing, Attr as insertion-ordered mapping']
ASSUMPTIONS = ['Python str restricted to Latin-1 code points; domain restricted to printable ASCII',
               'annotation keys outside the reserved set R of open finding F20',
               'sequence ids do not start with "#" or "//" (those lines are markup / terminator in the format itself)',
               'residue strings are upper-case (BioSeq upper-cases on construction)']
GRAPH = ''.join(chr(c) for c in range(33, 127))
NAMECH = 'abcdefghijklmnopqrstuvwxyzABCDEFGHIJKLMNOPQRSTUVWXYZ0123456789_'


# ----------------------------------------------------------------------------- coq printers
def coq_dict(d):
    return coq_list(['(%s, %s)' % (coq_bs(k), coq_bs(v)) for k, v in d])


def coq_aln(a):
    rows = ['(mkrow %s %s %s %s)' % (coq_bs(r[0]), coq_bs(r[1]), coq_dict(r[2]), coq_dict(r[3])) for r in a['rows']]
    return '(mkaln %s %s %s)' % (coq_dict(a['gf']), coq_dict(a['gc']), coq_list(rows))


def coq_fts(fts):
    return coq_list(['(mkft %s %s %s %s)' % (coq_nat(f[0]), coq_nat(f[1]), coq_N(f[2]), coq_bs(f[3])) for f in fts])


def model_term(case):
    if case.get('op') not in OPS and case.get('op') not in ('hist', 'chain', 'convert'):
        return 'out VNone'                      # (a shrunk, meaningless case)
    if case['op'] == 'hist':
        return 'out (hist_join %s)' % coq_list([model_val(st['case']) for st in case['_steps'] if 'case' in st])
    return 'out (%s)' % model_val(case)


def model_val(case):
    op = case['op']
    if op == 'chain':
        return '(run_C15_chain %s %s %s %s)' % (coq_list([coq_aln(a) for a in case['alns']]), coq_bs(case['pre']),
                                                coq_list(['true' if x else 'false' for x in case['steps']]), coq_nat(case['start']))
    if op == 'rt' and str(case.get('via', '')).startswith('crlf'):
        return '(run_C15_crlf %s)' % coq_aln(case['aln'])
    if op == 'rt' and str(case.get('via', '')).startswith('iter'):
        return '(run_C15_iter %s)' % coq_aln(case['aln'])
    if op == 'convert':
        return '(run_C15_convert %s %s %s)' % (coq_aln(case['aln']), coq_nat(case['bw']), 'true' if case['stdout'] else 'false')
    alns = [case['aln']] if 'aln' in case else case.get('alns', [])
    n = case.get('bw', case.get('n', 0))
    t = case.get('text', case.get('row', ''))
    mf = coq_list(['(%s, %s, %s)' % (coq_bs(name), 'true' if minus else 'false',
                                     coq_list(['(%s, %s, %s)' % (coq_nat(a), coq_nat(b), coq_N(d)) for a, b, d in locs]))
                   for name, minus, locs in case.get('mfts', [])])
    return '(run_C15 %s %s %s %s %s %s)' % (coq_N(OPS[op]), coq_list([coq_aln(a) for a in alns]), coq_nat(n), coq_bs(t),
                                               coq_fts(case.get('fts', [])), mf)


def split_model(case, m):
    if not isinstance(m, list) or len(m) != 2:
        return False, m
    return bool(m[0]), m[1]


# ----------------------------------------------------------------------------- implementation driver
def build(a):
    from sugar import BioSeq, BioBasket, Attr
    seqs = []
    for sid, data, gs, gr in a['rows']:
        s = BioSeq(data, id=sid)
        st = {}
        if gs or a.get('empties'):
            st['GS'] = dict(gs)
        if gr or a.get('empties'):
            st['GR'] = dict(gr)
        if st or a.get('empties'):
            s.meta['_stockholm'] = Attr(st)
        seqs.append(s)
    b = BioBasket(seqs)
    st = {}
    if a['gf'] or a.get('empties'):
        st['GF'] = dict(a['gf'])
    if a['gc'] or a.get('empties'):
        st['GC'] = dict(a['gc'])
    if st or a.get('empties'):
        b.meta['_stockholm'] = Attr(st)
    return b


def _pairs(m, name):
    try:
        d = m['_stockholm'][name]
    except KeyError:
        return []
    return [[k, d[k]] for k in d]


def canon(b):
    return [_pairs(b.meta, 'GF'), _pairs(b.meta, 'GC'),
            [[s.id, str(s), _pairs(s.meta, 'GS'), _pairs(s.meta, 'GR')] for s in b]]


def reads(text, n):
    from sugar import read
    f = io.StringIO(text)
    out = []
    for _ in range(n):
        try:
            r = canon(read(f, 'stockholm'))
        except Exception as e:
            r = canon_exc(e)
        out.append([r, text[f.tell():]])
    return out


def ft_tuple(ft):
    assert len(ft.locs) == 1
    return [ft.loc.start, ft.loc.stop, int(ft.loc.defect), ft.name]


def mkfts(fts):
    from sugar.core.fts import Defect, Feature, FeatureList, Location
    out = []
    for start, stop, d, name in fts:
        ft = Feature(None, [Location(start, stop, defect=Defect(d))])
        ft.meta.name = name
        out.append(ft)
    return FeatureList(out)


# ----------------------------------------------------------------------------- transports of the round trip
class _Stdin:
    """stand-in for sys.stdin of read('-') (main.py:165-166 reads sys.stdin.buffer)"""
    def __init__(self, data):
        self.buffer = io.BytesIO(data)


def run_transport(b, via):
    """write the basket and read it back through one transport; returns [text written, [canonical read, '']].
    For the iter_ transports the alignment-level part is None (iter_ yields sequences, there is no basket)."""
    import gzip, pathlib
    from sugar import read, iter_, BioBasket
    d = tempfile.mkdtemp(prefix='C15-', dir='/tmp')
    try:
        p = os.path.join(d, 'x.stk')
        rows_only = False
        if via in ('zip', 'tar', 'gztar', 'bztar', 'xztar', 'arch', 'zipopt'):      # write(..., archive=...) and read of the archive
            b.write(p, 'stockholm', archive=True if via == 'arch' else 'zip' if via == 'zipopt' else via)
            (name,) = os.listdir(d)
            text = b.tofmtstr('stockholm')
            if via == 'zipopt':                 # an archive behind a neutral name, named by the option
                os.rename(os.path.join(d, name), os.path.join(d, 'pack.bin'))
                r = read(os.path.join(d, 'pack.bin'), archive='zip')
            else:
                r = read(os.path.join(d, name))
        elif via in ('fmtstr', 'fmtstr_fmt', 'fmtstr_bytes'):                       # BioBasket.tofmtstr / fromfmtstr
            text = b.tofmtstr('stockholm')
            r = (BioBasket.fromfmtstr(text) if via == 'fmtstr' else BioBasket.fromfmtstr(text, fmt='stockholm') if via == 'fmtstr_fmt'
                 else BioBasket.fromfmtstr(text.encode('latin-1')))
        elif via.startswith('crlf'):                                                 # the file with DOS line ends
            text = b.tofmtstr('stockholm').replace('\n', '\r\n')
            with open(p, 'wb') as fh:
                fh.write(text.encode('latin-1'))
            if via == 'crlf_sio':
                f = io.StringIO(text)
                r = read(f)
                assert all(s.meta._fmt == 'stockholm' for s in r)
                return [text, [canon(r), text[f.tell():]]]
            if via == 'crlf_handle':
                with open(p) as fh:
                    r = read(fh, 'stockholm')
            else:
                r = read(p) if via == 'crlf_file' else read(io.BytesIO(text.encode('latin-1')))
        elif via == 'wbytes':                                                        # binary handle on both sides
            bio = io.BytesIO()
            b.write(bio, 'stockholm')
            text = bio.getvalue().decode('latin-1')
            r = read(io.BytesIO(bio.getvalue()))
        elif via == 'stdin':                                                         # read('-')
            text = b.tofmtstr('stockholm')
            old = sys.stdin
            sys.stdin = _Stdin(text.encode('latin-1'))
            try:
                r = read('-')
            finally:
                sys.stdin = old
        else:
            if via == 'wpath':                                                       # format from the extension of a Path
                b.write(pathlib.Path(p))
            elif via in ('wext_sto', 'wext_stockholm'):                              # the other registered extensions
                p = os.path.join(d, 'x.' + via[5:])
                b.write(p)
            elif via == 'whandle':
                with open(p, 'w') as fh:
                    b.write(fh, 'stockholm')
            elif via in ('neutral', 'iter_neutral'):                                 # nothing in the name says Stockholm
                p = os.path.join(d, 'x.dat')
                b.write(p, 'stockholm')
            elif via == 'noext':
                p = os.path.join(d, 'x')
                b.write(p, 'stockholm')
            else:
                b.write(p, 'stockholm')
            text = open(p, newline='').read()
            if via == 'glob':                              # a pattern matching exactly the file
                r = read(os.path.join(d, '*.stk'))
            elif via == 'glob2':
                r = read(os.path.join(d, '**', 'x.st?'))
            elif via == 'handle':
                with open(p) as fh:
                    r = read(fh, 'stockholm')
            elif via == 'handle_auto':                     # text handle, format detected
                with open(p) as fh:
                    r = read(fh)
            elif via == 'bytes':
                with open(p, 'rb') as fh:
                    r = read(io.BytesIO(fh.read()))
            elif via == 'bhandle':                         # binary file handle, format detected
                with open(p, 'rb') as fh:
                    r = read(fh)
            elif via == 'path':
                r = read(pathlib.Path(p))
            elif via in ('gz', 'gzopt'):                   # gzip-compressed file: by extension / by option
                q = p + '.gz' if via == 'gz' else os.path.join(d, 'x.bin')
                with open(p, 'rb') as fi, gzip.open(q, 'wb') as fo:
                    fo.write(fi.read())
                os.unlink(p)
                r = read(q) if via == 'gz' else read(q, archive='gz')
            elif via in ('iter', 'iter_neutral', 'iter_fmt', 'iter_handle'):   # iter_ yields the sequences with their GS/GR
                rows_only = True
                if via == 'iter_handle':
                    with open(p) as fh:
                        r = list(iter_(fh))
                else:
                    r = list(iter_(p, 'stockholm') if via == 'iter_fmt' else iter_(p))
            else:
                r = read(p)          # format auto-detected
        assert all(s.meta._fmt == 'stockholm' for s in r)
        if rows_only:
            return [text, [[None, None, [[s.id, str(s), _pairs(s.meta, 'GS'), _pairs(s.meta, 'GR')] for s in r]], '']]
        return [text, [canon(r), '']]
    finally:
        shutil.rmtree(d, ignore_errors=True)


# ----------------------------------------------------------------------------- successive reads on one handle
def run_chain(case):
    """case: alns, pre (leading text the caller consumes), start (alignments the caller skips), pos (how the caller gets
    there), kind (sio | tfile | bio | bfile | raw | ntf), steps (1 = format detected, 0 = format given).
    Returns [texts written, [[alignment | exception, offset behind the read], ...]]"""
    from sugar import read
    texts = [build(a).tofmtstr('stockholm') for a in case['alns']]
    pre, kind, steps = case['pre'], case['kind'], case['steps']
    text = pre + ''.join(texts)
    off = len(pre) + sum(len(t) for t in texts[:case['start']])
    d = None
    try:
        if kind in ('tfile', 'bfile'):
            d = tempfile.mkdtemp(prefix='C15-', dir='/tmp')
            p = os.path.join(d, 'multi.dat')
            with open(p, 'w', newline='') as fh:
                fh.write(text)
            f = open(p) if kind == 'tfile' else open(p, 'rb', buffering=0) if kind == 'raw' else open(p, 'rb')
        elif kind == 'ntf':                      # a binary wrapper that is no io class (tempfile.NamedTemporaryFile)
            f = tempfile.NamedTemporaryFile(prefix='C15-', dir='/tmp')
            f.write(text.encode('latin-1'))
            f.flush()
            f.seek(0)
        elif kind == 'sio':
            f = io.StringIO(text)
        else:
            f = io.BytesIO(text.encode('latin-1'))
        with f:
            pos = case.get('pos', 'read')
            if pos == 'seek':
                f.seek(off)
            elif pos == 'lines':                # (the generator asks for this only when off is at a line start)
                n = 0
                while n < off:
                    n += len(f.readline())
                assert n == off
            else:
                got = f.read(off)
                assert len(got) == off
            out = []
            for i, au in enumerate(steps):
                try:
                    r = canon(read(f) if au else read(f, 'stockholm'))
                except Exception as e:
                    r = canon_exc(e)
                if kind != 'tfile':
                    where = f.tell()
                else:                           # the position of a text file is an opaque cookie: measure what is left and go back
                    cookie = f.tell()
                    where = len(text) - len(f.read())
                    f.seek(cookie)
                out.append([r, where])
        return [texts, out]
    finally:
        if d is not None:
            shutil.rmtree(d, ignore_errors=True)


# ----------------------------------------------------------------------------- the command-line converter
def run_convert(case):
    """sugar convert IN [-f stockholm] [-o OUT] [-fo stockholm] run in process (sugar.scripts.cli); IN holds the alignment in
    blocks of bw columns. Returns [input text, [output text, [canonical read of the output, rest]]]"""
    import contextlib
    from sugar import read
    from sugar.scripts import cli
    text = render(case['aln'], case['bw'])
    d = tempfile.mkdtemp(prefix='C15-', dir='/tmp')
    try:
        fin = os.path.join(d, case.get('in', 'in.stk'))
        with open(fin, 'w', newline='') as fh:
            fh.write(text)
        argv = ['convert', fin] + (['-f', 'stockholm'] if case.get('f') else []) + (['-fo', 'stockholm'] if case.get('fo') else [])
        try:
            if case['stdout']:
                buf = io.StringIO()
                with contextlib.redirect_stdout(buf):
                    cli(argv)
                out = buf.getvalue()
            else:
                fout = os.path.join(d, case.get('out', 'out.stk'))
                cli(argv + ['-o', fout])
                out = open(fout, newline='').read()
        except SystemExit as e:
            raise RuntimeError('SystemExit %r' % (e.code,))
        f = io.StringIO(out)
        r = canon(read(f, 'stockholm'))
        return [text, [out, [r, out[f.tell():]]]]
    finally:
        shutil.rmtree(d, ignore_errors=True)


# ----------------------------------------------------------------------------- histories (state-independence stream)
def apply_edits(a, edits):
    """abstract alignment after in-place edits (pure; the generator stores the result in the case)"""
    import copy
    a = copy.deepcopy({'gf': a['gf'], 'gc': a['gc'], 'rows': a['rows']})

    def setd(d, k, v):
        for p in d:
            if p[0] == k:
                p[1] = v
                return
        d.append([k, v])
    for e in edits:
        if e[0] == 'gf_set':
            setd(a['gf'], e[1], e[2])
        elif e[0] == 'gf_del':
            a['gf'] = [p for p in a['gf'] if p[0] != e[1]]
        elif e[0] == 'gc_set':
            setd(a['gc'], e[1], e[2])
        elif e[0] == 'gs_set':
            setd(a['rows'][e[1]][2], e[2], e[3])
        elif e[0] == 'gr_set':
            setd(a['rows'][e[1]][3], e[2], e[3])
        elif e[0] == 'gr_del':
            a['rows'][e[1]][3] = [p for p in a['rows'][e[1]][3] if p[0] != e[2]]
        elif e[0] == 'data':
            a['rows'][e[1]][1] = e[2]
        elif e[0] == 'id':
            a['rows'][e[1]][0] = e[2]
    return a


def edit_basket(b, edits):
    """the same edits, in place, on sugar objects"""
    from sugar import Attr

    def box(meta, name):
        return meta.setdefault('_stockholm', Attr()).setdefault(name, Attr())
    for e in edits:
        if e[0] == 'gf_set':
            box(b.meta, 'GF')[e[1]] = e[2]
        elif e[0] == 'gf_del':
            del b.meta._stockholm.GF[e[1]]
        elif e[0] == 'gc_set':
            box(b.meta, 'GC')[e[1]] = e[2]
        elif e[0] == 'gs_set':
            box(b[e[1]].meta, 'GS')[e[2]] = e[3]
        elif e[0] == 'gr_set':
            box(b[e[1]].meta, 'GR')[e[2]] = e[3]
        elif e[0] == 'gr_del':
            del b[e[1]].meta._stockholm.GR[e[2]]
        elif e[0] == 'data':
            b[e[1]].data = e[2]
        elif e[0] == 'id':
            b[e[1]].id = e[2]


def edit_tuples(fts, ed):
    out = [[f[0] + ed.get('shift', 0), f[1] + ed.get('shift', 0), f[2], f[3]] for f in fts]
    if 'rename' in ed:
        out[ed['rename'][0]][3] = ed['rename'][1]
    if 'delete' in ed:
        del out[ed['delete']]
    return out


def run_hist(case):
    from sugar import read
    from sugar._io.stockholm import row2fts, fts2row
    env, outs = {}, []
    for st in case['_steps']:
        do = st['do']
        if do == 'build':
            env[st['as']] = build(st['aln'])
            continue
        if do == 'edit_aln':
            edit_basket(env[st['on']], st['edits'])
            continue
        if do == 'edit_fts':
            fl, ed = env[st['on']], st['ed']
            for ft in fl:
                ft.loc.start += ed.get('shift', 0)
                ft.loc.stop += ed.get('shift', 0)
            if 'rename' in ed:
                fl[ed['rename'][0]].name = ed['rename'][1]
            if 'delete' in ed:
                del fl[ed['delete']]
            continue
        sub = st['case']
        try:
            if do == 'row2fts':
                kw = {'type_': 'dom', 'seqid': 's1'} if st.get('kw') else {}
                r = row2fts(sub['row'], **kw)
                if 'as' in st:
                    env[st['as']] = r
                assert all((ft.type, ft.seqid) == (('dom', 's1') if st.get('kw') else (None, None)) for ft in r)
                obs = [ft_tuple(ft) for ft in r]
            elif do == 'fts2row':
                obs = fts2row(env[st['on']] if 'on' in st else mkfts(sub['fts']))
            elif do == 'write':
                text = env[st['on']].tofmtstr('stockholm')
                f = io.StringIO(text)
                r = read(f, 'stockholm')
                if 'keep' in st:
                    env[st['keep']] = r
                obs = [text, [canon(r), text[f.tell():]]]
            elif do == 'read':
                f = io.StringIO(sub['text'])
                obs = []
                for i in range(sub['n']):
                    r = read(f, 'stockholm')
                    if i == 0 and 'as' in st:
                        env[st['as']] = r
                    obs.append([canon(r), sub['text'][f.tell():]])
            elif do == 'blocks':
                text = render(sub['aln'], sub['bw'])
                obs = [text, reads(text, 1)[0]]
            else:
                raise RuntimeError(do)
        except Exception as e:
            obs = canon_exc(e)
        outs.append(obs)
    return outs


def impl(case):
    op = case['op']
    if op == 'hist':
        return run_hist(case)
    if op == 'chain':
        return run_chain(case)
    if op == 'convert':
        return run_convert(case)
    if op == 'rt':
        b = build(case['aln'])
        via = case.get('via')
        if via not in (None, '', 'str'):
            return run_transport(b, via)
        text = b.tofmtstr('stockholm')
        return [text, reads(text, 1)[0]]
    if op == 'blocks':
        text = render(case['aln'], case['bw'])
        return [text, reads(text, 1)[0]]
    if op == 'multi':
        text = ''.join(build(a).tofmtstr('stockholm') for a in case['alns'])
        return [text, reads(text, case['n'])]
    if op == 'read':
        return reads(case['text'], case['n'])
    if op == 'readc':
        from sugar import read
        f = io.StringIO(case['text'])
        comments = []
        try:
            r = canon(read(f, 'stockholm', comments=comments))
        except Exception as e:
            r = canon_exc(e)
        return [[r, case['text'][f.tell():]], comments]
    from sugar._io.stockholm import row2fts, fts2row
    if op == 'multiloc':
        from sugar.core.fts import Defect, Feature, FeatureList, Location
        fl = []
        for name, minus, locs in case['mfts']:
            ft = Feature(None, [Location(a, b, strand='-' if minus else '+', defect=Defect(d)) for a, b, d in locs])
            ft.meta.name = name
            fl.append(ft)
        try:
            r1 = fts2row(FeatureList(fl))
        except Exception as e:
            return [canon_exc(e), canon_exc(e)]
        return [r1, [ft_tuple(ft) for ft in row2fts(r1)]]
    if op == 'row2fts':
        return [ft_tuple(ft) for ft in row2fts(case['row'])]
    if op == 'fts2row':
        return fts2row(mkfts(case['fts']))
    if op == 'rowrt':
        f1 = row2fts(case['row'], type_='x', seqid='s')
        assert all(ft.type == 'x' and ft.seqid == 's' for ft in f1)
        t1 = [ft_tuple(ft) for ft in f1]
        try:
            r1 = fts2row(f1)
        except Exception as e:
            return [t1, canon_exc(e), canon_exc(e)]
        return [t1, r1, [ft_tuple(ft) for ft in row2fts(r1)]]
    if op == 'ftsrt':
        try:
            r1 = fts2row(mkfts(case['fts']))
        except Exception as e:
            return [canon_exc(e), canon_exc(e)]
        return [r1, [ft_tuple(ft) for ft in row2fts(r1)]]
    raise RuntimeError(op)


# ----------------------------------------------------------------------------- independent renderer (interleaved form)
def render(a, bw, rng=None, o=None, info=None):
    """Stockholm text of abstract alignment a in blocks of bw columns; with rng/o: cosmetic variations that do not
    change the content (blank lines, comments, field separators, split GF/GS text lines, moved markup)."""
    o = o or {}
    sep = (lambda: rng.choice([' ', '  ', '\t', ' \t ', '     '])) if o.get('seps') else (lambda: ' ')

    def frags(v):
        """pieces of a text value; joined by single spaces they give v back"""
        if not o.get('splitgf') or ' ' not in v:
            return [v]
        ws = v.split(' ')
        if not all(ws) or len(ws) < 2:         # only values whose words are separated by single spaces are split
            return [v]
        cut = sorted(rng.sample(range(1, len(ws)), rng.randint(1, min(3, len(ws) - 1))))
        parts, last = [], 0
        for c in cut + [len(ws)]:
            parts.append(' '.join(ws[last:c]))
            last = c
        return parts

    head = [] if o.get('nohead') else ['# STOCKHOLM 1.0']     # (the header line is only needed for detection)
    # every GF / GS entry is a queue of fragments; the queues are merged in random order, so repeats of one tag are
    # adjacent or separated by lines of other tags (Rfam/Pfam RN/RM/RT reference groups, split CC lines)
    queues = [['#=GF', '', k, frags(v)] for k, v in a['gf']]
    for sid, _, gs, _ in a['rows']:
        queues += [['#=GS', sid, k, frags(v)] for k, v in gs]
    markup, order = [], []
    if o.get('splitgf') and rng is not None and rng.random() < 0.8:
        live = [q for q in queues]
        cur = None
        while live:
            if cur is None or not any(cur is q for q in live) or rng.random() < 0.6:
                cur = live[0] if rng.random() < 0.5 else rng.choice(live)
            tag, sid, k, fr = cur
            markup.append(tag + sep() + (sid + sep() if sid else '') + k + sep() + fr.pop(0))
            order.append((tag, sid, k))
            if not fr:
                live = [q for q in live if q is not cur]
    else:
        for tag, sid, k, fr in queues:
            for f in fr:
                markup.append(tag + sep() + (sid + sep() if sid else '') + k + sep() + f)
                order.append((tag, sid, k))
    if info is not None:
        # expected key orders: first occurrence in the file; values: all fragments joined by single spaces = the value
        info['gf'] = list(dict.fromkeys(k for tag, sid, k in order if tag == '#=GF'))
        info['gs'] = {}
        for tag, sid, k in order:
            if tag == '#=GS' and k not in info['gs'].setdefault(sid, []):
                info['gs'][sid].append(k)
        info['nonadjacent'] = any(order[i] in order[:i] and
                                  any(x[0] == order[i][0] and x != order[i] for x in order[order[:i].index(order[i]) + 1:i])
                                  for i in range(1, len(order)))
    w = len(a['rows'][0][1]) if a['rows'] else 0
    body = []
    nb = (w + bw - 1) // bw if bw > 0 else 0
    for b in range(nb):
        for sid, data, _, gr in a['rows']:
            body.append(sid + sep().replace('\t', ' ') + data[b * bw:(b + 1) * bw])
            for k, v in gr:
                body.append('#=GR' + sep() + sid + sep() + k + sep() + v[b * bw:(b + 1) * bw])
        for k, v in a['gc']:
            body.append('#=GC' + sep() + k + sep() + v[b * bw:(b + 1) * bw])
        body.append('')
    if o.get('move'):
        # move markup lines to random later places, keeping their relative order
        pos = sorted(rng.randint(0, len(body)) for _ in markup)
        out, mi = [], 0
        for i in range(len(body) + 1):
            while mi < len(markup) and pos[mi] == i:
                out.append(markup[mi])
                mi += 1
            if i < len(body):
                out.append(body[i])
        lines = head + out
    else:
        lines = head + markup + body
    if o.get('noise'):
        out = []
        for ln in lines:
            r = rng.random()
            if r < 0.08:
                out.append('')
            elif r < 0.16:
                out.append(rng.choice(['# a comment', '#', '#=GX foo', '#=G', '#x y z', '   ', '# STOCKHOLM 1.0', '\t']))
            out.append((rng.choice(['', ' ', '\t', '  ']) if r > 0.8 else '') + ln + (rng.choice(['', ' ', ' \t']) if r > 0.9 else ''))
        lines = out
    end = o.get('end', '//')
    return '\n'.join(lines + ([end] if end is not None else [])) + '\n'


def canon_aln(a):
    return [[list(p) for p in a['gf']], [list(p) for p in a['gc']],
            [[r[0], r[1], [list(p) for p in r[2]], [list(p) for p in r[3]]] for r in a['rows']]]


def canon_aln_ordered(a, info):
    gf, gsd = dict(a['gf']), {r[0]: dict(r[2]) for r in a['rows']}
    return [[[k, gf[k]] for k in info['gf']], [list(p) for p in a['gc']],
            [[r[0], r[1], [[k, gsd[r[0]][k]] for k in info['gs'].get(r[0], [])], [list(p) for p in r[3]]] for r in a['rows']]]


EMPTY = [[], [], []]


def n_lines(a):
    """lines of the single-block form: header, terminator, one per GF / GS / GR / GC entry and per sequence"""
    return 2 + len(a['gf']) + len(a['gc']) + sum(1 + len(r[2]) + len(r[3]) for r in a['rows'])


# ----------------------------------------------------------------------------- independent row oracle
def spec_row2fts(row):
    """Features of an annotation row from first principles: '|' are boundary columns, a feature is a stretch between two
    boundaries (or a row end = open end) that carries a name; it includes its boundary columns."""
    bars = [i for i, c in enumerate(row) if c == '|']
    bounds = sorted(set([0] + bars + [len(row) - 1]))
    fts = []
    edges = []
    if not row:
        return []
    # candidate stretches: between consecutive boundary columns; the row ends count as (open) boundaries
    cols = sorted(set(bars))
    pts = ([] if cols and cols[0] == 0 else [0]) + cols
    for idx, lo in enumerate(pts):
        hi = pts[idx + 1] if idx + 1 < len(pts) else None
        inner = row[lo + 1:hi] if hi is not None else row[lo + 1:]
        names = set(re.findall(r'[^.|]+', inner))
        if not names:
            continue
        name = sorted(names, key=len)[0]
        d = 0
        if row[lo] != '|':
            d |= 1
        if hi is None:
            d |= 2
        fts.append([lo, (hi + 1) if hi is not None else len(row), d, name])
    return fts


def spec_row_of(fts, row):
    """Does row show the (sorted, well-formed) features?"""
    if isinstance(row, dict):
        return 'raised %s' % row['e']
    if len(row) != (fts[-1][1] if fts else 0):
        return 'row length %d != last stop' % len(row)
    covered = [False] * len(row)
    for start, stop, d, name in fts:
        for i in range(start, stop):
            covered[i] = True
        if (row[start] == '|') != (not d & 1):
            return 'left end of %r wrong in %r' % (name, row)
        if (row[stop - 1] == '|') != (not d & 2):
            return 'right end of %r wrong in %r' % (name, row)
        inner = row[start + 1:stop - 1]
        if set(re.findall(r'[^.]+', inner)) != {name}:
            return 'name %r not shown in %r' % (name, inner)
    if any(c != '.' for c, cv in zip(row, covered) if not cv):
        return 'uncovered columns not dots in %r' % row
    return None


def spec(case, got):
    op = case['op']
    if op == 'hist':
        if isinstance(got, dict):
            return 'history raised %s' % got['e']
        subs = [st for st in case['_steps'] if 'case' in st]
        for i, (st, obs) in enumerate(zip(subs, got)):
            why = spec(st['case'], obs)
            if why:
                return 'step %d (%s): %s' % (i, st['do'], why)
        return None
    if op == 'rt' or op == 'blocks':
        if isinstance(got, dict):
            return 'raised %s' % got['e']
        text, (parsed, rest) = got
        exp = canon_aln(case['aln'])
        if parsed[0] is None and parsed[1] is None and str(case.get('via', '')).startswith('iter'):
            if parsed[2] != exp[2]:             # iter_: every sequence with its own GS / GR
                return 'iter_ gives %r' % (parsed[2],)
        elif parsed != exp:
            return 'read back %r' % (parsed,)
        if rest != '':
            return 'rest of handle %r' % rest
        if op == 'rt' and text.count('\n') != n_lines(case['aln']):
            return 'written text has %d lines, expected one per entry: %d' % (text.count('\n'), n_lines(case['aln']))
        return None
    if op == 'chain':
        if isinstance(got, dict):
            return 'raised %s' % got['e']
        texts, steps = got
        if len(texts) != len(case['alns']) or len(steps) != len(case['steps']):
            return 'shape'
        end = len(case['pre']) + sum(len(t) for t in texts)
        for i, (r, where) in enumerate(steps):
            k = case['start'] + i
            exp = canon_aln(case['alns'][k]) if k < len(texts) else EMPTY
            if r != exp:
                return 'read %d on the handle (%s, format %s) gives %r, expected alignment %d' % (
                    i, case['kind'], 'detected' if case['steps'][i] else 'given', r, k)
            expoff = min(end, len(case['pre']) + sum(len(t) for t in texts[:k + 1]))
            if where != expoff:
                return 'read %d leaves the handle at %r, the alignment ends at %d' % (i, where, expoff)
        return None
    if op == 'convert':
        if isinstance(got, dict):
            return 'raised %s' % got['e']
        text, res = got
        if isinstance(res, dict):
            return 'converter raised %s' % res['e']
        out, (parsed, rest) = res
        if parsed != canon_aln(case['aln']):
            return 'converted file reads as %r' % (parsed,)
        if rest != ('\n' if case['stdout'] else ''):
            return 'rest behind the converted alignment %r' % rest
        if out.count('\n') != n_lines(case['aln']) + (1 if case['stdout'] else 0):
            return 'converted text has %d lines' % out.count('\n')
        return None
    if op == 'multi':
        if isinstance(got, dict):
            return 'raised %s' % got['e']
        text, rs = got
        for i, (parsed, rest) in enumerate(rs):
            exp = canon_aln(case['alns'][i]) if i < len(case['alns']) else EMPTY
            if parsed != exp:
                return 'read %d gives %r' % (i, parsed)
            if not text.endswith(rest) or (i >= len(case['alns']) - 1 and rest != ''):
                return 'rest after read %d is %r' % (i, rest)
            if i < len(case['alns']) - 1 and not rest.startswith('# STOCKHOLM'):
                return 'read %d did not stop at the end of the alignment' % i
        return None
    if op == 'readc':
        if isinstance(got, dict):
            return 'raised %s' % got['e']
        (parsed, rest), comments = got
        # first principles: comment lines are the stripped lines starting with '#' that are not markup / header,
        # up to the terminator or the offending line
        exp = []
        for ln in case['text'][:len(case['text']) - len(rest)].split('\n'):
            t = ln.strip()
            if t.startswith('#') and t[:4] not in ('#=GF', '#=GC', '#=GS', '#=GR') and not t.startswith('# STOCKHOLM'):
                exp.append(t)
        return None if comments == exp else 'comments %r, expected %r' % (comments, exp)
    if op == 'multiloc':
        if isinstance(got, dict):
            return 'raised %s' % got['e']
        red = []
        for name, minus, locs in case['mfts']:          # first principles: the feature spans all its locations
            srt = sorted(locs, key=(lambda l: -l[1]) if minus else (lambda l: l[0]))
            red.append([min(l[0] for l in locs), max(l[1] for l in locs), (1 if srt[0][2] & 5 else 0) | (2 if srt[-1][2] & 10 else 0), name])
        red.sort(key=lambda f: (f[0], f[1]))
        row, back = got
        why = spec_row_of(red, row)
        if why:
            return why
        return None if back == red else 'row2fts(fts2row(fts)) = %r, expected %r' % (back, red)
    if op == 'read':
        if case.get('expect') is None or zlib.crc32(case['text'].encode('latin-1')) != case.get('crc'):
            return None          # (a shrunk text no longer belongs to its expectation)
        if isinstance(got, dict):
            return 'raised %s' % got['e']
        if not isinstance(case['expect'], list) or len(case['expect']) < len(got):
            return None          # (a shrunk expectation)
        for i, (parsed, rest) in enumerate(got):
            if parsed != case['expect'][i]:
                return 'read %d gives %r' % (i, parsed)
        return None
    if op == 'row2fts':
        if isinstance(got, dict):
            return 'raised %s' % got['e']
        exp = spec_row2fts(case['row'])
        return None if got == exp else 'expected %r got %r' % (exp, got)
    fts = sorted(case.get('fts', []), key=lambda f: (f[0], f[1]))
    if op == 'fts2row':
        return spec_row_of(fts, got)
    if op == 'ftsrt':
        if isinstance(got, dict):
            return 'raised %s' % got['e']
        row, back = got
        why = spec_row_of(fts, row)
        if why:
            return why
        return None if back == fts else 'row2fts(fts2row(fts)) = %r' % (back,)
    if op == 'rowrt':
        if isinstance(got, dict):
            return 'raised %s' % got['e']
        f1, r1, f2 = got
        exp = spec_row2fts(case['row'])
        if f1 != exp:
            return 'expected %r got %r' % (exp, f1)
        if isinstance(r1, dict):
            return 'fts2row raised %s' % r1['e']
        return None if f2 == f1 else 'row2fts(fts2row(row2fts(r))) = %r != %r' % (f2, f1)
    return None


# ----------------------------------------------------------------------------- generators
def gen_word(rng, alpha=GRAPH, lo=1, hi=8):
    return ''.join(rng.choice(alpha) for _ in range(rng.randint(lo, hi)))


def gen_id(rng):
    r = rng.random()
    if r < 0.3:
        return rng.choice(['seq', 'O83071/192-246', 'a', 'b', 'X.1', 'AP001509.1', 'id|x|y', 'a/', '/a', 'a#b', 'a=b', '=GF']) + \
            str(rng.randint(0, 99))
    while True:
        s = gen_word(rng)
        if not s.startswith('#') and not s.startswith('//'):
            return s


def gen_key(rng):
    r = rng.random()
    if r < 0.5:
        return rng.choice(['ID', 'AC', 'DE', 'AU', 'CC', 'SS_cons', 'SS', 'SA', 'RF', 'OS', 'LO', 'TM', 'x', '#=GF', '//', '#', 'Items',
                           'item', 'get_', 'GF', 'GC'])
    while True:
        k = gen_word(rng, hi=6)
        if k not in RESERVED:
            return k


def gen_val(rng):
    r = rng.random()
    if r < 0.15:
        return rng.choice(['x', '#=GF ID y', '# STOCKHOLM 1.0', '//', 'a  b', 'a\tb', 'hello world', '1', '# c', 'a b c d e'])
    n = rng.randint(1, 5)
    ws = [gen_word(rng, hi=7) for _ in range(n)]
    seps = [rng.choice([' ', ' ', ' ', '  ', '\t']) if rng.random() < 0.3 else ' ' for _ in range(n - 1)]
    return ''.join(w + s for w, s in zip(ws, seps + ['']))


def gen_keys(rng, n):
    ks = []
    for _ in range(n):
        k = gen_key(rng)
        if k not in ks:
            ks.append(k)
    return ks


DATA_ALPHAS = ['ACGU-.', 'ACGT-', 'ACDEFGHIKLMNPQRSTVWY-', ''.join(c for c in GRAPH if not c.islower())]


def gen_aln(rng, maxrows=6, maxw=70, small=False):
    nrows = rng.randint(1, 2 if small else maxrows)
    w = rng.choice([1, 2, 3, 5, 8]) if small or rng.random() < 0.3 else rng.randint(1, maxw)
    alpha = rng.choice(DATA_ALPHAS)
    colalpha = rng.choice(['<>.()[]', GRAPH, '0123456789', '.-*x|'])
    ids = []
    while len(ids) < nrows:
        i = gen_id(rng)
        if i not in ids:
            ids.append(i)
    rows = []
    dens = rng.choice([0.0, 0.3, 0.8])
    for i in ids:
        gs = [[k, gen_val(rng)] for k in gen_keys(rng, rng.randint(0, 3))] if rng.random() < dens else []
        gr = [[k, gen_word(rng, colalpha, w, w)] for k in gen_keys(rng, rng.randint(0, 2))] if rng.random() < dens else []
        rows.append([i, gen_word(rng, alpha, w, w), gs, gr])
    gf = [[k, gen_val(rng)] for k in gen_keys(rng, rng.randint(0, 4))] if rng.random() < 0.8 else []
    gc = [[k, gen_word(rng, colalpha, w, w)] for k in gen_keys(rng, rng.randint(0, 2))] if rng.random() < 0.7 else []
    return {'gf': gf, 'gc': gc, 'rows': rows}


def spoil_aln(rng, a):
    """out-of-domain variants: only raise/no-raise is compared there"""
    r = rng.randrange(8)
    rows = a['rows']
    if r == 0:
        a['gf'] = a['gf'] + [[rng.choice(RESERVED), 'x']]
    elif r == 1:
        rows[0][0] = rng.choice(['#x', '//', '//a', '# STOCKHOLM'])
    elif r == 2:
        rows[0][1] = rows[0][1].lower() + 'a'
    elif r == 3:
        rows[-1][1] = rows[-1][1] + 'AC'
    elif r == 4:
        a['gf'] = a['gf'] + [['K', rng.choice([' x', 'x ', 'a\nb', '', ' '])]]
    elif r == 5:
        rows[0][2] = rows[0][2] + [[rng.choice(RESERVED), 'y']]
    elif r == 6:
        a['gc'] = a['gc'] + [['short', 'x' * (len(rows[0][1]) + 1)]]
    else:
        rows[0][0] = rng.choice(['a b', '', 'a\tb'])
    return a


def gen_wf_fts(rng, big=False):
    n = rng.randint(1, 5)
    pos = rng.choice([0, 0, 1, 2, 5, rng.randint(0, 30)])
    fts = []
    for i in range(n):
        name = gen_word(rng, NAMECH, 1, rng.choice([1, 2, 4, 9]))
        extra = rng.choice([0, 0, 1, 2, 3, 7, rng.randint(0, 20)])
        if big and rng.random() < 0.4:
            extra = rng.choice([149, 150, 151, 152, 153, 250, 251, 252, 400, 600]) - len(name) + rng.randint(0, 3)
        l = len(name) + 2 + max(extra, 0)
        fts.append([pos, pos + l, 0, name])
        pos = pos + l + rng.choice([-1, -1, 0, 0, 1, 2, rng.randint(0, 12)])
    if fts[0][0] == 0 and rng.random() < 0.5:
        fts[0][2] |= 1
    if rng.random() < 0.5:
        fts[-1][2] |= 2
    return fts


def spoil_fts(rng, fts):
    r = rng.randrange(7)
    f = rng.choice(fts)
    if r == 0:
        f[2] = rng.choice([1, 2, 3, 4, 8, 5, 10, 12, 15, 16, 32])
    elif r == 1:
        f[3] = f[3] + gen_word(rng, NAMECH, 1, 8)
    elif r == 2:
        f[1] = f[0] + rng.randint(1, 3)
    elif r == 3:
        f[0] = max(0, f[0] - rng.randint(1, 4))
    elif r == 4:
        f[3] = ''
    elif r == 5:
        fts.append([f[0], f[1] + rng.randint(0, 2), 0, 'dup'])
    else:
        rng.shuffle(fts)
    return fts


def gen_row(rng):
    r = rng.random()
    if r < 0.45:
        n = rng.choice([0, 1, 2, 3, 4, 5, 6, 8, 12, 20, 40])
        return ''.join(rng.choice('....||abX_' if rng.random() < 0.8 else '..|a') for _ in range(n))
    # a well-formed row with the name moved off centre and trailing dots
    fts = gen_wf_fts(rng)
    row = []
    last = 0
    for start, stop, d, name in fts:
        if start > last:
            row.append('.' * (start - last))
        elif start == last - 1:
            row[-1] = row[-1][:-1]
        l = stop - start
        padl = rng.randint(1, l - len(name) - 1)
        p = '.' * padl + name + '.' * (l - len(name) - padl)
        if rng.random() < 0.2 and l - len(name) - padl > len(name) + 1:
            p = p[:padl + len(name) + 1] + name + p[padl + 2 * len(name) + 1:]   # name repeated
        if not d & 1:
            p = '|' + p[1:]
        if not d & 2:
            p = p[:-1] + '|'
        row.append(p)
        last = stop
    row = ''.join(row)
    if rng.random() < 0.3:
        row += '.' * rng.randint(1, 4)
    if rng.random() < 0.15:
        i = rng.randrange(len(row))
        row = row[:i] + rng.choice('.|aZ') + row[i + 1:]
    return row


def py_wf_row(row):
    """generator-side approximation of wf_rowstr (the model decides; this only steers histories into the domain)"""
    if not row or row[0] not in '.|' or any(not 33 <= ord(c) <= 126 for c in row):
        return False
    i = 0
    while i < len(row):
        j = row.find('|', i + 1)
        j = len(row) if j == -1 else j
        seg = row[i + 1:j]
        names = set(re.findall(r'[^.]+', seg))
        if len(names) > 1 or (names and j == len(row) and len(next(iter(names))) >= len(seg)):
            return False
        i = j
    return True


def gen_hist_rows(rng):
    """row2fts / fts2row called repeatedly; earlier results are shifted, renamed, shortened in between"""
    while True:
        row = gen_row(rng)
        F = spec_row2fts(row)
        if F and (py_wf_row(row) or rng.random() < 0.1):
            break
    kw = rng.random() < 0.3
    steps = [{'do': 'row2fts', 'case': {'op': 'row2fts', 'row': row}, 'as': 'f1', 'kw': kw}]
    if rng.random() < 0.6:
        steps.append({'do': 'fts2row', 'on': 'f1', 'case': {'op': 'fts2row', 'fts': F}})
    ed = {}
    if rng.random() < 0.7 and not F[0][2] & 1:               # (a left-open first feature has to stay in column 0)
        ed['shift'] = rng.choice([1, 2, 10, 100])
    if rng.random() < 0.6:
        j = rng.randrange(len(F))
        ed['rename'] = [j, gen_word(rng, NAMECH, 1, min(2, len(F[j][3])))]
    if len(F) > 1 and rng.random() < 0.5:
        ed['delete'] = rng.randrange(1, len(F) - 1) if len(F) > 2 else 1 if not F[1][2] & 2 else 0
        if ed['delete'] == len(F) - 1 and F[-1][2] & 2 and False:
            del ed['delete']
    if not ed:
        ed['rename'] = [0, 'q']
    steps.append({'do': 'edit_fts', 'on': 'f1', 'ed': ed})
    F1 = edit_tuples(F, ed)
    if rng.random() < 0.7:
        other = gen_row(rng)
        while not py_wf_row(other):
            other = gen_row(rng)
        steps.append({'do': 'row2fts', 'case': {'op': 'row2fts', 'row': other}, 'kw': rng.random() < 0.3})
    steps.append({'do': 'row2fts', 'case': {'op': 'row2fts', 'row': row}, 'as': 'f2', 'kw': kw})       # same row again
    tail = [{'do': 'fts2row', 'on': 'f1', 'case': {'op': 'fts2row', 'fts': F1}},                          # the edited value
            {'do': 'fts2row', 'on': 'f2', 'case': {'op': 'fts2row', 'fts': F}},
            {'do': 'row2fts', 'case': {'op': 'row2fts', 'row': row}, 'kw': not kw},                        # other options
            {'do': 'fts2row', 'case': {'op': 'fts2row', 'fts': F1}},                                       # fresh objects
            {'do': 'fts2row', 'on': 'f2', 'case': {'op': 'fts2row', 'fts': F}}]                            # same call twice
    rng.shuffle(tail)
    steps += tail[:rng.randint(2, 5)]
    if rng.random() < 0.5:
        ed2 = {'rename': [0, gen_word(rng, NAMECH, 1, 1)]}
        if not F[0][2] & 1:
            ed2['shift'] = rng.choice([1, 5])
        steps.append({'do': 'edit_fts', 'on': 'f2', 'ed': ed2})
        steps.append({'do': 'row2fts', 'case': {'op': 'row2fts', 'row': row}, 'kw': kw})
        steps.append({'do': 'fts2row', 'on': 'f2', 'case': {'op': 'fts2row', 'fts': edit_tuples(F, ed2)}})
    return {'op': 'hist', '_kind': 'rows', '_steps': steps}


def gen_edits(rng, a):
    w = len(a['rows'][0][1])
    colalpha = '<>.()[]xyz0123'
    edits = []
    for _ in range(rng.randint(1, 4)):
        i = rng.randrange(len(a['rows']))
        cur = apply_edits(a, edits)
        k = rng.randrange(8)
        if k == 0:
            key = rng.choice([p[0] for p in cur['gf']]) if cur['gf'] and rng.random() < 0.6 else gen_key(rng)
            edits.append(['gf_set', key, gen_val(rng)])
        elif k == 1 and cur['gf']:
            edits.append(['gf_del', rng.choice(cur['gf'])[0]])
        elif k == 2:
            key = rng.choice([p[0] for p in cur['gc']]) if cur['gc'] and rng.random() < 0.6 else gen_key(rng)
            edits.append(['gc_set', key, gen_word(rng, colalpha, w, w)])
        elif k == 3:
            gs = cur['rows'][i][2]
            key = rng.choice([p[0] for p in gs]) if gs and rng.random() < 0.6 else gen_key(rng)
            edits.append(['gs_set', i, key, gen_val(rng)])
        elif k == 4:
            gr = cur['rows'][i][3]
            key = rng.choice([p[0] for p in gr]) if gr and rng.random() < 0.6 else gen_key(rng)
            edits.append(['gr_set', i, key, gen_word(rng, colalpha, w, w)])
        elif k == 5 and cur['rows'][i][3]:
            edits.append(['gr_del', i, rng.choice(cur['rows'][i][3])[0]])
        elif k == 6:
            edits.append(['data', i, gen_word(rng, 'ACGU-', w, w)])
        else:
            nid = gen_id(rng)
            if nid not in [r[0] for r in cur['rows']]:
                edits.append(['id', i, nid])
    return edits or [['gf_set', 'ID', 'edited']]


def read_case(a, bw, n=1):
    text = render(a, bw)
    return {'op': 'read', 'text': text, 'n': n, 'expect': ([canon_aln(a)] + [EMPTY] * n)[:n], 'crc': zlib.crc32(text.encode('latin-1'))}


def gen_hist_stk(rng):
    """write / read called repeatedly on the same objects and texts, with in-place edits of baskets and of read results"""
    a = gen_aln(rng, maxrows=3, maxw=12, small=rng.random() < 0.4)
    w = len(a['rows'][0][1])
    e1 = gen_edits(rng, a)
    a1 = apply_edits(a, e1)
    rt = lambda x: {'op': 'rt', 'aln': x, 'via': 'str'}
    steps = [{'do': 'build', 'aln': a, 'as': 'b'},
             {'do': 'write', 'on': 'b', 'case': rt(a), 'keep': 'r'}]
    if rng.random() < 0.5:
        steps.append({'do': 'write', 'on': 'b', 'case': rt(a)})                       # same call twice
    steps += [{'do': 'edit_aln', 'on': 'b', 'edits': e1},
              {'do': 'write', 'on': 'b', 'case': rt(a1)}]                              # the edited value
    if rng.random() < 0.7:                                                             # the earlier read result is its own object
        e2 = gen_edits(rng, a)
        steps += [{'do': 'edit_aln', 'on': 'r', 'edits': e2},
                  {'do': 'write', 'on': 'r', 'case': rt(apply_edits(a, e2))},
                  {'do': 'write', 'on': 'b', 'case': rt(a1)}]
    bw = rng.randint(1, w)
    steps.append({'do': 'read', 'case': read_case(a, bw), 'as': 'r2'})
    e3 = gen_edits(rng, a)
    steps += [{'do': 'edit_aln', 'on': 'r2', 'edits': e3},
              {'do': 'read', 'case': read_case(a, bw, 2)},                            # same text again, more reads
              {'do': 'read', 'case': read_case(a, rng.randint(1, w))},                # other block width
              {'do': 'read', 'case': read_case(a1, bw)},                              # same ids and width, other content
              {'do': 'blocks', 'case': {'op': 'blocks', 'aln': a1, 'bw': rng.randint(1, w)}},
              {'do': 'write', 'on': 'r2', 'case': rt(apply_edits(a, e3))},
              {'do': 'read', 'case': read_case(a, bw)}]
    fixed, tail = steps[:-7], steps[-7:]
    keep = [tail[0]] + [t for t in tail[1:] if rng.random() < 0.7]
    return {'op': 'hist', '_kind': 'stk', '_steps': fixed + keep}


VIAS = ['file', 'glob', 'zip', 'handle', 'tar', 'glob2', 'arch', 'path', 'gztar', 'bytes',
        # round 6: names that say nothing (detection by content), the other registered extensions, Path / handle / BytesIO on the
        # write side, tofmtstr / fromfmtstr, gzip by extension and by option, the remaining archive kinds, an archive named by the
        # option only, stdin, detected reads from text and binary file handles, iter_ (sequences with their GS / GR)
        'neutral', 'fmtstr', 'wpath', 'iter', 'gz', 'handle_auto', 'wbytes', 'bztar', 'noext', 'fmtstr_fmt', 'whandle', 'bhandle',
        'iter_neutral', 'gzopt', 'wext_sto', 'xztar', 'stdin', 'fmtstr_bytes', 'iter_fmt', 'zipopt', 'wext_stockholm', 'iter_handle',
        'crlf_sio', 'crlf_file', 'crlf_bytes', 'crlf_handle']
PRES = ['', '', 'junk\n', '# a comment line\n', 'x', '>fasta-like header\nACGT\n', 'LOCUS       X', '{"a": 1}\n', '\n\n',
        'leading bytes without a newline', '# STOCKHOLM 1.0\n#=GF ID lost\n', 'a ACGU\n//\n', '##gff-version 3\n']


def gen_chain(rng, T=False):
    """successive reads on one handle: 1-4 alignments, each with annotations of its own, behind leading bytes the caller
    consumed; the caller may also skip the first alignments; the format is given or detected at each step"""
    m = rng.choice([1, 2, 2, 2, 3, 3, 4])
    alns = []
    for i in range(m):
        a = gen_aln(rng, maxrows=3, maxw=20 if not T else 40, small=rng.random() < 0.5)
        if not a['gf'] and rng.random() < 0.8:
            a['gf'] = [['ID', 'n%d' % i]]
        alns.append(a)
    if m > 1 and rng.random() < 0.1:
        alns[rng.randrange(1, m)] = alns[0]                      # the same alignment twice: only the position tells them apart
    if rng.random() < 0.05:
        alns[rng.randrange(m)] = spoil_aln(rng, gen_aln(rng, maxrows=2, maxw=8))
    pre = rng.choice(PRES) if rng.random() < 0.8 else gen_val(rng) + rng.choice(['\n', '', ' '])
    if rng.random() < 0.02:
        # more leading bytes than the 8 KiB the text layer of a binary handle reads ahead
        pre = ('# ' + 'x' * rng.choice([8180, 8192, 9000]) + '\n') + pre
    kind = rng.choice(['sio', 'sio', 'tfile', 'tfile', 'bio', 'bio', 'bfile', 'bfile', 'raw', 'ntf'])
    start = rng.choice([0, 0, 0, 1, rng.randint(0, m)])
    start = min(start, m)
    left = m - start
    n = left + rng.choice([0, 0, 1])
    steps = [rng.choice([0, 1]) if i < left else 0 for i in range(n)] or [0]
    if rng.random() < 0.04:
        steps.append(1)                                          # detection with nothing left: outside the domain
    poss = ['read'] + (['seek'] if kind != 'tfile' else []) + (['lines'] if pre == '' or pre.endswith('\n') else [])
    return {'op': 'chain', 'alns': alns, 'pre': pre, 'start': start, 'kind': kind, 'pos': rng.choice(poss), 'steps': steps}


def gen_convert(rng):
    a = gen_aln(rng, maxrows=4, maxw=24, small=rng.random() < 0.3)
    if rng.random() < 0.06:
        a = spoil_aln(rng, a)
    w = len(a['rows'][0][1]) if a['rows'] else 1
    case = {'op': 'convert', 'aln': a, 'bw': rng.choice([w, w, w + 3, max(1, w // 2), rng.randint(1, max(1, w))]),
            'stdout': rng.random() < 0.5, 'in': rng.choice(['in.stk', 'in.sto', 'in.dat', 'in']), 'f': rng.random() < 0.4}
    if case['stdout']:
        case['fo'] = rng.random() < 0.5
    else:
        case['out'] = rng.choice(['out.stk', 'out.sto', 'out.stockholm', 'out.dat', 'out.txt'])
        case['fo'] = case['out'] in ('out.dat', 'out.txt') or rng.random() < 0.4
    return case


def gen_cases(rng, tier):
    T = tier == 'thorough'
    cases = []
    # --- write -> read
    for i in range(4000 if T else 400):
        a = gen_aln(rng, small=rng.random() < 0.2)
        if rng.random() < 0.12:
            a = spoil_aln(rng, a)
        if rng.random() < 0.1:
            a['empties'] = True
        cases.append({'op': 'rt', 'aln': a, 'via': VIAS[(i // 2) % len(VIAS)] if i % 2 == 0 else 'str'})
    # --- successive reads on one handle: text and binary handles, files, offsets, given / detected format (round 6)
    for i in range(4000 if T else 300):
        cases.append(gen_chain(rng, T))
    # --- the command-line converter as a transport (round 6)
    for i in range(800 if T else 90):
        cases.append(gen_convert(rng))
    # --- interleaved rendering, every block width for small alignments
    for i in range(400 if T else 40):
        a = gen_aln(rng, maxrows=4, maxw=12 if not T else 20, small=rng.random() < 0.3)
        w = len(a['rows'][0][1])
        for bw in range(1, w + 2):
            cases.append({'op': 'blocks', 'aln': a, 'bw': bw})
    for i in range(1500 if T else 120):
        a = gen_aln(rng)
        if rng.random() < 0.08:
            a = spoil_aln(rng, a)
        cases.append({'op': 'blocks', 'aln': a, 'bw': rng.choice([1, 2, 3, 7, 10, 50, 60, 80, rng.randint(0, 75)])})
    # --- several alignments on one handle
    for i in range(1500 if T else 130):
        alns = [gen_aln(rng, maxrows=3, maxw=20, small=rng.random() < 0.5) for _ in range(rng.randint(1, 4))]
        if rng.random() < 0.08:
            alns[rng.randrange(len(alns))] = spoil_aln(rng, rng.choice(alns))
        cases.append({'op': 'multi', 'alns': alns, 'n': len(alns) + rng.choice([0, 1, 1, 2])})
    # --- raw texts
    for i in range(3500 if T else 280):
        alns = [gen_aln(rng, maxrows=4, maxw=24, small=rng.random() < 0.4) for _ in range(rng.choice([1, 1, 2, 3]))]
        o = {'seps': rng.random() < 0.5, 'splitgf': rng.random() < 0.6, 'move': rng.random() < 0.4, 'noise': rng.random() < 0.5,
             'nohead': rng.random() < 0.12}
        texts, expect, nonadj = [], [], False
        for k, a in enumerate(alns):
            oo = dict(o)
            if k == len(alns) - 1 and rng.random() < 0.3:
                oo['end'] = rng.choice([None, '//  ', '// trailing', '//x'])
            w = len(a['rows'][0][1])
            info = {}
            texts.append(render(a, rng.choice([w, w, max(1, w // 2), rng.randint(1, w)]), rng, oo, info))
            expect.append(canon_aln_ordered(a, info))
            nonadj = nonadj or info['nonadjacent']
        text = ''.join(texts)
        if rng.random() < 0.2:
            text = text.replace('\n', '\r\n')      # DOS line ends
        n = len(alns) + rng.choice([0, 1])
        expect = expect + [EMPTY]
        case = {'op': 'read', 'text': text, 'n': n, 'expect': expect[:n], 'split': o['splitgf'], 'moved': o['move'], 'nonadj': nonadj,
                'crc': zlib.crc32(text.encode('latin-1'))}
        if rng.random() < 0.25:                      # garbage: a damaged line somewhere
            lines = text.split('\n')
            j = rng.randrange(len(lines))
            lines[j] = rng.choice(['garbage', '#=GF onlykey', '#=GF', '#=GS s k', '#=GR s k', '#=GC k', 'a\tACGT', 'x y z', '//',
                                   '#=GFx k v', '#=GC  k   v w', lines[j][:len(lines[j]) // 2], lines[j].replace(' ', ''),
                                   lines[j] + ' extra', '#=GF get a', '#=GC get b', 'seq acgu'])
            case = {'op': 'read', 'text': '\n'.join(lines), 'n': n, 'expect': None}
        cases.append(case)
    for t in ['', '\n', '//\n', '# STOCKHOLM 1.0\n', 'a A\n', 'a A', '#=GF ID x\n#=GF ID y\n//\n', 'a AC\na GU\n//\nb A\n//\n',
              '#=GS a DE x\n#=GS a DE y z\na A\n', '#=GR b SS <\nb A\n#=GR b SS >\nb C\n', 'a\n', ' \n\n a  A C \n']:
        cases.append({'op': 'read', 'text': t, 'n': 2, 'expect': None})
    # --- comments=[] collects the comment lines (stockholm.py:135-137)
    for i in range(400 if T else 40):
        a = gen_aln(rng, maxrows=3, maxw=12, small=rng.random() < 0.5)
        w = len(a['rows'][0][1])
        text = render(a, rng.choice([w, max(1, w // 2)]), rng, {'noise': True, 'seps': rng.random() < 0.5, 'move': rng.random() < 0.5,
                                                               'end': rng.choice(['//', None, '//'])})
        if rng.random() < 0.2:
            lines = text.split('\n')
            lines[rng.randrange(len(lines))] = rng.choice(['garbage', '#=GF k', '# late comment', '#=GX a b c'])
            text = '\n'.join(lines)
        cases.append({'op': 'readc', 'text': text})
    # --- features with several locations (warning branch, stockholm.py:61-62): split, nested, later start / earlier stop,
    #     both strands, any order; fts2row must draw the whole range
    for i in range(600 if T else 80):
        fts = gen_wf_fts(rng)
        mf = []
        for start, stop, d, name in fts:
            minus = rng.random() < 0.4
            locs = [[start, stop, d]]
            k = rng.randrange(4)
            if stop - start >= 4 and k == 0:        # two pieces with a gap
                cut = rng.randint(start + 1, stop - 2)
                gap = rng.randint(1, stop - cut - 1)
                locs = [[start, cut, d & 1], [cut + gap, stop, d & 2]]
            elif stop - start >= 4 and k == 1:      # an inner location contained in the outer one
                a = rng.randint(start + 1, stop - 2)
                locs = [[start, stop, d], [a, rng.randint(a + 1, stop - 1), 0]]
            elif stop - start >= 4 and k == 2:      # the later-starting location stops earlier than the range end; three pieces
                a = rng.randint(start + 1, stop - 2)
                locs = [[start, stop - 1 if rng.random() < 0.5 else stop, d & 1], [a, rng.randint(a + 1, stop - 1), 0],
                        [rng.randint(start, stop - 1), stop, d & 2]]
            if len(locs) > 1:
                # the end flags are read from the first / last location of the strand-sorted tuple: put them there
                key = (lambda l: -l[1]) if minus else (lambda l: l[0])
                srt = sorted(locs, key=key)
                for l in locs:
                    l[2] = 0
                srt[0][2] |= d & 1
                srt[-1][2] |= d & 2
                if rng.random() < 0.15:
                    rng.choice(locs)[2] |= rng.choice([1, 2, 4, 8])
                rng.shuffle(locs)
            mf.append([name, minus, locs])
        cases.append({'op': 'multiloc', 'mfts': mf})
    # --- histories: several calls in one process, results mutated in between (state-independence stream)
    for i in range(1500 if T else 170):
        cases.append(gen_hist_rows(rng))
    for i in range(1000 if T else 130):
        cases.append(gen_hist_stk(rng))
    # --- feature rows
    for i in range(3000 if T else 250):
        fts = gen_wf_fts(rng, big=(i % 12 == 0))
        if rng.random() < 0.25:
            fts = spoil_fts(rng, fts)
        cases.append({'op': 'ftsrt' if i % 4 else 'fts2row', 'fts': fts})
    for i in range(4000 if T else 300):
        cases.append({'op': 'rowrt' if i % 4 else 'row2fts', 'row': gen_row(rng)})
    if T:
        import itertools
        for n in range(0, 7):
            for t in itertools.product('.|ab', repeat=n):
                cases.append({'op': 'rowrt', 'row': ''.join(t)})
    return cases


# ----------------------------------------------------------------------------- evidence helpers
def nontrivial(case, got):
    op = case['op']
    if op == 'hist':
        return 'hist:' + case.get('_kind', '')
    if op in ('rt', 'blocks'):
        a = case['aln']
        kinds = ''.join(k for k, p in (('F', a['gf']), ('C', a['gc']), ('S', any(r[2] for r in a['rows'])),
                                       ('R', any(r[3] for r in a['rows']))) if p)
        if op == 'blocks':
            w = len(a['rows'][0][1]) if a['rows'] else 0
            return 'blocks:%s:%s' % (kinds, 'multi' if 0 < case['bw'] < w else 'single')
        return ('rt:' + kinds + ':' + str(case.get('via'))) if kinds else None
    if op == 'multi':
        return 'multi' if len(case['alns']) > 1 else None
    if op == 'chain':
        return 'chain:%s:%s%s%s' % (case['kind'], 'auto' if any(case['steps']) else '', 'mixed' if 0 in case['steps'] and 1 in case['steps'] else '',
                                    ':offset' if case['pre'] or case['start'] else '') if len(case['alns']) > 1 or case['pre'] else None
    if op == 'convert':
        a = case['aln']
        return 'convert:%s' % ('stdout' if case['stdout'] else 'file') if (a['gf'] or a['gc']) else None
    if op == 'read':
        return 'read:%s%s%s' % ('split' if case.get('split') else '', 'moved' if case.get('moved') else '',
                                'nonadj' if case.get('nonadj') else '') if case.get('expect') else 'garbage'
    if op in ('ftsrt', 'fts2row'):
        fts = sorted(case['fts'])
        m = []
        if fts and fts[0][0] > 0:
            m.append('offset')
        if any(f[2] for f in fts):
            m.append('open')
        if any(a[1] - 1 == b[0] for a, b in zip(fts, fts[1:])):
            m.append('shared')
        if any(f[1] - f[0] > 2 * len(f[3]) + 150 for f in fts):
            m.append('long')
        return op + ':' + '+'.join(m) if m else None
    if op == 'readc':
        return 'readc' if isinstance(got, list) and got[1] else None
    if op == 'multiloc':
        return 'multiloc' if any(len(l) > 1 for _, _, l in case['mfts']) else None
    row = case['row']
    return op if ('|' in row and re.search('[^.|]', row)) else None


def histkey(case, got):
    op = case['op']
    ks = ['op=' + op]
    if op == 'hist':
        return ks + ['hist=' + case.get('_kind', ''), 'steps=%d' % len(case['_steps'])]
    if isinstance(got, dict):
        ks.append('raises=' + got['e'])
    if op == 'rt':
        ks.append('via=' + str(case.get('via')))
    if op in ('rt', 'blocks'):
        w = len(case['aln']['rows'][0][1]) if case['aln']['rows'] else 0
        ks.append('width=' + ('1' if w <= 1 else '2-9' if w < 10 else '10+'))
        ks.append('rows=%d' % len(case['aln']['rows']))
    if op == 'multi':
        ks.append('alignments=%d' % len(case['alns']))
    if op == 'chain':
        ks += ['handle=' + case['kind'], 'chain_alignments=%d' % len(case['alns']), 'chain_steps=%d' % len(case['steps']),
               'chain_detect=%d' % sum(case['steps']), 'chain_pos=' + case.get('pos', 'read') + ('+pre' if case['pre'] else '') + ('+skip' if case['start'] else '')]
        return ks
    if op == 'convert':
        return ks + ['convert=' + ('stdout' if case['stdout'] else case.get('out', '')) + (' -f' if case.get('f') else '') + (' -fo' if case.get('fo') else '')]
    if op in ('row2fts', 'rowrt'):
        n = len(case['row'])
        ks.append('rowlen=' + ('0' if n == 0 else '1-9' if n < 10 else '10-99' if n < 100 else '100+'))
    return ks


def features(case, got):
    keys = []
    for a in ([case['aln']] if 'aln' in case else case.get('alns', [])):
        keys += [k for k, _ in a['gf']] + [k for k, _ in a['gc']]
        for r in a['rows']:
            keys += [k for k, _ in r[2]] + [k for k, _ in r[3]]
    for ln in case.get('text', '').split('\n'):
        p = ln.split()
        if p and p[0][:4] in ('#=GF', '#=GC') and len(p) > 1:
            keys.append(p[1])
        if p and p[0][:4] in ('#=GS', '#=GR') and len(p) > 2:
            keys.append(p[2])
    return {'key_in_reserved_set': any(k in RESERVED for k in keys), 'op': case['op']}


def python_snippet(case):
    op = case['op']
    if op == 'hist':
        return ('import json, sys; sys.path.insert(0, "/verif/tools"); from props import c15\n'
                '# one process, steps in order; each compared step must equal the single call on the current value\n'
                'for o in c15.impl(json.loads(%r)): print(o)' % __import__('json').dumps(case))
    if op in ('rt', 'multi', 'chain', 'convert'):
        return ('import io, json, sys; sys.path.insert(0, "/verif/tools"); from props import c15; from sugar import read\n'
                'case = json.loads(%r)\nprint(c15.impl(case))' % __import__('json').dumps(case))
    if op in ('blocks', 'read'):
        text = case['text'] if op == 'read' else render(case['aln'], case['bw'])
        return ('import io; from sugar import read\nf = io.StringIO(%r)\nfor i in range(%d):\n    b = read(f, "stockholm"); '
                'print(b.meta, [(s.id, str(s), s.meta) for s in b])' % (text, case.get('n', 1)))
    if op in ('row2fts', 'rowrt'):
        return ('from sugar._io.stockholm import row2fts, fts2row\nf = row2fts(%r); print(f); r = fts2row(f); print(repr(r)); '
                'print(row2fts(r))' % case['row'])
    if op in ('readc', 'multiloc'):
        return ('import json, sys; sys.path.insert(0, "/verif/tools"); from props import c15\n'
                'print(c15.impl(json.loads(%r)))' % __import__('json').dumps(case))
    return ('import sys; sys.path.insert(0, "/verif/tools"); from props import c15\nfrom sugar._io.stockholm import row2fts, fts2row\n'
            'r = fts2row(c15.mkfts(%r)); print(repr(r)); print([c15.ft_tuple(f) for f in row2fts(r)])' % (case['fts'],))


# ----------------------------------------------------------------------------- relational checks without a model
def extra_checks(rng, tier, cov):
    """the real command line in a subprocess: `sugar convert - -fo stockholm` fed through stdin, and IN -> -o OUT;
    every GF/GC/GS/GR annotation must arrive (stdin, stdout and the process boundary are the transport)"""
    import subprocess
    import sugar
    from sugar import read
    # files larger than any buffer on the way (8 KiB text-layer read-ahead, gzip / archive blocks): every transport and every
    # handle kind once with alignments 9-20 thousand columns wide; property oracle only (the theorems are size independent)
    from framework import jcanon
    nbig = 0
    for via in VIAS + ['chain:sio', 'chain:tfile', 'chain:bio', 'chain:bfile', 'chain:raw', 'chain:ntf', 'convert:file', 'convert:stdout']:
        alns = []
        for j in range(3 if via.startswith('chain') else 1):
            w = rng.choice([9000, 12000, 20000])
            a = {'gf': [['ID', 'big%d' % j]] + [['CC', ' '.join(gen_word(rng, hi=7) for _ in range(12))]] + [[k, gen_val(rng)] for k in gen_keys(rng, 3) if k not in ('ID', 'CC')],
                 'gc': [['SS_cons', gen_word(rng, '<>.', w, w)]],
                 'rows': [['s%d/1-%d' % (i, w), gen_word(rng, 'ACGU-', w, w), [['DE', gen_val(rng)]] if i else [], [['SS', gen_word(rng, '().', w, w)]] if i != 1 else []]
                          for i in range(3)]}
            alns.append(a)
        if via.startswith('chain'):
            kind = via[6:]
            case = {'op': 'chain', 'alns': alns, 'pre': rng.choice(['', 'junk\n']), 'start': 0, 'kind': kind, 'pos': 'read',
                    'steps': [1, 0, 1, 0]}
        elif via.startswith('convert'):
            case = {'op': 'convert', 'aln': alns[0], 'bw': rng.choice([60, 200, 8192]), 'stdout': via == 'convert:stdout', 'in': 'in.dat',
                    'out': 'out.sto', 'f': False, 'fo': via == 'convert:stdout'}
        else:
            case = {'op': 'rt', 'aln': alns[0], 'via': via}
        try:
            iv = jcanon(impl(case))
        except Exception as e:
            iv = canon_exc(e)
        nbig += 1
        why = spec(case, iv)
        if why:
            small = dict(case, alns='(3 alignments, 9-20 thousand columns)') if 'alns' in case else dict(case, aln='(one alignment, %d columns)' % len(case['aln']['rows'][0][1]))
            yield {'case': small, 'impl': str(iv)[:300], 'spec': 'big file: ' + why[:300]}
    cov['big_file_transports'] = nbig
    env = dict(os.environ, PYTHONPATH=os.path.dirname(os.path.dirname(os.path.abspath(sugar.__file__))), PYTHONWARNINGS='ignore')
    n = 0
    for i in range(24 if tier == 'thorough' else 4):
        a = gen_aln(rng, maxrows=4, maxw=30, small=rng.random() < 0.3)
        if not (a['gf'] or a['gc']):
            a['gf'] = [['ID', 'x%d' % i]]
        w = len(a['rows'][0][1])
        text = render(a, rng.choice([w, max(1, w // 2)]))
        mode = ['stdin', 'file'][i % 2]
        case = {'op': 'cli-subprocess', 'mode': mode, 'aln': a, 'text': text}
        d = tempfile.mkdtemp(prefix='C15-', dir='/tmp')
        try:
            fin, fout = os.path.join(d, 'in.dat'), os.path.join(d, 'out.sto')
            with open(fin, 'w', newline='') as fh:
                fh.write(text)
            argv = ['convert', '-', '-fo', 'stockholm'] if mode == 'stdin' else ['convert', fin, '-o', fout]
            with open(fin, 'rb') as stdin:
                pr = subprocess.run([sys.executable, '-c', 'import sys; from sugar.scripts import cli; cli(sys.argv[1:])'] + argv,
                                    stdin=stdin, capture_output=True, env=env, cwd=d, timeout=120)
            n += 1
            if pr.returncode != 0:
                yield {'case': case, 'impl': {'rc': pr.returncode, 'stderr': pr.stderr.decode('latin-1')[-400:]},
                       'spec': 'sugar convert (%s) failed with exit status %d' % (mode, pr.returncode)}
                continue
            out = pr.stdout.decode('latin-1') if mode == 'stdin' else open(fout, newline='').read()
            try:
                got = canon(read(io.StringIO(out), 'stockholm'))
            except Exception as e:
                got = canon_exc(e)
            if got != canon_aln(a):
                yield {'case': case, 'impl': [out, got], 'spec': 'sugar convert (%s, subprocess) gives %r' % (mode, got)}
        finally:
            shutil.rmtree(d, ignore_errors=True)
    cov['cli_subprocess_runs'] = n


LEVEL_TEXT = ('Machine-checked Coq theorems over a line-by-line Gallina model of sugar/_io/stockholm.py, all for unbounded inputs: '
              'for every well-formed alignment (any number of rows, any width, arbitrary GF/GC/GS/GR sets) read(write(a)) = a with every '
              'annotation attached to the same alignment/sequence and all orders kept; the reader stops after the first "//" and returns '
              'the rest of the handle, so n+1 successive reads of n concatenated alignments return them in turn and then an empty basket; '
              'HANDLE POSITIONS (round 6): with a handle modelled as text + offset, a read at the offset behind any leading bytes and the '
              'first k alignments - format given or detected - returns alignment k and moves the handle by exactly the length of its text '
              '(read_at_offset), hence for any mixture of given/detected format step k of a chain returns alignment k and offset k+1 = '
              'offset k + len(text k) (chain_offsets, by induction on the list of alignments; also for every block layout, for DOS line '
              'ends, and followed by an empty basket at the end of the file), the offsets tile the file; the sniffer accepts every written '
              'text; white space before the line ends (blanks, tabs, "\\r") changes nothing, blank/comment/header lines may stand anywhere, the terminator of the last alignment and (format given) the header line may be missing; the command-line converter is the identity on '
              'written files and maps every interleaved file to the single-block text, so all annotations survive it; iter_ yields every '
              'sequence with its GS/GR; the writer emits exactly one line per entry (write_layout); GC/GR values read from block-consistent '
              'files are as wide as the rows (width_invariant, read_widths); '
              'the interleaved rendering at EVERY block width reads to the same result as the single-block form, and for ANY placement of '
              'lines every GC/GR/sequence key reads as the concatenation of its fragments; all fragments of a repeated GF/GS tag (adjacent '
              'or not) are joined by single spaces in file order. row2fts/fts2row: for every well-formed feature list of any length, width '
              'and names row2fts(fts2row(l)) = sorted l (boundaries, names incl. the name repetition of wide features, shared boundary '
              'columns, open ends, offset of the first feature; the row ends at the last stop); for every well-formed row of any length '
              'row2fts(fts2row(row2fts(r))) = row2fts(r); rows made by fts2row are fixed points. The model is tied to /repo by running '
              'sugar (public read/write/iter_/cli entry points; StringIO, BytesIO, text and binary file handles, real files, archives, '
              'stdin/stdout) and the model on the same generated cases on every run (every statement of stockholm.py executed in the quick '
              'tier), and by an independent Python oracle (own interleaving renderer, own row parser, own offsets).')
LEVEL_NOTE = ('All 43 theorems closed under the global context (no axioms). Proved for all inputs: stk_roundtrip, stk_stop, stk_multi, '
              'stk_interleave(+_stop), stk_columns_anywhere, stk_gf_join, stk_gs_join, gf_all_frags, gs_all_frags, read_text_gf_join, '
              'read_text_gs_join, lines_items, row_fts_inverse, row_fts_row, row_canonical, range_spec, range_perm, multi_ft_range (a feature with several locations is drawn over min(starts)..max(stops), independent of the order of the locations); '
              'round 6: is_stockholm_written, read_at_offset, chain_offsets, chain_any_layout, chain_then_empty, chain_crlf, offsets_tile, read_at_eof, '
              'read_trailing_ws, read_crlf, noise_ignored, read_text_noise (deleting every blank, comment and header line of ANY text does not change the alignment read), read_unterminated, read_headerless, convert_fixpoint, convert_blocks, iter_rows, write_layout, width_invariant, read_widths; the two bounded-box theorems '
              '(row_fts_row_box, fts_row_fts_box, box_sizes) are kept as regression. '
              'Finding handle_pos (found by the chain stream of round 6, FIXED in /repo by fae7633, witnesses in corpus/C15/handle_pos.json): before the fix "successive reads on one handle" held on io.StringIO and on text files read with the format given only; a BINARY handle (BytesIO, open(f,"rb")) was left at the 8 KiB read-ahead position of the text layer (second read: empty basket / IOError, alignments silently lost) and a text FILE handle could not be read with detection after a first read (OSError: telling position disabled by next()). The chain stream now generates StringIO, open(f), BytesIO, open(f,"rb"), unbuffered FileIO and NamedTemporaryFile handles with every mixture of given / detected format and compares alignment AND handle position after every step. '
              'Tested only (correspondence): that a real handle behaves like (text, offset) - f.tell() of StringIO / binary handles, the measured rest of text files (position cookie restored); the transports (36 ways to write and read back incl. archives, gz, stdin, Path, neutral names, DOS line ends through universal-newline handles); argparse option handling of the converter (only combinations resolving to Stockholm; which format wins otherwise is C03); the subprocess CLI; state independence of the calls (history stream: 300 histories in quick; the pure model is the expectation of every step); that the Gallina model '
              'is sugar (every case, both tiers); writer behaviour for absent/empty _stockholm containers; comments=[] collection; which '
              'location of a multi-location feature carries the end flags (strand-sorted first/last; modelled, compared); error classes on malformed '
              'rows/feature lists. Not claimed: what a detected read does at a position where no alignment starts (other sniffers: C03; outside chain_ok). fts2row(row2fts(row)) = row on arbitrary rows is NOT claimed (false by design: names are re-centred and '
              'trailing dots dropped); the statement is on the feature level plus the fixed-point theorem. No unreachable statements in the '
              'modelled functions (is_stockholm, row2fts, fts2row, read_stockholm, write_stockholm; the two asserts of row2fts never '
              'fail, shown by the model never reaching them). Trusted: Coq kernel/vm_compute, tools/gens/flags.py, the correspondence '
              'harness, CPython str/dict/re/io primitives as modelled (Latin-1 only). Modelled rather than verified: read_stockholm, '
              'write_stockholm, is_stockholm, row2fts, fts2row, the position bookkeeping of detect(), convert as read+write, iter_ as rows of read, BioSeq upper-casing, Attr as ordered mapping. Domain: printable ASCII; ids non-empty, no '
              'whitespace, not starting with "#" or "//" (such lines are markup/terminator in the format); keys outside the reserved set of '
              'open finding F20; GF/GS values non-empty, stripped, newline-free; rows of equal width >= 1, upper-case residues; feature '
              'lists: single-location features sharing at most a boundary column, names over [A-Za-z0-9_] (the proofs only need names '
              'without "." and "|"), len(name) <= width-2, open ends only at column 0 / at the end of the row, defects within '
              'MISS_LEFT|MISS_RIGHT; rows: printable ASCII, first column "." or "|", one name per segment, a named open last segment keeps '
              'a dot. Tab-only separated sequence lines raise ValueError in sugar (the reader tests for a space); not produced by the '
              'writer, outside the domain.')
TECHNIQUE = 'Coq proof over an executable Gallina model of stockholm.py + differential correspondence on generated cases'
