"""C20 -- substitution matrices: cases, implementation driver, model terms, property oracle."""
import os, re, tempfile, shutil, pathlib
from fractions import Fraction
from framework import coq_bs, coq_N, coq_list

ID = 'C20'
COQ_IMPORTS = ['G_submat_index', 'C20_Model']
GENERATORS = ['gen_submat']
MODELLED_FUNCS = {'sugar/data/__init__.py': ['submat', '_submat_files']}
RULE = ('every bundled matrix name (from _submat_files()) in upper, lower and random mixed case, all cells of the returned dict of '
        'dicts compared; unknown names (near misses of bundled names, random words, "", ".", README entries, relative paths); generated '
        'matrix files built from abstract lines (comment, blank, word lines with arbitrary white-space layout incl. tabs, \\x1f, '
        'CRLF/CR/\\x0c/\\x85... line ends, NBSP separators, letters of 1-3 characters (printable ASCII and Latin-1), non-ASCII comment '
        'text, int rows incl. integers beyond 2^53, decimal rows, ragged rows) '
        'written to a temp file and loaded by path given as str or as pathlib.Path, plus a mutation stream (duplicate letters, one-word '
        'rows, junk cells, exotic number syntax); abstract files with LF line ends are rendered to text by the Coq model itself '
        '(render/afile_ok of the theorems) and length+checksum of that text are compared with the bytes the driver wrote; "numfile" '
        'cases are matrices of NUMBERS whose literals are written by the model (render_num) under LF/CRLF/CR with or without a final '
        'terminator (render_with); HISTORY cases make several calls in one process with no state reset in between (repeats, other spellings, '
        'str vs Path, same base name in two directories, same content under two paths, a path rewritten with other content, results '
        'edited by the caller between calls), each call compared with the pure model on the current content; "cwdfile" cases write a '
        'user matrix into a scratch working directory under a bare name that spells a bundled matrix (lower/upper/mixed case) or '
        'not, and call submat(that name) - the file must win - or another spelling (no file: the name decides); extra relational stream '
        '(no model): 250/1500 files with Greek, Cyrillic, CJK, astral-plane, zero-width and combining letters and non-ASCII comments, '
        'written as UTF-8 and compared with the oracle\'s positional reading of the abstract words; "mfile" cases: matrices of numbers '
        'of any shape (short/long/mixed rows, repeated letters, row letters outside the header) in an abstract layout, text rendered AND expected result computed by the model '
        '(run_C20m) under 9 line terminators; "numtok": single cell words (random over 0-9._eE+-, exponent forms, underscores, inf/nan, junk; thorough: every word of <= 4 characters over 01._e+-) read by '
        'CPython int()/float(), by the model, and as the only cell of a row by submat; "fsdir": a scratch working directory with regular files, directories, symbolic links (to files, to directories, '
        'dangling, loops, chains of up to 42 links) and submat(name) as str or Path; file locations and names also as another os.PathLike, a str subclass and (existing files) bytes; names as pathlib.Path; pieces of the joined listing as unknown names; histories return object identities and the final content of every object; '
        '"proc" stream (extra check, child processes): relative user files, shadowing files and bundled names loaded before and after in-process '
        'entry points of sugar (scripts.run/cli sub-commands, read/write of archives, FastaIndex) with os.getcwd() required unchanged; '
        'non-trivial = distinct case with a branch marker')
TRUSTED = ['CPython text layer (open() in text mode with universal newlines, UTF-8 decoding), str.split/strip/splitlines/'
           'upper, int(), float(), dict insertion order: modelled for ASCII and compared on every case',
           'os.path.isfile(fname) is taken as false for names (empty working directory in the driver); the lookup of NAME.upper() in '
           '_submat_files() is modelled on the regenerated list; importlib.resources.files(...).joinpath opening that very file',
           'modelled: sugar.data.submat and _submat_files (sugar/data/__init__.py:60-99); the driver never resets any state of sugar between '
           'the calls of a history: submat must be a pure function of the argument and the current file content; between CASES it only '
           'empties a functools cache on submat if one exists (none on the current code), so that every replay is self-contained',
           'tools/gens/c20.py copies the raw bytes of each bundled file into coq/gen/G_submat_<k>.v; length and checksum are recomputed '
           'in Coq and compared with the file on disk in every name case']
ASSUMPTIONS = ['the locale\'s default text encoding is UTF-8 (as in the sandbox): a file holds the UTF-8 encoding of its text and open(fname) '
               'decodes it; the Coq model works on the DECODED text over code points 0..255 (ASCII + Latin-1 letters, NBSP and NEL as white '
               'space / line boundary); text with letters beyond code point 255 (Greek, Cyrillic, CJK, astral plane) is checked against the '
               'oracle only; the file system is case-sensitive (./nuc does not make isfile("NUC") true); matrix NAMES are ASCII, not absolute paths and do not leave the working directory via ".."',
               'number syntax of cells restricted to [+-]?D+ (int rows) and [+-]?(D+|D+.D*|.D+) (rows containing a "."); other '
               'forms accepted by int()/float() (underscores, exponents, inf, nan) are outside the domain',
               'header letters and row letters pairwise different (otherwise "the number at that position" is ambiguous)',
               'the requested name is not the path of a regular file (the driver runs each name case in an empty working directory)']

WS_IN_LINE = ' \t\x1f\xa0'        # white space that does not end a line (NBSP is str.isspace)
LINE_ENDS = ['\n', '\r\n', '\r', '\x0c', '\x1c', '\x0b', '\x1d', '\x1e', '\x85']
ALL_WS = ' \t\n\x0b\x0c\r\x1c\x1d\x1e\x1f'


def _textchar(ch):
    """a character that may be part of a word: not white space for str.split (any script), encodable as UTF-8"""
    return not ch.isspace() and not 0xD800 <= ord(ch) <= 0xDFFF


def file_bytes(text):
    """what is on disk: the UTF-8 encoding of the text (the sandbox's default text encoding, which open(fname) uses)"""
    return text.encode('utf-8')


def in_model(text):
    """the Coq model carries decoded text over the code points 0..255"""
    return all(ord(ch) < 256 for ch in text)


def _data_dir():
    import sugar.data
    return os.path.join(os.path.dirname(sugar.data.__file__), 'data_submat')


def _bundled():
    d = _data_dir()
    return sorted(n for n in os.listdir(d) if not n.startswith('README') and os.path.isfile(os.path.join(d, n)))


# ----------------------------------------------------------------------------- rendering of abstract files

def words_of(line):
    """sanitised words of an abstract word line (no white space inside, no empty word)"""
    out = []
    for w in line.get('w', []):
        if isinstance(w, str):
            w = ''.join(ch for ch in w if _textchar(ch))
            if w:
                out.append(w)
    return out


def _ws(s, default):
    s = ''.join(ch for ch in (s if isinstance(s, str) else '') if ch in WS_IN_LINE)
    return s or default


def render_line(line):
    k = line.get('k')
    if k == 'c':        # comment: the '#' is supplied here, the text cannot end the line
        t = ''.join(ch if _textchar(ch) or ch in ' \t' else ' ' for ch in str(line.get('t', '')))
        return _ws(line.get('lead'), '') + '#' + t
    if k == 'b':        # blank
        return _ws(line.get('t'), '')
    ws = words_of(line)
    return _ws(line.get('lead'), '') + _ws(line.get('sep'), ' ').join(ws) + _ws(line.get('trail'), '')


def render(case):
    if 'raw' in case:
        return case['raw']
    nl = case.get('nl', '\n')
    if nl not in LINE_ENDS:
        nl = '\n'
    lines = [render_line(l) for l in case.get('lines', []) if isinstance(l, dict)]
    txt = nl.join(lines)
    if lines and not case.get('nofinal'):
        txt += nl
    return txt


def coq_rendered(case):
    """abstract cases with LF line ends and a final newline are rendered by the Coq model itself (run_C20f)"""
    if case.get('_plain') or ('lines' in case and 'raw' not in case and not in_model(render(case))):
        return False
    nl = case.get('nl', '\n')
    if nl not in LINE_ENDS:
        nl = '\n'                        # same default as render()
    return 'lines' in case and 'raw' not in case and nl == '\n' and not case.get('nofinal')


def coq_aline(line):
    k = line.get('k')
    if k == 'c':
        txt = render_line(line)
        lead = _ws(line.get('lead'), '')
        return '(AComment %s %s)' % (coq_bs(lead), coq_bs(txt[len(lead) + 1:]))
    if k == 'b':
        return '(ABlank %s)' % coq_bs(render_line(line))
    ws = words_of(line)
    if not ws:
        return '(ABlank %s)' % coq_bs(render_line(line))
    sep = _ws(line.get('sep'), ' ')
    return '(AWords %s %s %s %s)' % (coq_bs(_ws(line.get('lead'), '')), coq_bs(ws[0]),
                                     coq_list(['(%s, %s)' % (coq_bs(sep), coq_bs(w)) for w in ws[1:]]),
                                     coq_bs(_ws(line.get('trail'), '')))


def afile_ok_py(case):
    """the abstract layout conditions of the Coq predicate afile_ok, for lines as the generator builds them"""
    for l in case.get('lines', []):
        if isinstance(l, dict) and l.get('k') not in ('c', 'b'):
            ws = words_of(l)
            if ws and ws[0].startswith('#'):
                return False
    return True


def file_result(case, got):
    """the matrix (or exception) part of an implementation/model value of a file case"""
    if case['op'] == 'file' and coq_rendered(case) and isinstance(got, list) and len(got) == 4 and isinstance(got[0], bool):
        return got[3]
    return got


# ----------------------------------------------------------------------------- files of NUMBERS (literals written by the model)

EOLS = {'LF': '\n', 'CRLF': '\r\n', 'CR': '\r', 'VT': '\x0b', 'FF': '\x0c', 'FS': '\x1c', 'GS': '\x1d', 'RS': '\x1e', 'NEL': '\x85'}
EOL_CHOICE = ['LF', 'LF', 'LF', 'CRLF', 'CRLF', 'CR', 'CR', 'VT', 'FF', 'FS', 'GS', 'RS', 'NEL']


def py_num(v):
    """canonical literal of an int [z] or a decimal [m, k] = m / 10^k (k fraction digits, at least one integer digit)"""
    if len(v) == 1:
        return str(v[0])
    m, k = v
    ds = str(abs(m)).rjust(k + 1, '0')
    return ('-' if m < 0 else '') + ds[:len(ds) - k] + '.' + ds[len(ds) - k:]


def _clean_word(w):
    return ''.join(ch for ch in w if ch not in ALL_WS and 32 < ord(ch) < 127) if isinstance(w, str) else ''


def numfile_norm(case):
    """(letters, rows, eol name, final) of a numfile case after sanitising (robust against shrinking)"""
    letters = [w for w in (_clean_word(x) for x in case.get('letters', [])) if w and not w.startswith('#')] or ['A']
    rows = []
    for r in case.get('rows', []):
        if not isinstance(r, dict):
            continue
        name = _clean_word(r.get('r'))
        dec = bool(r.get('dec'))
        vs = []
        for v in r.get('v', []):
            if isinstance(v, list) and len(v) == 2 and all(isinstance(x, int) and not isinstance(x, bool) for x in v) and 0 <= v[1] < 60:
                vs.append([v[0], v[1]] if dec else [v[0]])
        if name and not name.startswith('#') and vs:
            rows.append((name, dec, vs))
    e = case.get('eol') if case.get('eol') in EOLS else 'LF'
    return letters, rows, e, bool(case.get('final', True))


def numfile_text(case):
    letters, rows, e, final = numfile_norm(case)
    lines = [' '.join(letters)] + [' '.join([n] + [py_num(v) for v in vs]) for n, dec, vs in rows]
    return EOLS[e].join(lines) + (EOLS[e] if final else '')


def numfile_term(case):
    letters, rows, e, final = numfile_norm(case)

    def words(first, rest):
        return '(AWords [] %s %s [])' % (first, coq_list(['(%s, %s)' % (coq_bs(' '), w) for w in rest]))

    def num(v):
        return '(render_num (NInt (%d)%%Z))' % v[0] if len(v) == 1 else '(render_num (NDec (%d)%%Z %d%%nat))' % (v[0], v[1])
    als = [words(coq_bs(letters[0]), [coq_bs(w) for w in letters[1:]])]
    als += [words(coq_bs(n), [num(v) for v in vs]) for n, dec, vs in rows]
    return 'out (run_C20w %s %s %s)' % (e, 'true' if final else 'false', coq_list(als))


def gen_numfile(rng):
    n = rng.choice([1, 2, 3, 4, 6])
    letters = _letters(rng, n)
    letters = [l for l in letters if not l.startswith('#')] or ['A']
    rows = []
    for r in (letters if rng.random() < 0.7 else _letters(rng, rng.choice([1, 2, 3]))):
        dec = rng.random() < 0.5
        m = len(letters) + rng.choice([0, 0, 0, -1, 1])
        vs = []
        for _ in range(max(1, m)):
            mant = rng.choice([0, 1, -1, 5, -5, 12, -125, 1250, rng.randint(-10 ** 6, 10 ** 6), rng.randint(-10 ** 20, 10 ** 20), 2 ** 53 + 1])
            vs.append([mant, rng.choice([0, 1, 2, 2, 3, 5, 9, 17, 25]) if dec else 0])
        rows.append({'r': r, 'dec': dec, 'v': vs})
    return {'op': 'numfile', 'letters': letters, 'rows': rows, 'eol': rng.choice(EOL_CHOICE),
            'final': rng.random() < 0.7, 'aspath': rng.random() < 0.3}


def numfile_expected(case):
    letters, rows, e, final = numfile_norm(case)
    if len(set(letters)) != len(letters) or len(set(n for n, d, v in rows)) != len(rows):
        return None
    exp = {}
    for n, dec, vs in rows:
        exp[n] = {c: (float(Fraction(v[0], 10 ** v[1])) if dec else v[0]) for c, v in zip(letters, vs)}
    return exp


# ----------------------------------------------------------------------------- matrices of numbers in any layout (mfile)

def _num_ok(v):
    return isinstance(v, list) and len(v) in (1, 2) and all(isinstance(x, int) and not isinstance(x, bool) for x in v) and \
        (len(v) == 1 or 0 <= v[1] < 60)


def _skip_line(l):
    """a comment / blank line dict, sanitised; None if it is something else"""
    if isinstance(l, dict) and l.get('k') in ('c', 'b'):
        return {'k': l['k'], 't': str(l.get('t', '')), 'lead': str(l.get('lead', ''))}
    return None


def mfile_norm(case):
    """(pre, header, body, eol, final) of an mfile case after sanitising (robust against shrinking)"""
    pre = [x for x in (_skip_line(l) for l in case.get('pre', [])) if x]
    h = case.get('header') if isinstance(case.get('header'), dict) else {}
    letters = [w for w in (_clean_word(x) for x in h.get('w', [])) if w] or ['A']
    if letters[0].startswith('#'):
        letters[0] = 'A' + letters[0]
    header = {'w': letters, 'sep': _ws(h.get('sep'), ' '), 'lead': _ws(h.get('lead'), ''), 'trail': _ws(h.get('trail'), '')}
    body = []
    for l in case.get('body', []):
        sk = _skip_line(l)
        if sk:
            body.append(sk)
            continue
        if not isinstance(l, dict):
            continue
        name = _clean_word(l.get('r'))
        cells = [[_ws(c[0], ' '), c[1]] for c in l.get('cells', []) if isinstance(c, list) and len(c) == 2 and _num_ok(c[1])]
        if name and not name.startswith('#') and cells:
            body.append({'k': 'r', 'r': name, 'cells': cells, 'lead': _ws(l.get('lead'), ''), 'trail': _ws(l.get('trail'), '')})
    e = case.get('eol') if case.get('eol') in EOLS else 'LF'
    return pre, header, body, e, bool(case.get('final', True))


def mfile_text(case):
    pre, header, body, e, final = mfile_norm(case)
    lines = [render_line(l) for l in pre]
    lines.append(header['lead'] + header['sep'].join(header['w']) + header['trail'])
    for l in body:
        if l['k'] == 'r':
            lines.append(l['lead'] + l['r'] + ''.join(sep + py_num(v) for sep, v in l['cells']) + l['trail'])
        else:
            lines.append(render_line(l))
    return EOLS[e].join(lines) + (EOLS[e] if final else '')


def mfile_term(case):
    pre, header, body, e, final = mfile_norm(case)

    def num(v):
        return '(NInt (%d)%%Z)' % v[0] if len(v) == 1 else '(NDec (%d)%%Z %d%%nat)' % (v[0], v[1])

    def ml(l):
        if l['k'] == 'r':
            return '(MRow %s %s %s %s)' % (coq_bs(l['lead']), coq_bs(l['r']),
                                           coq_list(['(%s, %s)' % (coq_bs(sep), num(v)) for sep, v in l['cells']]), coq_bs(l['trail']))
        return '(MSkip %s)' % coq_aline(l)
    w = header['w']
    return 'out (run_C20m %s %s (MFile %s %s %s %s %s %s))' % (
        e, 'true' if final else 'false', coq_list([coq_aline(l) for l in pre]), coq_bs(header['lead']), coq_bs(w[0]),
        coq_list(['(%s, %s)' % (coq_bs(header['sep']), coq_bs(x)) for x in w[1:]]), coq_bs(header['trail']),
        coq_list([ml(l) for l in body]))


def _py_value(v, dec):
    if len(v) == 2:
        return _to_float(Fraction(v[0], 10 ** v[1]))
    return _to_float(Fraction(v[0])) if dec else v[0]


def _to_float(q):
    try:
        return float(q)
    except OverflowError:
        return float('inf') if q > 0 else float('-inf')


def mfile_expected(case):
    """first principles: row r, j-th header letter -> j-th number of the row; one decimal literal makes the ROW float"""
    pre, header, body, e, final = mfile_norm(case)
    letters = header['w']
    rows = [l for l in body if l['k'] == 'r']
    if len(set(letters)) != len(letters) or len(set(l['r'] for l in rows)) != len(rows):
        return None
    exp = {}
    for l in rows:
        dec = any(len(v) == 2 for sep, v in l['cells'])
        exp[l['r']] = {c: _py_value(v, dec) for c, (sep, v) in zip(letters, l['cells'])}
    return exp


def gen_mfile(rng):
    n = rng.choice([1, 2, 3, 4, 6])
    letters = [l for l in _letters(rng, n, LETTER_POOLS[:5]) if not l.startswith('#')] or ['A']
    sq = rng.random() < 0.6
    rows = list(letters) if sq else _letters(rng, rng.choice([1, 2, 3, 5]), LETTER_POOLS[:5])
    if rng.random() < 0.1 and rows:
        rows.append(rows[0])                       # a repeated row letter: the later row replaces the earlier one at its place
    if rng.random() < 0.08 and len(letters) > 1:
        letters.append(letters[0])                 # a repeated header letter: the later column wins
    sep = lambda: rng.choice([' ', ' ', '  ', '\t', ' \t ', '\x1f', '\xa0', '     '])
    body = []
    for r in rows:
        if rng.random() < 0.2:
            body.append(_comment(rng) if rng.random() < 0.6 else _blank(rng))
        kind = rng.choice(['int', 'int', 'dec', 'dec', 'mixed'])
        m = max(1, len(letters) + rng.choice([0, 0, 0, -1, -2, 1, 3]))
        cells = []
        for j in range(m):
            mant = rng.choice([0, 0, 1, -1, 5, -5, 12, -125, 1250, rng.randint(-10 ** 6, 10 ** 6), rng.randint(-10 ** 20, 10 ** 20), 2 ** 53 + 1])
            isdec = kind == 'dec' or (kind == 'mixed' and rng.random() < 0.4)
            cells.append([sep(), [mant, rng.choice([0, 1, 2, 2, 3, 5, 9, 17, 25])] if isdec else [mant]])
        body.append({'k': 'r', 'r': r, 'cells': cells, 'lead': rng.choice(['', '', ' ', '\t']), 'trail': rng.choice(['', '', ' ', '  \t', '\xa0'])})
    for _ in range(rng.choice([0, 0, 1, 2])):
        body.append(_comment(rng) if rng.random() < 0.5 else _blank(rng))
    pre = [(_comment(rng) if rng.random() < 0.7 else _blank(rng)) for _ in range(rng.choice([0, 0, 1, 2, 4]))]
    return {'op': 'mfile', 'pre': pre, 'header': {'w': letters, 'sep': sep(), 'lead': rng.choice(['', ' ', '   ', '\t']), 'trail': rng.choice(['', '', ' ', '\t '])},
            'body': body, 'eol': rng.choice(EOL_CHOICE), 'final': rng.random() < 0.7, 'aspath': rng.random() < 0.3}


# ----------------------------------------------------------------------------- single cell words read by int() / float()

NUM_ALPHABET = '0123456789._eE+-'


def gen_numtok(rng):
    r = rng.random()
    digs = lambda a, b: ''.join(rng.choice('0123456789') for _ in range(rng.randint(a, b)))
    if r < 0.25:
        t = ''.join(rng.choice(NUM_ALPHABET) for _ in range(rng.randint(1, 7)))
    elif r < 0.4:
        t = ''.join(rng.choice('01._e+-') for _ in range(rng.randint(1, 6)))
    elif r < 0.6:                                     # exponent forms
        t = rng.choice(['', '+', '-']) + rng.choice([digs(1, 3), digs(1, 3) + '.', '.' + digs(1, 3), digs(0, 3) + '.' + digs(0, 4), '']) + \
            rng.choice('eE') + rng.choice(['', '+', '-', '-', '--']) + rng.choice([digs(1, 2), digs(1, 3), digs(0, 1), digs(3, 5), '3' + digs(2, 2)])
    elif r < 0.78:                                    # underscores
        t = rng.choice(['', '+', '-']) + digs(1, 4)
        for _ in range(rng.randint(1, 3)):
            i = rng.randint(0, len(t))
            t = t[:i] + rng.choice(['_', '_', '_', '__', '.', '_.', '._', 'e', '_e', 'e_']) + t[i:]
    elif r < 0.86:
        t = rng.choice(['inf', 'Inf', 'INF', '-inf', '+inf', 'infinity', '-Infinity', 'iNfInItY', 'nan', 'NaN', '-nan', '+NAN', 'infinit', 'na', 'in_f',
                        'nane', 'infe5', 'e', 'E5', '1e400', '-1e400', '1e-400', '1e308', '1.8e308', '5e-324', '2e-324', '1e999', '0e999', '1e0005'])
    elif r < 0.93:
        t = rng.choice(['', '+', '-', '+-', '-+', '--']) + '0' * rng.randint(0, 3) + digs(1, 25) + rng.choice(['', '', '.', '.0', '.' + digs(1, 20)])
    else:
        t = rng.choice(['', '.', '+', '-', '+.', '-.e1', '1.5.2', '0x10', '0b1', '0o7', '1,5', '\xb2', '1\xb2', '\xbd', '1\x00', '\x001', '1 ', ' 1', '1 2', '1\t', '\n1',
                        '1\xa0', '\x851', '1L', '1j', '1f', '1d5', '1D5', '1e5L', '١', '1/2', '1e5.', '1e5.0', '1e.5', '.e5', '1.e5', '5.E-3', '+.5e+1'])
    return {'op': 'numtok', 'tok': t}


def _read(f, t):
    try:
        return canon_num(f(t))
    except ValueError:
        return {'e': 'ValueError'}


def _is_word(t):
    return t != '' and not any(ch.isspace() for ch in t) and all(ord(ch) < 256 for ch in t) and '\x00' not in t


def impl_numtok(case):
    """CPython's int()/float() on the word, and the same word as the only cell of a row loaded by submat"""
    from sugar.data import submat
    t = case['tok']
    out = [_read(int, t), _read(float, t)]
    if _is_word(t):
        for text, want in (('X\nr %s\n' % t, out[1] if '.' in t else out[0]), ('X Y\nr %s 0.5\n' % t, out[1])):
            fd, p = tempfile.mkstemp(prefix='C20-num-')
            try:
                with os.fdopen(fd, 'wb') as f:
                    f.write(file_bytes(text))
                try:
                    got = canon_num(submat(p)['r']['X'])
                except Exception as e:
                    got = {'e': type(e).__name__}
            finally:
                os.remove(p)
            if got != want:
                out.append(['submat read', text, got])
    return out


# ----------------------------------------------------------------------------- a working directory with files, directories, links

def fsdir_norm(case):
    """(entries [(name, kind, payload)], called name, aspath): bare printable names, unique"""
    ok = lambda n: isinstance(n, str) and n not in ('', '.', '..') and all(32 < ord(ch) < 127 and ch != '/' for ch in n) and len(n) < 60
    ents, seen = [], set()
    for e in case.get('entries', []):
        if isinstance(e, list) and len(e) == 3 and ok(e[0]) and e[0] not in seen and e[1] in ('f', 'd', 'l'):
            if e[1] == 'f' and isinstance(e[2], dict):
                ents.append((e[0], 'f', render(e[2])))
            elif e[1] == 'd':
                ents.append((e[0], 'd', None))
            elif e[1] == 'l' and ok(e[2]):
                ents.append((e[0], 'l', e[2]))
            else:
                continue
            seen.add(e[0])
    call = case.get('call')
    call = call if ok(call) else 'x'
    return ents, call, bool(case.get('aspath'))


def gen_fsdir(rng, names):
    base = rng.choice(names + ['mymatrix', 'x', 'readme', 'blosum63']) if rng.random() < 0.85 else 'm'
    nm = rng.choice([base, base.lower(), base.lower(), ''.join(ch.lower() if rng.random() < 0.5 else ch.upper() for ch in base)])
    mk = lambda: {k: v for k, v in gen_file(rng).items() if k not in ('op', 'aspath')}
    kind = rng.choice(['file', 'dir', 'link-file', 'link-dir', 'dangling', 'loop', 'loop2', 'chain', 'link-bundled-name', 'missing', 'other-case'])
    ents = []
    if kind == 'file':
        ents = [[nm, 'f', mk()]]
    elif kind == 'dir':
        ents = [[nm, 'd', None]]
    elif kind == 'link-file':
        ents = [[nm, 'l', 't1'], ['t1', 'f', mk()]]
    elif kind == 'link-dir':
        ents = [[nm, 'l', 't1'], ['t1', 'd', None]]
    elif kind == 'dangling':
        ents = [[nm, 'l', 'nothing-here']]
    elif kind == 'loop':
        ents = [[nm, 'l', nm]]
    elif kind == 'loop2':
        ents = [[nm, 'l', 't1'], ['t1', 'l', nm]]
    elif kind == 'chain':
        k = rng.choice([2, 3, 5, 39, 40, 41, 42])
        ents = [[nm, 'l', 'c1']] + [['c%d' % i, 'l', 'c%d' % (i + 1)] for i in range(1, k)] + [['c%d' % k, 'f', mk()]]
    elif kind == 'link-bundled-name':
        ents = [[nm, 'l', 'BLOSUM62']]              # the target is a bundled NAME, not a file here: dangling
    elif kind == 'other-case':
        ents = [[nm.swapcase(), 'f', mk()]]
    if rng.random() < 0.3:
        ents.append(['zz-other', rng.choice(['f', 'd']), mk()])
    c = {'op': 'fsdir', 'entries': ents, 'call': nm, 'aspath': rng.random() < 0.3, 'kind': kind}
    if not c['aspath'] and rng.random() < 0.3:
        c['via'] = rng.choice(['pathlike', 'strsub'])
    return c


def impl_fsdir(case):
    from sugar.data import submat
    _isolate(submat)
    ents, call, aspath = fsdir_norm(case)
    cwd = os.getcwd()
    d = tempfile.mkdtemp(prefix='C20-fs-')
    try:
        os.chdir(d)
        for n, k, p in ents:
            if k == 'f':
                with open(n, 'wb') as f:
                    f.write(file_bytes(p))
            elif k == 'd':
                os.mkdir(n)
            else:
                try:
                    os.symlink(p, n)
                except OSError:
                    return ['no-symlinks-here']          # a file system without symbolic links: nothing to compare
        tag = 'user' if os.path.isfile(call) else 'name'
        try:
            m = submat(_transport(call, case, aspath))
        except FileNotFoundError as e:
            msg = str(e)
            mark = 'available matrices: '
            return [tag, ['fnf', msg[msg.index(mark) + len(mark):] if mark in msg else msg]]
        return [tag, canon_matrix(m)]
    finally:
        os.chdir(cwd)
        shutil.rmtree(d, ignore_errors=True)


def fsdir_term(case):
    ents, call, aspath = fsdir_norm(case)

    def ent(n, k, p):
        return '(%s, %s)' % (coq_bs(n), 'FReg %s' % coq_bs(p) if k == 'f' else 'FDir' if k == 'd' else 'FLink %s' % coq_bs(p))
    if not all(in_model(p) for n, k, p in ents if k == 'f'):
        return OUTSIDE_MODEL
    return 'out (run_C20d %s %s)' % (coq_list([ent(*e) for e in ents]), coq_bs(call))


def fsdir_file_dict(case):
    """the abstract file (dict) that the called name leads to"""
    d = {e[0]: e for e in case.get('entries', []) if isinstance(e, list) and len(e) == 3 and isinstance(e[0], str)}
    ents, call, aspath = fsdir_norm(case)
    n = call
    for _ in range(45):
        e = d.get(n)
        if e is None:
            return None
        if e[1] == 'f':
            return e[2] if isinstance(e[2], dict) else None
        if e[1] != 'l':
            return None
        n = e[2]
    return None


def fsdir_target(case):
    """the oracle's own walk through the links: text of the regular file the called name leads to, or None"""
    ents, call, aspath = fsdir_norm(case)
    d = {n: (k, p) for n, k, p in ents}
    n, hops = call, 0
    while n in d and hops <= 40:
        k, p = d[n]
        if k == 'f':
            return p
        if k == 'd':
            return None
        n, hops = p, hops + 1
    return None


# ----------------------------------------------------------------------------- generators

LETTER_POOLS = ['ARNDCQEGHILKMFPSTWYVBZX*', 'ACGTRYSWKMBDHVN', 'abcdefghijklmnop', '0123456789', '*-+.#@!$%&/()=?<>[]{}|~^_:;,',
                'ACGU\xe9\xd1\xdf\xb5\xd0\xfe\xbf\xd7\xa7\xb2\xff\x80\x9f\xad']          # Latin-1 letters (decoded text within the model)
UNICODE_POOLS = ['ACGU\u03a8\u03c8\u03a9\u03b1\u03b2',                      # Greek (Psi for pseudouridine)
                 '\u0410\u0411\u0412\u0416\u042f\u0444',                     # Cyrillic
                 '\u4e2d\u6587\u5b57\u3042\u30a2',                          # CJK / kana
                 'A\xe9\u03a8\u0416\u4e2d\U0001d6d9\U0001f9ec\u200b\u0301']      # mixed, astral plane, zero-width and combining characters


def _letters(rng, n, pools=None):
    pools = pools or LETTER_POOLS
    pool = rng.choice(pools)
    out = []
    tries = 0
    while len(out) < n and tries < 200:
        tries += 1
        if rng.random() < 0.15:
            w = ''.join(rng.choice(''.join(pools)) for _ in range(rng.choice([2, 2, 3])))
        else:
            w = rng.choice(pool)
        if w not in out:
            out.append(w)
    return out


def _int_tok(rng):
    v = rng.choice([0, 1, -1, 2, -4, 5, 9, 10, -10, 17, 100, -123, rng.randint(-9999, 9999), rng.randint(-10 ** 12, 10 ** 12),
                    rng.choice([2 ** 53 + 1, -(2 ** 53) - 1, 10 ** 17 + 3, 2 ** 64 + 1, -(10 ** 30) - 7])])   # not representable as double
    s = str(v)
    r = rng.random()
    if r < 0.05 and v >= 0:
        s = '+' + s
    elif r < 0.1:
        s = ('-' if v < 0 else '') + '0' * rng.randint(1, 2) + str(abs(v))
    elif r < 0.12 and v == 0:
        s = '-0'
    return s


def _dec_tok(rng):
    r = rng.random()
    sign = rng.choice(['', '', '-', '-', '+'])
    ip = str(rng.choice([0, 0, 1, 2, 5, 12, rng.randint(0, 999), rng.randint(0, 10 ** 9)]))
    fp = ''.join(rng.choice('0123456789') for _ in range(rng.choice([1, 1, 2, 2, 4, 8, 17, 30])))
    if r < 0.1:
        return sign + '.' + fp
    if r < 0.2:
        return sign + ip + '.'
    if r < 0.3:
        return sign + ip                 # an integer-looking cell inside a decimal row
    if r < 0.35:
        return sign + '0.' + '0' * rng.randint(1, 5)
    return sign + ip + '.' + fp


def _comment(rng):
    return {'k': 'c', 't': rng.choice(['', ' BLOSUM', '  Matrix made by x', ' Lowest score = -4, Highest score = 5', '#', ' A R N D', '\t1 2 3', ' 1.5',
                                       ' caf\xe9 \xb5-matrix \xa9', ' \xd0\xfe\xbf 1 2']),
            'lead': rng.choice(['', '', '', ' ', '\t', '  \x1f'])}


def _blank(rng):
    return {'k': 'b', 't': rng.choice(['', '', ' ', '   ', '\t', ' \x1f '])}


def gen_file(rng, big=False, pools=None):
    n = rng.choice([1, 2, 3, 4, 5, 8] + ([12, 24] if big else []))
    letters = _letters(rng, n, pools)
    square = rng.random() < 0.7
    rows = list(letters) if square else _letters(rng, rng.choice([1, 2, 3, 5]), pools)
    if not square and rng.random() < 0.5:
        rows = rows + [l for l in letters if l not in rows][:2]
    rng_sep = lambda: rng.choice([' ', ' ', '  ', '   ', '\t', ' \t', '\x1f', '    '])
    lines = []
    for _ in range(rng.choice([0, 0, 1, 2, 5])):
        lines.append(_comment(rng) if rng.random() < 0.7 else _blank(rng))
    lines.append({'k': 'w', 'w': letters, 'sep': rng_sep(), 'lead': rng.choice(['', ' ', '   ', '\t']), 'trail': rng.choice(['', '', ' ', '\t '])})
    symmetric = square and rng.random() < 0.5
    vals = {}
    for i, r in enumerate(rows):
        if rng.random() < 0.15:
            lines.append(_comment(rng) if rng.random() < 0.6 else _blank(rng))
        fl = rng.random() < 0.3
        m = n
        rr = rng.random()
        if rr < 0.12:
            m = rng.randint(1, n)            # short row
        elif rr < 0.2:
            m = n + rng.randint(1, 3)        # long row (extra cells are never converted)
        toks = []
        for j in range(m):
            if symmetric and j < i and (j, i) in vals and j < n:
                toks.append(vals[(j, i)])
                continue
            t = _dec_tok(rng) if fl else _int_tok(rng)
            vals[(i, j)] = t
            toks.append(t)
        if symmetric:
            fl = any('.' in t for t in toks)
        if fl and not any('.' in t for t in toks):
            toks[rng.randrange(len(toks))] = _dec_tok(rng).split('.')[0] + '.5'
        if m > n and rng.random() < 0.5:
            toks[n] = rng.choice(['junk', '1e5', '--', 'x.y'])     # beyond the header: ignored by zip
        lines.append({'k': 'w', 'w': [r] + toks, 'sep': rng_sep(), 'lead': rng.choice(['', '', ' ', '\t']), 'trail': rng.choice(['', '', ' ', '  \t'])})
    for _ in range(rng.choice([0, 0, 0, 1, 2])):
        lines.append(_comment(rng) if rng.random() < 0.5 else _blank(rng))
    c = {'op': 'file', 'lines': lines, 'nl': rng.choice(['\n'] * 8 + LINE_ENDS), 'nofinal': rng.random() < 0.15,
         'aspath': rng.random() < 0.4}      # location given as pathlib.Path instead of str
    if not c['aspath'] and rng.random() < 0.3:
        c['via'] = rng.choice(['pathlike', 'strsub', 'bytes'])     # ... or as another os.PathLike, a str subclass, bytes
    return c


def mutate(rng, c):
    """abstract mutations that leave the modelled domain or hit its edge"""
    c = {'op': 'file', 'lines': [dict(l) for l in c['lines']], 'nl': c['nl'], 'nofinal': c['nofinal'], 'aspath': c.get('aspath', False), 'via': c.get('via')}
    wl = [l for l in c['lines'] if l['k'] == 'w']
    kind = rng.choice(['dupcol', 'duprow', 'oneword', 'junk', 'exotic', 'hashletter', 'noheader', 'empty', 'dotletter', 'nonascii'])
    if kind == 'dupcol' and len(wl[0]['w']) > 1:
        wl[0]['w'] = wl[0]['w'] + [wl[0]['w'][0]]
    elif kind == 'duprow' and len(wl) > 1:
        c['lines'].append(dict(wl[rng.randrange(1, len(wl))]))
    elif kind == 'oneword' and len(wl) > 1:
        l = wl[rng.randrange(1, len(wl))]
        l['w'] = l['w'][:1]
    elif kind == 'junk' and len(wl) > 1:
        l = wl[rng.randrange(1, len(wl))]
        l['w'] = l['w'][:1] + [rng.choice(['x', '1..2', '-', '+', '1-', '', '1.5.2', '0x10', '.'])] + l['w'][2:]
    elif kind == 'exotic' and len(wl) > 1:
        l = wl[rng.randrange(1, len(wl))]
        l['w'] = l['w'][:1] + [rng.choice(['1_0', '1e3', 'inf', 'nan', '-Infinity', '1.5e-3', '1_0.5', '1E2'])] + l['w'][2:]
    elif kind == 'hashletter':
        l = rng.choice(wl)
        l['w'] = ['#' + l['w'][0]] + l['w'][1:]
    elif kind == 'noheader':
        c['lines'] = [l for l in c['lines'] if l is not wl[0]]
    elif kind == 'empty':
        c['lines'] = [l for l in c['lines'] if l['k'] != 'w']
    elif kind == 'dotletter' and len(wl) > 1:
        l = wl[rng.randrange(1, len(wl))]
        l['w'] = ['.' + l['w'][0]] + l['w'][1:]
    elif kind == 'nonascii':
        return {'op': 'file', 'raw': render(c).replace(' ', rng.choice([' \xe9', '\xa0', '\x85', ' \xa0 ', '\xe9'])), 'aspath': c.get('aspath', False)}
    return c


HIST_NAMES = ['nuc.4.2', 'NUC.4.2', 'Nuc.4.2', 'nUC.4.2', 'nuc.4.4', 'NUC.4.4', 'match', 'MATCH', 'nuc.4.3', 'nuc', 'readme', 'xyz', '']


def gen_history(rng):
    """several calls in one process: repeats, other spellings / str vs Path, other files under the same base name, the same path
    rewritten, results edited by the caller between calls"""
    steps, files = [], []
    n = rng.randint(3, 8)
    while len(steps) < n:
        r = rng.random()
        if r < 0.3:
            nm = rng.choice(HIST_NAMES) if rng.random() < 0.9 else rng.choice(['blosum62', 'Blosum62', 'pam250', 'PAM250'])
            st = {'s': 'name', 'name': nm, 'aspath': rng.random() < 0.2}
        elif r < 0.6 or not files:
            if files and rng.random() < 0.3:
                f = rng.choice(files)                      # the same content under another (or the same) path
            else:
                f = gen_file(rng)
                if rng.random() < 0.15:
                    f = mutate(rng, f)
                f = {k: v for k, v in f.items() if k not in ('op', 'aspath')}
                files.append(f)
            st = {'s': 'file', 'slot': rng.randrange(len(SLOTS)), 'file': f, 'aspath': rng.random() < 0.4}
        elif r < 0.8:
            st = {'s': 'again', 'slot': rng.randrange(len(SLOTS)), 'aspath': rng.random() < 0.4}
        else:
            st = {'s': 'mutate', 'back': rng.choice([1, 1, 2, 3]), 'kind': rng.choice(['cell', 'cell', 'delrow', 'addrow', 'clear'])}
        steps.append(st)
        if st['s'] != 'mutate' and rng.random() < 0.3:
            steps.append(dict(st))                          # the very same call again
    return {'op': 'hist', 'steps': steps}


def gen_cwdfile(rng, names):
    """a user's matrix file in the working directory under a bare name that spells a bundled matrix (or not), then
    submat(<that name>) - the file must win - or submat(<another spelling>), which is no file and resolves by name"""
    r = rng.random()
    base = rng.choice(names) if r < 0.8 else rng.choice(['mymatrix', 'blosum63', 'readme', 'my.matrix', 'x'])
    fname = rng.choice([base, base.lower(), ''.join(ch.lower() if rng.random() < 0.5 else ch.upper() for ch in base)])
    f = gen_file(rng)
    f = {k: v for k, v in f.items() if k not in ('op', 'aspath')}
    call = fname
    if rng.random() < 0.25:
        call = rng.choice([fname.upper(), fname.lower(), fname.swapcase()])   # other spelling: not a file (case-sensitive file system)
    return {'op': 'cwdfile', 'fname': fname, 'call': call, 'file': f, 'aspath': rng.random() < 0.3}


def cwd_norm(case):
    """(file name, called name, text, aspath) with a usable bare file name"""
    fname = ''.join(ch for ch in str(case.get('fname', '')) if 32 < ord(ch) < 127 and ch != '/') or 'x'
    if fname in ('.', '..'):
        fname = 'x'
    call = case.get('call')
    call = call if isinstance(call, str) and call and '/' not in call and all(32 < ord(ch) < 127 for ch in call) else fname
    f = case.get('file') if isinstance(case.get('file'), dict) else {}
    return fname, call, render(f), bool(case.get('aspath'))


def spellings(rng, name, k):
    out = [name, name.lower()]
    while len(out) < k:
        s = ''.join(ch.lower() if rng.random() < 0.5 else ch.upper() for ch in name)
        out.append(s)
    return out[:k]


def gen_cases(rng, tier):
    thorough = tier == 'thorough'
    names = _bundled()
    cases = []
    for i, n in enumerate(names):
        sp = spellings(rng, n, 6 if thorough else 3)
        if not thorough and i % 5:
            sp = sp[1:]                  # quick: lower + one mixed spelling for every name, the upper-case name for every 5th
        for s in sp:
            cases.append({'op': 'name', 'name': s})
    unknown = ['xyz', 'BLOSUM', 'blosum63', 'pam', 'PAM1', 'blosum62 ', ' blosum62', 'blosum62.5', 'blosum62.500', 'BLOSUM62\x00',
               'nuc.4', 'nuc.4.', 'IDENTITY_', 'match.', 'gonnet1', 'b', 'README.matrices', 'readme.txt', 'blosum-62', 'BLOSUM_62']
    for _ in range(250 if thorough else 40):
        n = rng.choice(names)
        r = rng.random()
        if r < 0.3:
            i = rng.randrange(len(n))
            u = n[:i] + n[i + 1:]
        elif r < 0.6:
            i = rng.randrange(len(n) + 1)
            u = n[:i] + rng.choice('0123456789.xX_') + n[i:]
        else:
            u = ''.join(rng.choice('abcXYZ019._-') for _ in range(rng.randint(1, 9)))
        unknown.append(u.lower() if rng.random() < 0.5 else u)
    joined = ', '.join(names)
    for _ in range(300 if thorough else 40):         # pieces of the listing itself (a name, a fragment, two names with the separator)
        i = rng.randrange(len(joined))
        u = joined[i:i + rng.choice([1, 1, 2, 3, 4, 6, 8, 12, 20])]
        unknown.append(u.lower() if rng.random() < 0.5 else u)
    unknown += ['blosum', 'PAM', 'pam1', 'nuc.4', '62', 'H', ',', ', ', ' ', 'BLOSUM62, BLOSUM65', 'blosum62,', joined, joined.lower()]
    for u in unknown:
        cases.append({'op': 'name', 'name': u})
    # former defect witnesses (fix ceb95f9): not matrices, must be reported missing with the list
    for u in ['', '.', '..', 'readme', 'README', 'README.matrices', 'a/b', 'blosum62/', './blosum62']:
        cases.append({'op': 'name', 'name': u})
    # names outside the domain (counted as drift only)
    for u in ['blosum\xe962', '../C20-nonexistent/x']:
        cases.append({'op': 'name', 'name': u})
    nfiles = 5000 if thorough else 650
    for i in range(nfiles):
        c = gen_file(rng, big=(i % 10 == 0))
        if rng.random() < 0.2:
            c = mutate(rng, c)
        cases.append(c)
    for raw in ['\xc9 \xd1\n\xc9 1 2\n\xd1 2 1\n', 'A\xa0B\nA\xa01\xa02\n', 'A B\x85A 1 2\x85B 2 1', '# caf\xe9\n\xb5 \xdf\n\xb5 1.5 2\n', '', '\n', '#\n', 'A\n', 'A B\nA 1 2\nB 2 1', 'A B\r\nA 1 2\r\nB 2 1\r\n', ' A B\nA 1.0 2\nB 2 1\n', 'A\x0bB\nA 1\n',
                'A B\nA 1 2\x0cB 2 1\n', 'A B\nA\x1f1\x1f2\n', 'A B\nA 1 2 # c', 'A B\nA 1 2 # v1.0', 'A B C\nA 1 2 # c', 'A B A\nA 1 2 3\nB 4 5 6\nA 7 8', 'A\nr 1e5 x\n', 'A\nr 1.e5 x\n',
                'A B\nA 1 2 3.\n', 'A B\nA 1_0 -0_0\nB 1e2 .5\n', 'A B\n# c\n\nA 1 2\n   # d\nB 2 1\n\n', '#A B\nA B\nA 1 2\n', 'A B\r\rA 1 2\r', 'A B\n\r\nA 1 2\n\r', 'A B\nA 1', 'A B\nA 1 2 3 x\n', 'A B\nA x\n', 'A B\nA\n', 'A A\nA 1 2\n']:
        cases.append({'op': 'file', 'raw': raw})
    for _ in range(1500 if thorough else 260):
        cases.append(gen_history(rng))
    for _ in range(600 if thorough else 60):
        cases.append(gen_numfile(rng))
    for _ in range(2500 if thorough else 170):
        cases.append(gen_mfile(rng))
    for _ in range(6000 if thorough else 500):
        cases.append(gen_numtok(rng))
    if thorough:                              # every word of up to 4 characters over the core alphabet
        import itertools
        for n in range(0, 5):
            for t in itertools.product('01._e+-', repeat=n):
                cases.append({'op': 'numtok', 'tok': ''.join(t)})
    for _ in range(1200 if thorough else 130):
        cases.append(gen_fsdir(rng, names))
    for n in rng.sample(names, 60 if thorough else 12):      # Path objects that are no file are treated like names
        nm = rng.choice([n, n.lower(), './' + n.lower(), n.lower() + '/', 'x/../' + n, n + '//', './/./' + n.lower() + '/.', 'a//' + n, './' + n + '/./'])
        cases.append({'op': 'name', 'name': nm, 'aspath': True})
    for nm in ['', '.', 'xyz', 'a/b', 'blosum', 'PAM', 'H', '62', ',', ', ', 'BLOSUM62, BLOSUM65', './.', 'a//b/./c/', './', './/', 'nuc/.', './nuc.4.4', 'NUC.4.2/',
               'a/./b', '..', 'a/..', './..', '.nuc', 'nuc.', '...']:
        cases.append({'op': 'name', 'name': nm, 'aspath': True})
    for n in (names if thorough else ['NUC', 'NUC.4.2', 'NUC.4.4', 'IDENTITY', 'MATCH', 'BLOSUM62', 'PAM250', 'GONNET']):
        cases.append({'op': 'cwdfile', 'fname': n.lower(), 'call': n.lower(), 'aspath': False,
                      'file': {'lines': [{'k': 'w', 'w': ['A', 'C'], 'sep': ' ', 'lead': ' ', 'trail': ''},
                                         {'k': 'w', 'w': ['A', '71', '-72'], 'sep': ' ', 'lead': '', 'trail': ''},
                                         {'k': 'w', 'w': ['C', '-72', '7.5'], 'sep': ' ', 'lead': '', 'trail': ''}], 'nl': '\n', 'nofinal': False}})
    for _ in range(1200 if thorough else 150):
        cases.append(gen_cwdfile(rng, names))
    rng.shuffle(cases)        # spread the heavy bundled cases over the coqc shards
    return cases


# ----------------------------------------------------------------------------- implementation driver

MASK = 0xFFFFFFFF


def cksum(b):
    a = 0
    for c in b:
        a = (a * 31 + c) & MASK
    return a


def canon_num(v):
    if isinstance(v, bool):
        return {'bool': v}
    if isinstance(v, int):
        return v
    if isinstance(v, float):
        return {'f': (0.0 if v == 0 else v).hex()}
    return {'other': repr(v)}


def canon_matrix(m):
    assert isinstance(m, dict)
    return [[r, [[c, canon_num(v)] for c, v in row.items()]] for r, row in m.items()]


def _isolate(submat):
    """Cases must not influence each other (a replay runs ONE case alone). submat has no cache any more, so this does nothing on the
    current code; should a functools cache ever come back, every case starts from an empty one and the defect shows up inside
    a history (which never resets anything between its steps) instead of leaking from one case into the next."""
    cc = getattr(submat, 'cache_clear', None)
    if callable(cc):
        cc()


class _PathLike:
    """an os.PathLike that is neither str nor pathlib.Path"""
    def __init__(self, text):
        self.text = text

    def __fspath__(self):
        return self.text


class _StrSub(str):
    pass


def _transport(text, case, aspath=None):
    """the object handed to submat for the path / name text: str, pathlib.Path, another os.PathLike, a str subclass, bytes"""
    if case.get('aspath') if aspath is None else aspath:
        return pathlib.Path(text)
    via = case.get('via')
    if via == 'pathlike':
        return _PathLike(text)
    if via == 'strsub':
        return _StrSub(text)
    if via == 'bytes':
        return os.fsencode(text)
    return text


def path_text(name):
    """os.fspath(pathlib.Path(name)): what submat sees of a Path that is no file (pathlib normalises '', './x', 'x/', 'a//b')"""
    return os.fspath(pathlib.PurePosixPath(name))


def _call_name(submat, name, keep=None, aspath=False):
    try:
        m = submat(pathlib.Path(name) if aspath else name)
        if aspath:
            name = path_text(name)
    except FileNotFoundError as e:
        msg = str(e)
        mark = 'available matrices: '
        return ['fnf', msg[msg.index(mark) + len(mark):] if mark in msg else msg]
    if keep is not None:
        keep.append(m)
    p = os.path.join(_data_dir(), name.upper())
    b = open(p, 'rb').read() if os.path.isfile(p) else b''
    return ['file', len(b), cksum(b), canon_matrix(m)]


SLOTS = ['a/m.txt', 'b/m.txt', 'a/n.txt']      # same base name in two directories, two names in one directory


def plan(case):
    """normalised actions of a history case, used by the driver AND by the model term (so both see the same steps):
    ('name', name) | ('file', slot, content, aspath, rewritten, abstract file) | ('mutate', index of the call whose result is edited, kind) | ('skip',)"""
    acts, content, calls, fdict = [], {}, [], {}
    for st in case.get('steps', []):
        k = st.get('s') if isinstance(st, dict) else None
        if k == 'name' and isinstance(st.get('name'), str):
            calls.append(len(acts))
            acts.append(('name', st['name'], bool(st.get('aspath'))))
        elif k == 'file' and isinstance(st.get('file'), dict):
            slot = st.get('slot', 0) % len(SLOTS)
            txt = render(st['file'])
            rew = slot in content and content[slot] != txt
            content[slot] = txt
            calls.append(len(acts))
            fdict[slot] = st['file']
            acts.append(('file', slot, txt, bool(st.get('aspath')), rew, st['file']))
        elif k == 'again' and (st.get('slot', 0) % len(SLOTS)) in content:
            slot = st.get('slot', 0) % len(SLOTS)
            calls.append(len(acts))
            acts.append(('file', slot, content[slot], bool(st.get('aspath')), False, fdict[slot]))
        elif k == 'mutate' and calls:
            back = st.get('back', 1)
            back = back if isinstance(back, int) and 1 <= back <= len(calls) else 1
            acts.append(('mutate', calls[-back], st.get('kind', 'cell')))
        else:
            acts.append(('skip',))
    return acts


EDITS = {'delrow': 'EDelRow', 'addrow': 'EAddRow', 'clear': 'EClear', 'cell': 'ECell'}


def _edit_result(m, kind):
    """in-place edit of a matrix that submat returned (what a caller may do with its own dict)"""
    if not isinstance(m, dict):
        return
    if kind == 'delrow' and m:
        del m[next(iter(m))]
    elif kind == 'addrow':
        m['__new__'] = {'__new__': 0}
    elif kind == 'clear':
        m.clear()
    else:
        for r in m:
            if isinstance(m[r], dict) and m[r]:
                c = next(iter(m[r]))
                m[r][c] = 424242
                m[r]['__col__'] = -1
                break


def _call_plain(submat, arg, keep):
    """[object or None], canonical value of one call (matrix / ['fnf', listing] / {'e': class})"""
    try:
        m = submat(arg)
    except FileNotFoundError as e:
        msg = str(e)
        mark = 'available matrices: '
        keep.append(None)
        return ['fnf', msg[msg.index(mark) + len(mark):] if mark in msg else msg]
    except Exception as e:
        keep.append(None)
        return {'e': type(e).__name__}
    keep.append(m)
    return canon_matrix(m)


def _identity(objs, k):
    """index of the first earlier call that handed out the very same dict, or a dict sharing a row dict with this one (else k)"""
    m = objs[k]
    if not isinstance(m, dict):
        return k
    rows = set(id(r) for r in m.values())
    for j in range(k):
        o = objs[j]
        if o is m or (isinstance(o, dict) and any(id(r) in rows for r in o.values())):
            return j
    return k


def impl_history(case):
    """[[None | [identity, content] per step], [content of every handed-out object at the end]]"""
    from sugar.data import submat
    _isolate(submat)
    cwd = os.getcwd()
    d = tempfile.mkdtemp(prefix='C20-hist-')
    out, objs, idx = [], [], {}
    try:
        os.makedirs(os.path.join(d, 'cwd'))
        for sub in ('a', 'b'):
            os.makedirs(os.path.join(d, sub))
        os.chdir(os.path.join(d, 'cwd'))     # empty working directory for the name steps
        for i, a in enumerate(plan(case)):
            if a[0] == 'name':
                idx[i] = len(objs)
                v = _call_plain(submat, pathlib.Path(a[1]) if len(a) > 2 and a[2] else a[1], objs)
                out.append([_identity(objs, len(objs) - 1), v])
            elif a[0] == 'file':
                p = os.path.join(d, SLOTS[a[1]])
                with open(p, 'wb') as f:
                    f.write(file_bytes(a[2]))
                idx[i] = len(objs)
                v = _call_plain(submat, pathlib.Path(p) if a[3] else p, objs)
                out.append([_identity(objs, len(objs) - 1), v])
            elif a[0] == 'mutate':
                _edit_result(objs[idx[a[1]]], a[2])
                out.append(None)
            else:
                out.append(None)
        final = [canon_matrix(o) if isinstance(o, dict) else None for o in objs]
    finally:
        os.chdir(cwd)
        shutil.rmtree(d, ignore_errors=True)
    return [out, final]


def impl_cwdfile(case):
    from sugar.data import submat
    _isolate(submat)
    fname, call, txt, aspath = cwd_norm(case)
    cwd = os.getcwd()
    d = tempfile.mkdtemp(prefix='C20-cwd-')
    try:
        os.chdir(d)                                   # scratch working directory holding exactly one file
        with open(fname, 'wb') as f:
            f.write(file_bytes(txt))
        if call == fname:
            return canon_matrix(submat(pathlib.Path(call) if aspath else call))
        return _call_name(submat, call)               # another spelling: no such file here, the name decides
    finally:
        os.chdir(cwd)
        shutil.rmtree(d, ignore_errors=True)


def impl(case):
    if case['op'] == 'proc':                  # replay of a finding of extra_proc: the whole history again, in a child process
        return proc_run([proc_norm(case)])[0]
    from sugar.data import submat
    if case['op'] == 'hist':
        return impl_history(case)
    if case['op'] == 'cwdfile':
        return impl_cwdfile(case)
    if case['op'] == 'numtok':
        return impl_numtok(case)
    if case['op'] == 'fsdir':
        return impl_fsdir(case)
    _isolate(submat)
    if case['op'] == 'name':
        name = case['name']
        cwd = os.getcwd()
        d = tempfile.mkdtemp(prefix='C20-cwd-')
        try:
            os.chdir(d)            # an empty working directory: isfile(name) is False for every relative name
            if case.get('aspath'):
                return [path_text(name), _call_name(submat, name, aspath=True)]
            return _call_name(submat, name)
        finally:
            os.chdir(cwd)
            os.rmdir(d)
    content = numfile_text(case) if case['op'] == 'numfile' else mfile_text(case) if case['op'] == 'mfile' else render(case)
    fd, p = tempfile.mkstemp(prefix='C20-file-')
    arg = _transport(p, case)
    try:
        with os.fdopen(fd, 'wb') as f:
            f.write(file_bytes(content))
        if case['op'] == 'mfile':
            b = content.encode('latin-1')
            try:
                m = canon_matrix(submat(arg))
            except Exception as e:
                m = {'e': type(e).__name__}
            return [len(b), cksum(b), m, m]
        if case['op'] == 'numfile' or coq_rendered(case):
            b = content.encode('latin-1')          # the model's text: one byte per code point (< 256 here)
            try:
                m = canon_matrix(submat(arg))
            except Exception as e:
                m = {'e': type(e).__name__}
            return [True if case['op'] == 'numfile' else afile_ok_py(case), len(b), cksum(b), m]
        return canon_matrix(submat(arg))
    finally:
        os.remove(p)


OUTSIDE_MODEL = 'out (VL [VB false; VNone])'      # text beyond code point 255: relational check only (extra_checks)


def model_term(case):
    if case['op'] == 'proc':
        return OUTSIDE_MODEL
    if case['op'] == 'cwdfile':
        fname, call, txt, aspath = cwd_norm(case)
        if not in_model(txt):
            return OUTSIDE_MODEL
        if call == fname:
            return 'out (run_C20c %s %s)' % (coq_bs(call), coq_bs(txt))
        return 'out (run_C20 0%%N %s [])' % coq_bs(call)
    if case['op'] == 'file' and not in_model(render(case)):
        return OUTSIDE_MODEL
    if case['op'] == 'hist':
        acts = plan(case)
        if not all(in_model(a[2]) for a in acts if a[0] == 'file'):
            return OUTSIDE_MODEL
        ts, ordinal, n = [], {}, 0
        for i, a in enumerate(acts):
            if a[0] == 'name':
                ordinal[i] = n
                n += 1
                ts.append('HCall %s None' % coq_bs(path_text(a[1]) if len(a) > 2 and a[2] else a[1]))
            elif a[0] == 'file':
                ordinal[i] = n
                n += 1
                ts.append('HCall %s (Some %s)' % (coq_bs(SLOTS[a[1]]), coq_bs(a[2])))
            elif a[0] == 'mutate':
                ts.append('HEdit %d%%nat %s' % (ordinal[a[1]], EDITS.get(a[2], 'ECell')))
            else:
                ts.append('HSkip')
        return 'out (run_C20h %s)' % coq_list(ts)
    if case['op'] == 'name':
        if case.get('aspath'):
            return 'out (run_C20p %s)' % coq_bs(case['name'])
        return 'out (run_C20 0%%N %s [])' % coq_bs(case['name'])
    if case['op'] == 'numfile':
        return numfile_term(case)
    if case['op'] == 'mfile':
        return mfile_term(case)
    if case['op'] == 'numtok':
        return 'out (run_C20n %s)' % coq_bs(case['tok']) if all(ord(ch) < 256 for ch in case['tok']) else OUTSIDE_MODEL
    if case['op'] == 'fsdir':
        return fsdir_term(case)
    if coq_rendered(case):
        return 'out (run_C20f %s)' % coq_list([coq_aline(l) for l in case.get('lines', []) if isinstance(l, dict)])
    return 'out (run_C20 1%%N [] %s)' % coq_bs(render(case))


def split_model(case, m):
    return bool(m[0]), m[1]


def _model_num(x):
    if isinstance(x, list):
        f = _to_float(Fraction(x[0], 10 ** x[1]))
        return {'f': (0.0 if f == 0 else f).hex()}
    return x


def _model_any(v):
    """a model value that is a matrix, ['fnf', listing] or an exception"""
    if isinstance(v, dict) or v is None:
        return v
    if v and isinstance(v[0], str):
        return v
    return [[r, [[c, _model_num(x)] for c, x in row]] for r, row in v]


def _norm_model(v):
    """model numbers [m, k] -> the float CPython must produce (DESIGN 5.3)"""
    num = _model_num

    def mat(mm):
        if isinstance(mm, dict):
            return mm
        return [[r, [[c, num(x)] for c, x in row]] for r, row in mm]
    if isinstance(v, dict):
        return v
    if v and v[0] == 'file':
        return ['file', v[1], v[2], mat(v[3])]
    if len(v) == 4 and isinstance(v[0], bool):      # run_C20f: [afile_ok, length, checksum, matrix]
        return [v[0], v[1], v[2], mat(v[3])]
    if v and isinstance(v[0], str):      # ['fnf', listing] / ['other']
        return v
    return mat(v)


def agree(case, implval, modelval):
    try:
        if case['op'] == 'hist':
            obs, fin = modelval
            return implval == [[None if o is None else [o[0], _model_any(o[1])] for o in obs],
                               [_model_any(o) if isinstance(o, list) and not (o and isinstance(o[0], str)) else None for o in fin]]
        if case['op'] == 'mfile':
            return implval == [modelval[0], modelval[1], _model_any(modelval[2]), _model_any(modelval[3])]
        if case['op'] == 'name' and case.get('aspath'):
            return implval == [modelval[0], _norm_model(modelval[1])]
        if case['op'] == 'numtok':
            return implval == [modelval[0], _model_num(modelval[1])]
        if case['op'] == 'fsdir':
            if implval == ['no-symlinks-here']:
                return True
            if isinstance(implval, list) and implval and implval[0] != modelval[0] and \
                    sum(1 for e in fsdir_norm(case)[0] if e[1] == 'l') > 30:
                return True                  # the number of links the operating system follows (40 on Linux) is its own business
            return implval == [modelval[0], _model_any(modelval[1])]
        return implval == _norm_model(modelval)
    except Exception:
        return False


# ----------------------------------------------------------------------------- property oracle (first principles)

_INT = re.compile(r'[+-]?[0-9]+\Z')
_DEC = re.compile(r'([+-]?)([0-9]*)\.([0-9]*)\Z')


def tok_value(tok, fl):
    """the number a cell token denotes; 'bad' when it is certainly not a number; None when outside the strict grammar"""
    if not fl:
        if _INT.match(tok):
            return int(tok)
        return None
    if _INT.match(tok):
        return float(Fraction(int(tok)))
    m = _DEC.match(tok)
    if m and (m.group(2) or m.group(3)):
        q = Fraction(int((m.group(2) + m.group(3)) or '0'), 10 ** len(m.group(3)))
        return float(-q if m.group(1) == '-' else q)
    return None


def expected_from_words(wordlines):
    """wordlines: list of word lists of the non-skipped lines. Returns dict of dicts, or None when the oracle has no opinion."""
    if not wordlines:
        return {}
    header = wordlines[0]
    if len(set(header)) != len(header):
        return None
    exp = {}
    for ws in wordlines[1:]:
        if len(ws) < 2 or ws[0] in exp:
            return None
        fl = any('.' in t for t in ws[1:])
        row = {}
        for j, c in enumerate(header):
            if j + 1 < len(ws):
                v = tok_value(ws[j + 1], fl)
                if v is None:
                    return None
                row[c] = v
        exp[ws[0]] = row
    return exp


def same_number(a, b):
    return type(a) is type(b) and a == b


def compare_matrix(got, exp):
    """got: canonical impl value (list form); exp: dict of dicts of python numbers"""
    if isinstance(got, dict):
        return 'raised %s' % got.get('e')
    if isinstance(got, list) and got and isinstance(got[0], str):
        return 'the file was not read: %s' % ('FileNotFoundError (treated as an unknown name)' if got[0] == 'fnf' else got[0])
    if not (isinstance(got, list) and all(isinstance(x, list) and len(x) == 2 and isinstance(x[1], list) for x in got)):
        return 'driver value %r' % (got,)
    g = {}
    for r, row in got:
        if r in g:
            return 'row %r twice' % r
        g[r] = {}
        for c, v in row:
            g[r][c] = float.fromhex(v['f']) if isinstance(v, dict) and 'f' in v else v
    if list(g) != list(exp):
        return 'row letters %r, file has %r' % (list(g)[:30], list(exp)[:30])
    for r in exp:
        if list(g[r]) != list(exp[r]):
            return 'row %r has columns %r, file has %r' % (r, list(g[r])[:30], list(exp[r])[:30])
        for c in exp[r]:
            if not same_number(g[r][c], exp[r][c]):
                return 'cell [%r][%r] = %r, file has %r' % (r, c, g[r][c], exp[r][c])
    return None


def read_bundled(name):
    """independent positional reading of a bundled file"""
    txt = open(os.path.join(_data_dir(), name), 'rb').read().decode('ascii')
    wl = []
    for line in txt.split('\n'):
        ws = re.findall(r'[^ \t\r\n]+', line)
        if not ws or ws[0].startswith('#'):
            continue
        wl.append(ws)
    return expected_from_words(wl)


def _as_name_value(g):
    return g if isinstance(g, dict) or (g and isinstance(g[0], str)) else ['file', 0, 0, g]


def spec_history(case, got):
    if not (isinstance(got, list) and len(got) == 2 and isinstance(got[0], list)):
        return 'history raised %r' % (got,)
    acts = plan(case)
    got, final = got
    if len(acts) != len(got):
        return 'driver returned %d results for %d steps' % (len(got), len(acts))
    ncall, edited = 0, set()
    for i, (a, g) in enumerate(zip(acts, got)):
        why = None
        if a[0] in ('name', 'file'):
            if not (isinstance(g, list) and len(g) == 2):
                return 'step %d: driver value %r' % (i, g)
            if g[0] != ncall:
                return 'step %d: the call handed out (part of) the object of call number %d again' % (i, g[0])
            ncall += 1
            g = g[1]
        if a[0] == 'name':
            why = spec({'op': 'name', 'name': path_text(a[1]) if a[2] else a[1]}, _as_name_value(g))
        elif a[0] == 'file':
            why = spec(dict(a[5], op='file', _plain=True), g)
        if why:
            return 'step %d (%s%s): %s' % (i, a[0], ' ' + repr(a[1]) if a[0] == 'name' else ' slot %s' % SLOTS[a[1]] if a[0] == 'file' else '', why)
    # objects the caller never edited still hold what their call returned
    calls = [i for i, a in enumerate(acts) if a[0] in ('name', 'file')]
    edited = set(a[1] for a in acts if a[0] == 'mutate')
    for k, i in enumerate(calls):
        if i not in edited and k < len(final) and isinstance(got[i][1], list) and not (got[i][1] and isinstance(got[i][1][0], str)):
            if final[k] != got[i][1]:
                return 'the matrix returned by step %d changed although the caller never touched it' % i
    return None


def spec(case, got):
    if case['op'] == 'proc':
        v = proc_verdict(proc_norm(case), got) if isinstance(got, list) else None
        return v[1] if v else None
    if case['op'] == 'hist':
        return spec_history(case, got)
    if case['op'] == 'cwdfile':
        fname, call, txt, aspath = cwd_norm(case)
        if call == fname:                         # the user's file wins over a bundled matrix of that name
            why = spec(dict(case.get('file') if isinstance(case.get('file'), dict) else {}, op='file', _plain=True), got)
            return 'file ./%s exists, submat(%r): %s' % (fname, call, why) if why else None
        return spec({'op': 'name', 'name': call}, got)
    if case['op'] == 'mfile':
        exp = mfile_expected(case)
        if exp is None:
            return None
        if not (isinstance(got, list) and len(got) == 4):
            return 'driver value %r' % (got,)
        return compare_matrix(got[2], exp)
    if case['op'] == 'numtok':
        if not isinstance(got, list) or len(got) < 2:
            return 'driver value %r' % (got,)
        if len(got) > 2 and isinstance(got[1 if ('.' in case['tok'] or ' 0.5' in got[2][1]) else 0], dict) and \
                'e' in got[1 if ('.' in case['tok'] or ' 0.5' in got[2][1]) else 0]:
            return None            # CPython's reader rejects the word: the property does not say what submat must do with it
        if len(got) > 2:
            return 'word %r: int() -> %r, float() -> %r, but as a cell of %r submat read %r' % (case['tok'], got[0], got[1], got[2][1], got[2][2])
        return None
    if case['op'] == 'fsdir':
        ents, call, aspath = fsdir_norm(case)
        if got == ['no-symlinks-here']:
            return None
        if not (isinstance(got, list) and len(got) == 2):
            return 'driver value %r' % (got,)
        tgt = fsdir_target(case)
        if tgt is not None:
            fd = fsdir_file_dict(case)
            if got[0] != 'user':
                return None                   # the operating system disagrees with the oracle's walk: no opinion
            why = spec(dict(fd, op='file', _plain=True), got[1]) if fd is not None else None
            return './%s leads to a regular file, submat(%r): %s' % (call, call, why) if why else None
        if got[0] != 'name':
            return None
        return spec({'op': 'name', 'name': call}, _as_name_value(got[1]))
    if case['op'] == 'numfile':
        exp = numfile_expected(case)
        if exp is None:
            return None
        if not (isinstance(got, list) and len(got) == 4):
            return 'driver value %r' % (got,)
        return compare_matrix(got[3], exp)
    if case['op'] == 'name' and case.get('aspath') and not case.get('_inner'):
        if not (isinstance(got, list) and len(got) == 2 and isinstance(got[0], str)):
            return 'driver value %r' % (got,)
        return spec(dict(case, _inner=True), got[1])
    if case['op'] == 'name':
        name = path_text(case['name']) if case.get('aspath') else case['name']
        names = _bundled()
        if any(ord(ch) > 127 for ch in name) or name.startswith('/') or ('/' in name and '..' in name):
            return None
        hit = [n for n in names if n.upper() == name.upper()]
        if hit:
            if isinstance(got, dict):
                return 'bundled matrix %s: raised %s' % (hit[0], got.get('e'))
            if got[0] != 'file':
                return 'bundled matrix %s not found under the spelling %r' % (hit[0], name)
            exp = read_bundled(hit[0])
            if exp is None:
                return None
            why = compare_matrix(got[3], exp)
            if why:
                return '%s: %s' % (hit[0], why)
            for a in exp:
                for b in exp[a]:
                    if b in exp and a in exp[b] and exp[a][b] != exp[b][a]:
                        return '%s is not symmetric: [%s][%s]=%r, [%s][%s]=%r' % (hit[0], a, b, exp[a][b], b, a, exp[b][a])
            return None
        if isinstance(got, dict):
            return 'unknown name %r raised %s, not FileNotFoundError' % (name, got.get('e'))
        if got[0] != 'fnf':
            return 'unknown name %r returned a matrix' % name
        listed = got[1].split(', ')
        missing = [n for n in names if n not in listed]
        if missing:
            return 'FileNotFoundError message does not list %r' % missing[:5]
        return None
    if 'raw' in case:
        return None
    wl = []
    for l in case.get('lines', []):
        if not isinstance(l, dict) or l.get('k') in ('c', 'b'):     # same dispatch as render_line
            continue
        ws = words_of(l)
        if not ws or ws[0].startswith('#'):
            continue
        wl.append(ws)
    exp = expected_from_words(wl)
    if exp is None:
        return None
    if coq_rendered(case) and not (isinstance(got, list) and len(got) == 4 and got[0] == afile_ok_py(case)):
        return 'driver value %r' % (got,)
    return compare_matrix(file_result(case, got), exp)


# ----------------------------------------------------------------------------- letters beyond Latin-1 (no model: relational check)

def gen_unicode_file(rng):
    """a generated file whose letters / comments use scripts beyond code point 255 (Greek, Cyrillic, CJK, astral plane)"""
    c = gen_file(rng, pools=UNICODE_POOLS)
    for l in c['lines']:
        if l.get('k') == 'c' and rng.random() < 0.7:
            l['t'] = rng.choice([' \u03a8 = pseudouridine', ' \u043c\u0430\u0442\u0440\u0438\u0446\u0430 1 2', ' \u77e9\u9635\u3000\u2028x', ' \U0001f9ec caf\xe9'])
    if rng.random() < 0.3:
        c['lines'].insert(0, {'k': 'c', 't': ' \u03a8\u03a9 \u4e2d\u6587', 'lead': ''})
    if rng.random() < 0.1:
        c['nl'] = rng.choice(['\n', '\r\n', '\x85'])
    return c


def extra_unicode(rng, tier, cov):
    """Files with letters beyond the Latin-1 range cannot be carried by the Coq model (one byte per code point); they are
    written as UTF-8, loaded by submat (str or Path) and compared with the oracle's positional reading of the ABSTRACT words."""
    from framework import run_impl, jcanon
    n = 1500 if tier == 'thorough' else 250
    fixed = [{'op': 'file', 'lines': [{'k': 'c', 't': ' \u03a8 = pseudouridine', 'lead': ''},
                                      {'k': 'w', 'w': ['A', 'U', '\u03a8'], 'sep': ' ', 'lead': '  ', 'trail': ''},
                                      {'k': 'w', 'w': ['A', '2', '-1', '-1'], 'sep': ' ', 'lead': '', 'trail': ''},
                                      {'k': 'w', 'w': ['U', '-1', '2', '1'], 'sep': ' ', 'lead': '', 'trail': ''},
                                      {'k': 'w', 'w': ['\u03a8', '-1', '1', '2.5'], 'sep': ' ', 'lead': '', 'trail': ''}],
              'nl': '\n', 'nofinal': False, 'aspath': False}]
    ran = beyond = 0
    for i in range(n + len(fixed)):
        c = fixed[i] if i < len(fixed) else gen_unicode_file(rng)
        txt = render(c)
        if in_model(txt):
            continue                      # all letters happened to be Latin-1: already covered through the model
        beyond += 1
        got = jcanon(run_impl(impl, c))
        why = spec(c, got)
        ran += 1
        if why:
            yield {'case': c, 'impl': got, 'spec': why, 'model': None, 'wf': True, 'evaluated': False, 'noshrink': True}
    cov['unicode_files_beyond_latin1'] = beyond


# ----------------------------------------------------------------------------- process state across sugar's entry points (child process)

# in-process entry points of sugar that may touch the state of the process (working directory, environment, sys.path, open handles):
# name -> statement run in the child, whose working directory is a private scratch directory holding the files of PROC_INPUTS
PROC_ACTIONS = {
    'run-test-version': "scripts.run('test', pytest_args=['--version'])",
    'cli-test-usage-error': "scripts.cli(['test', '--no-such-option-c20'])",
    'cli-test': "scripts.cli(['test', '-q', '-p', 'no:cacheprovider', '-k', 'no_such_test_c20'])",
    'run-test': "scripts.run('test', pytest_args=['-q', '-p', 'no:cacheprovider', '-k', 'no_such_test_c20', 'test_data.py'])",
    'cli-test-collect': "scripts.cli(['test', '--collect-only', '-q', '-p', 'no:cacheprovider', 'test_data.py'])",
    'cli-version': "scripts.cli(['--version'])",
    'cli-no-args': "scripts.cli([])",
    'cli-help': "scripts.cli(['-h'])",
    'cli-test-help': "scripts.cli(['test', '-h'])",
    'cli-unknown': "scripts.cli(['frobnicate'])",
    'run-unknown': "scripts.run('frobnicate')",
    'cli-print': "scripts.cli(['print', 'seqs.fasta'])",
    'cli-print-raw-sub': "scripts.cli(['print', '--raw', 'sub/seqs2.fasta'])",
    'cli-print-missing': "scripts.cli(['print', 'missing.fasta'])",
    'run-print': "scripts.run('print', fname='seqs.fasta')",
    'cli-printf': "scripts.cli(['printf', 'fts.gff'])",
    'cli-convert-stdout': "scripts.cli(['convert', 'seqs.fasta', '-fo', 'stockholm'])",
    'cli-convert-out': "scripts.cli(['convert', 'seqs.fasta', '-o', 'out/conv.stk'])",
    'cli-convert-zip': "scripts.cli(['convert', 'arch.zip', '-fo', 'fasta'])",
    'cli-convertf': "scripts.cli(['convertf', 'fts.gff', '-fo', 'gff'])",
    'cli-translate-str': "scripts.cli(['translate', 'ATGAAATAG'])",
    'cli-translate-file': "scripts.cli(['translate', 'seqs.fasta', '-f', 'fasta'])",
    'cli-translate-out': "scripts.cli(['translate', 'seqs.fasta', '-f', 'fasta', '-o', 'out/prot.fasta'])",
    'cli-index-create': "scripts.cli(['index', 'create', 'out/db.idx'])",
    'cli-index-create-db': "scripts.cli(['index', 'create', '-m', 'db', 'out/db2.idx'])",
    'cli-index-add': "scripts.cli(['index', 'add', '-d', 'out/db.idx', 'seqs.fasta'])",
    'cli-index-info': "scripts.cli(['index', 'info', '-d', 'out/db.idx'])",
    'cli-index-fetch': "scripts.cli(['index', 'fetch', '-d', 'out/db.idx', 'seq1'])",
    'cli-index-usage-error': "scripts.cli(['index', 'fetch'])",
    'fastaindex-create': "from sugar.index.fastaindex import FastaIndex; FastaIndex('out/db3.idx', create=True, mode='binary').add(['seqs.fasta', 'sub/seqs2.fasta'])",
    'fastaindex-get': "from sugar.index.fastaindex import FastaIndex; FastaIndex('out/db3.idx').get('seq1')",
    'read-plain': "sugar.read('seqs.fasta')",
    'read-path': "sugar.read(pathlib.Path('sub') / 'seqs2.fasta')",
    'read-glob': "sugar.read('s*/seqs*.fasta')",
    'read-example': "sugar.read()",
    'read-zip': "sugar.read('arch.zip')",
    'read-tar': "sugar.read('arch.tar.gz')",
    'read-gz': "sugar.read('seqs.fasta.gz')",
    'read-missing': "sugar.read('missing.fasta')",
    'read-fts': "sugar.read_fts('fts.gff')",
    'iter': "list(sugar.iter_('seqs.fasta'))",
    'write-plain': "sugar.read('seqs.fasta').write('out/w.fasta')",
    'write-zip': "sugar.read('seqs.fasta').write('out/wz.fasta', archive='zip')",
    'write-gz': "sugar.read('seqs.fasta').write('out/wg.fasta', archive='gz')",
    'submat-dir': "submat('sub')",
    'submat-unknown': "submat('xyz')",
}
PROC_GROUPS = {
    'test': ['run-test-version', 'cli-test-usage-error', 'cli-test', 'run-test', 'cli-test-collect'],
    'cli': ['cli-version', 'cli-no-args', 'cli-help', 'cli-test-help', 'cli-unknown', 'run-unknown', 'submat-dir', 'submat-unknown'],
    'print': ['cli-print', 'cli-print-raw-sub', 'cli-print-missing', 'run-print', 'cli-printf'],
    'convert': ['cli-convert-stdout', 'cli-convert-out', 'cli-convert-zip', 'cli-convertf', 'cli-translate-str', 'cli-translate-file',
                'cli-translate-out'],
    'index': ['cli-index-create', 'cli-index-create-db', 'cli-index-add', 'cli-index-info', 'cli-index-fetch', 'cli-index-usage-error',
              'fastaindex-create', 'fastaindex-get'],
    'read': ['read-plain', 'read-path', 'read-glob', 'read-example', 'read-zip', 'read-tar', 'read-gz', 'read-missing', 'read-fts', 'iter',
             'write-plain', 'write-zip', 'write-gz'],
}
PROC_INPUTS = {'seqs.fasta': '>seq1 first\nATGAAACCCGGGTTTTAG\n>seq2\nATGCCCAAATGA\n', 'sub/seqs2.fasta': '>seq3\nATGGGGTAA\n',
               'fts.gff': '##gff-version 3\nseq1\t.\tgene\t1\t18\t.\t+\t.\tID=g1\nseq1\t.\tCDS\t1\t18\t.\t+\t0\tID=c1;Parent=g1\n'}
# label -> (file the form reaches or None, expression evaluated in the child giving the argument of submat, bundled name or None)
PROC_FORMS = {'rel-str': ('user.mat', "'user.mat'", None), 'rel-dot': ('user.mat', "'./user.mat'", None),
              'rel-path': ('user.mat', "pathlib.Path('user.mat')", None), 'sub-str': ('sub/inner.mat', "'sub/inner.mat'", None),
              'sub-path': ('sub/inner.mat', "pathlib.Path('sub') / 'inner.mat'", None), 'sub-dotdot': ('user.mat', "'sub/../user.mat'", None),
              'shadow': ('blosum62', "'blosum62'", None), 'shadow-upper-path': ('NUC.4.4', "pathlib.Path('NUC.4.4')", None),
              'abs-str': ('user.mat', "ABS + '/user.mat'", None),
              'bundled': (None, "'pam250'", 'PAM250'), 'bundled-mixed': (None, "'Blosum45'", 'BLOSUM45'),
              'bundled-other-case': (None, "'BLOSUM62'", 'BLOSUM62'), 'unknown': (None, "'user.matrix'", None)}
PROC_CHILD = r'''
import sys, os, json, pathlib, io
sys.dont_write_bytecode = True
repo, resfile, job = sys.argv[1], sys.argv[2], json.loads(sys.argv[3])
sys.path.insert(0, repo)
ABS = os.getcwd()
for name, data in job['files'].items():
    if os.path.dirname(name):
        os.makedirs(os.path.dirname(name), exist_ok=True)
    with open(name, 'wb') as f:
        f.write(data.encode('latin-1'))
os.makedirs('out', exist_ok=True)
import zipfile, tarfile, gzip
with zipfile.ZipFile('arch.zip', 'w') as z:
    z.write('seqs.fasta')
with tarfile.open('arch.tar.gz', 'w:gz') as t:
    t.add('seqs.fasta')
with gzip.open('seqs.fasta.gz', 'wb') as g:
    g.write(open('seqs.fasta', 'rb').read())
import sugar
from sugar import scripts
from sugar.data import submat
def num(v):
    if isinstance(v, bool):
        return {'bool': v}
    if isinstance(v, int):
        return v
    if isinstance(v, float):
        return {'f': (0.0 if v == 0 else v).hex()}
    return {'other': repr(v)}
def probe():
    loads = {}
    for label, expr in job['forms'].items():
        try:
            m = submat(eval(expr))
            loads[label] = [[r, [[c, num(v)] for c, v in row.items()]] for r, row in m.items()]
        except FileNotFoundError as e:
            loads[label] = ['fnf', str(e)[:60]]
        except Exception as e:
            loads[label] = {'e': type(e).__name__}
    try:
        cwd = os.getcwd()
    except Exception as e:
        cwd = 'os.getcwd() raised ' + type(e).__name__
    return {'cwd': cwd, 'loads': loads}
steps = [['start', 'ok', probe()]]
def flush():
    with open(resfile, 'w') as f:
        json.dump(steps, f)
flush()
for a in job['actions']:
    try:
        exec(job['code'][a])
        o = 'ok'
    except SystemExit as e:
        o = 'exit'
    except BaseException as e:
        o = 'raise:' + type(e).__name__
    steps.append([a, o, probe()])
    flush()
'''


def gen_procfile(rng, letters):
    """a small user matrix (text, expected dict) with numbers of its own, so that a mix-up of files or with a bundled matrix shows"""
    rows, exp = [' '.join(letters)], {}
    for r in letters:
        dec = rng.random() < 0.4
        vals = [(rng.randint(-99, 99) + rng.choice([0.5, 0.25, 0.0])) if dec else rng.randint(-99, 99) for _ in letters]
        rows.append(r + ' ' + ' '.join(repr(v) for v in vals))
        exp[r] = dict(zip(letters, vals))
    return '# user matrix\n' + '\n'.join(rows) + '\n', exp


def proc_jobs(rng, tier):
    groups = [(g, list(a)) for g, a in PROC_GROUPS.items()]
    allacts = sorted(PROC_ACTIONS)
    for i in range(12 if tier == 'thorough' else 2):       # mixed histories over all entry points, random order
        groups.append(('mixed%d' % i, rng.sample(allacts, 8)))
    if tier == 'thorough':
        groups += [('single:' + a, [a]) for a in allacts]
    jobs = []
    for g, acts in groups:
        files, exps = dict(PROC_INPUTS), {}
        for fname, letters in (('user.mat', 'AC'), ('sub/inner.mat', 'ACG'), ('blosum62', 'AR'), ('NUC.4.4', 'AT')):
            files[fname], exps[fname] = gen_procfile(rng, letters)
        jobs.append({'op': 'proc', 'group': g, 'actions': acts, 'files': files, '_exp': exps})
    return jobs


def proc_norm(case):
    """a stored case as a job: known actions only, expected numbers read from the text of the files by the oracle's own reader"""
    files = {str(k): str(v) for k, v in (case.get('files') or {}).items()} if isinstance(case.get('files'), dict) else {}
    files = dict(PROC_INPUTS, **{k: v for k, v in files.items() if not os.path.isabs(k) and '..' not in k})
    exps = {}
    for fname in ('user.mat', 'sub/inner.mat', 'blosum62', 'NUC.4.4'):
        if fname not in files:
            files[fname] = 'A C\nA 1 2\nC 2 1\n'
        wl = [re.findall(r'[^ \t\r\n]+', l) for l in files[fname].split('\n')]
        exps[fname] = expected_from_words([ws for ws in wl if ws and not ws[0].startswith('#')])
    return {'op': 'proc', 'group': case.get('group'), 'actions': [a for a in (case.get('actions') or []) if a in PROC_ACTIONS],
            'files': files, '_exp': exps}


def proc_run(jobs, par=4, timeout=600):
    """every job in a child process of its own: private scratch directory as working directory (removed afterwards), HOME / cache / TMPDIR
    inside it, stdin closed, stdout / stderr captured; returns the steps [[action, outcome, probe], ...] or None (timeout / crash)"""
    import subprocess, sys, json, time
    from framework import REPO
    out = [None] * len(jobs)
    pending, running = list(enumerate(jobs)), []
    while pending or running:
        while pending and len(running) < par:
            i, job = pending.pop(0)
            d = tempfile.mkdtemp(prefix='C20-proc-')
            for sub in ('cwd', 'home', 'tmp', 'res'):
                os.mkdir(os.path.join(d, sub))
            env = dict(os.environ, HOME=os.path.join(d, 'home'), XDG_CACHE_HOME=os.path.join(d, 'home', '.cache'),
                       XDG_CONFIG_HOME=os.path.join(d, 'home', '.config'), TMPDIR=os.path.join(d, 'tmp'), PYTHONDONTWRITEBYTECODE='1',
                       PYTHONWARNINGS='ignore')
            env.pop('PYTHONPATH', None)
            arg = {'files': job['files'], 'actions': job['actions'], 'code': {a: PROC_ACTIONS[a] for a in job['actions']},
                   'forms': {k: v[1] for k, v in PROC_FORMS.items()}}
            p = subprocess.Popen([sys.executable, '-c', PROC_CHILD, REPO, os.path.join(d, 'res', 'steps.json'), json.dumps(arg)],
                                 cwd=os.path.join(d, 'cwd'), env=env, stdin=subprocess.DEVNULL, stdout=subprocess.DEVNULL,
                                 stderr=subprocess.DEVNULL)
            running.append((i, d, p, time.time()))
        still = []
        for i, d, p, t0 in running:
            if p.poll() is None and time.time() - t0 < timeout:
                still.append((i, d, p, t0))
                continue
            if p.poll() is None:
                p.kill()
                p.wait()
            try:
                with open(os.path.join(d, 'res', 'steps.json')) as f:
                    out[i] = json.load(f)          # also after a timeout: the steps that were finished
            except Exception:
                out[i] = None
            shutil.rmtree(d, ignore_errors=True)
        running = still
        if running:
            time.sleep(0.05)
    return out


def proc_verdict(job, steps):
    """(index of the first bad step, message) or None"""
    if not steps:
        return None
    cwd0 = steps[0][2]['cwd']
    for i, (a, o, pr) in enumerate(steps):
        bad = []
        for label, (fname, expr, bundled) in PROC_FORMS.items():
            g = pr['loads'].get(label)
            if fname is not None:
                why = compare_matrix(g, job['_exp'][fname]) if job['_exp'].get(fname) is not None else None
            elif bundled is not None:
                exp = read_bundled(bundled)
                why = compare_matrix(g, exp) if exp is not None else None
            else:
                why = None if (isinstance(g, list) and g and g[0] == 'fnf') else 'no FileNotFoundError for an unknown name'
            if why:
                bad.append((label, why))
        where = 'before any entry point was run' if i == 0 else 'after the entry point %s (%s) in the same process' % (a, o)
        if pr['cwd'] != cwd0:
            return i, '%s: os.getcwd() is %r, was %r%s' % (where, pr['cwd'], cwd0,
                                                           '; also changed: %r' % sorted(l for l, w in bad) if bad else '')
        if bad:
            label, why = bad[0]
            return i, '%s: submat(%s) with the file ./%s in place: %s (failing forms: %r)' % (
                where, PROC_FORMS[label][1], PROC_FORMS[label][0], why, sorted(l for l, w in bad)) if PROC_FORMS[label][0] else \
                '%s: submat(%s): %s (failing forms: %r)' % (where, PROC_FORMS[label][1], why, sorted(l for l, w in bad))
    return None


def extra_proc(rng, tier, cov):
    jobs = proc_jobs(rng, tier)
    res = proc_run(jobs)
    outcomes, nsteps, lost = {}, 0, 0
    for job, steps in zip(jobs, res):
        case = {k: v for k, v in job.items() if k != '_exp'}
        if not steps or len(steps) != len(job['actions']) + 1:
            lost += 1                           # child killed by the timeout / crashed: no opinion on the missing steps
        for a, o, pr in (steps or [])[1:]:
            outcomes[o.split(':')[0]] = outcomes.get(o.split(':')[0], 0) + 1
            nsteps += 1
        v = proc_verdict(job, steps)
        if v is None:
            continue
        i, msg = v
        case = dict(case, actions=job['actions'][:i])                # the history up to the first bad step
        if i > 1:                               # shrink the history: the entry point alone
            small = dict(job, actions=[job['actions'][i - 1]])
            s2 = proc_run([small])[0]
            v2 = proc_verdict(small, s2)
            if v2 is not None:
                case, steps, (i, msg) = {k: w for k, w in small.items() if k != '_exp'}, s2, v2
        yield {'case': case, 'impl': [[a, o, pr['cwd']] for a, o, pr in steps[:i + 1]], 'spec': msg}
    cov['proc_children'] = len(jobs)
    cov['proc_steps'] = nsteps
    cov['proc_outcomes'] = outcomes
    cov['proc_children_incomplete'] = lost


def extra_checks(rng, tier, cov):
    for v in extra_unicode(rng, tier, cov):
        yield v
    for v in extra_proc(rng, tier, cov):
        yield v


# ----------------------------------------------------------------------------- evidence helpers

def nontrivial(case, got):
    marks = []
    if case['op'] == 'proc':
        return ['proc:' + str(case.get('group'))]
    if case['op'] == 'hist':
        acts = plan(case)
        seen = set()
        for a in acts:
            if a[0] == 'mutate':
                marks.append('hist:result-edited')
            if a[0] == 'file':
                marks.append('hist:path-arg' if a[3] else 'hist:str-arg')
                if a[4]:
                    marks.append('hist:rewritten-path')
            key = a[:4] if a[0] == 'file' else a
            if a[0] in ('name', 'file') and key in seen:
                marks.append('hist:repeat')
            seen.add(key)
        return sorted(set(marks)) or ['hist']
    if case['op'] == 'mfile':
        pre, header, body, e, final = mfile_norm(case)
        rows = [l for l in body if l['k'] == 'r']
        ks = ['m:' + e, 'm:final' if final else 'm:no-final-terminator']
        for l in rows:
            kinds = set(len(v) for sep, v in l['cells'])
            ks.append('m:mixed-row' if kinds == {1, 2} else 'm:decimal-row' if kinds == {2} else 'm:int-row')
            n = len(l['cells']) - len(header['w'])
            ks.append('m:long-row' if n > 0 else 'm:short-row' if n < 0 else 'm:full-row')
            if l['r'] not in header['w']:
                ks.append('m:row-letter-not-in-header')
        if len(set(l['r'] for l in rows)) != len(rows):
            ks.append('m:repeated-row-letter')
        if len(set(header['w'])) != len(header['w']):
            ks.append('m:repeated-header-letter')
        if any(l['k'] != 'r' for l in body):
            ks.append('m:skip-inside')
        return sorted(set(ks))
    if case['op'] == 'numtok':
        if not isinstance(got, list):
            return None
        return ['tok:int=%s,float=%s' % ('err' if isinstance(got[0], dict) and 'e' in got[0] else 'ok', 'err' if isinstance(got[1], dict) and 'e' in got[1] else 'ok')]
    if case['op'] == 'fsdir':
        return ['fs:' + str(case.get('kind')), 'fs:' + (got[0] if isinstance(got, list) and got else '?')] + (['path-arg'] if case.get('aspath') else ['via:' + case['via']] if case.get('via') else [])
    if case['op'] == 'cwdfile':
        fname, call, txt, aspath = cwd_norm(case)
        b = fname.upper() in _bundled()
        return ['cwd:' + ('bundled-name' if b else 'other-name'), 'cwd:' + ('file-called' if call == fname else 'other-spelling-called')] + \
            (['path-arg'] if aspath else [])
    if case['op'] == 'numfile':
        letters, rows, e, final = numfile_norm(case)
        return sorted(set(['num:' + e, 'num:final' if final else 'num:no-final-terminator'] +
                          ['num:decimal-row' if d else 'num:int-row' for n, d, v in rows] +
                          (['path-arg'] if case.get('aspath') else [])))
    if case['op'] == 'name':
        n = case['name']
        if case.get('aspath'):
            got = got[1] if isinstance(got, list) and len(got) == 2 else got
            marks.append('path-arg')
        if isinstance(got, list) and got and got[0] == 'fnf':
            marks.append('fnf')
        elif n != n.upper():
            marks.append('lower' if n == n.lower() else 'mixed')
        return marks or None
    if 'raw' in case:
        return ['raw']
    got = file_result(case, got)
    ls = [l for l in case.get('lines', []) if isinstance(l, dict)]
    wl = [l for l in ls if l.get('k') not in ('c', 'b') and words_of(l)]
    seen_w = False
    for l in ls:
        if l.get('k') not in ('c', 'b'):
            seen_w = True
        elif seen_w:
            marks.append('skip-inside:' + str(l.get('k')))
    if wl:
        h = len(words_of(wl[0]))
        for l in wl[1:]:
            ws = words_of(l)
            if any('.' in t for t in ws[1:]):
                marks.append('decimal-row')
            if len(ws) - 1 < h:
                marks.append('short-row')
            if len(ws) - 1 > h:
                marks.append('long-row')
        if any(len(w) > 1 for w in words_of(wl[0])):
            marks.append('multichar-letter')
        if any('\t' in str(l.get('sep')) or '\x1f' in str(l.get('sep')) for l in wl):
            marks.append('tab-sep')
    if case.get('aspath'):
        marks.append('path-arg')
    elif case.get('via'):
        marks.append('via:' + str(case.get('via')))
    if case.get('nl', '\n') != '\n':
        marks.append('nl=' + repr(case.get('nl')))
    if case.get('nofinal'):
        marks.append('no-final-newline')
    if isinstance(got, dict):
        marks.append('raises')
    return sorted(set(marks)) or None


def histkey(case, got):
    if case['op'] == 'proc':
        return ['op=proc']
    if case['op'] == 'hist':
        acts = plan(case)
        return ['op=hist', 'hist:calls=%d' % len([a for a in acts if a[0] in ('name', 'file')])] + \
            sorted(set('hist:' + a[0] for a in acts))
    if case['op'] in ('mfile', 'numtok', 'fsdir'):
        return ['op=' + case['op']]
    if case['op'] == 'cwdfile':
        fname, call, txt, aspath = cwd_norm(case)
        return ['op=cwdfile', 'cwdfile:' + ('shadows-bundled' if fname.upper() in _bundled() else 'plain') + (',called' if call == fname else ',other-spelling')]
    if case['op'] == 'numfile':
        return ['op=numfile', 'numfile:' + numfile_norm(case)[2]]
    if case['op'] == 'name':
        if case.get('aspath'):
            got = got[1] if isinstance(got, list) and len(got) == 2 else got
        kind = 'fnf' if (isinstance(got, list) and got and got[0] == 'fnf') else 'bundled' if isinstance(got, list) else 'error'
        return ['op=name', 'name:' + kind]
    n = len(render(case))
    if coq_rendered(case):
        keys0 = ['file:rendered-in-coq', 'file:afile_ok=%s' % (got[0] if isinstance(got, list) and got else '?')]
    else:
        keys0 = ['file:literal']
    got = file_result(case, got)
    keys = keys0 + ['op=file', 'bytes=' + ('0' if n == 0 else '1-99' if n < 100 else '100-499' if n < 500 else '500+')]
    if isinstance(got, dict):
        keys.append('file:' + str(got.get('e')))
    else:
        keys.append('file:rows=%s' % ('0' if not got else '1-3' if len(got) <= 3 else '4-9' if len(got) < 10 else '10+'))
        if any(isinstance(v, dict) for r, row in got for c, v in row):
            keys.append('file:has-float')
    return keys


def python_snippet(case):
    if case['op'] == 'proc':
        ls = ['import os, tempfile, pathlib, zipfile, tarfile, gzip; import sugar; from sugar import scripts; from sugar.data import submat',
              'os.chdir(tempfile.mkdtemp()); os.makedirs("sub"); os.makedirs("out"); ABS = os.getcwd()']
        for n, t in case['files'].items():
            ls.append('open(%r, "w").write(%r)' % (n, t))
        ls += ['zipfile.ZipFile("arch.zip", "w").write("seqs.fasta"); tarfile.open("arch.tar.gz", "w:gz").add("seqs.fasta"); '
               'gzip.open("seqs.fasta.gz", "wb").write(open("seqs.fasta", "rb").read())',
               'def probe():\n    print(os.getcwd())\n    for a in [%s]:\n        try: print(repr(a), submat(a))\n        except Exception as e: print(repr(a), type(e).__name__)' % ', '.join(v[1] for v in PROC_FORMS.values()),
               'probe()']
        for a in case['actions']:
            ls.append('try:\n    %s\nexcept BaseException as e:\n    print(type(e).__name__)\nprobe()   # after %s' % (PROC_ACTIONS.get(a, 'pass'), a))
        return '\n'.join(ls)
    if case['op'] == 'cwdfile':
        fname, call, txt, aspath = cwd_norm(case)
        return ("import os, tempfile, pathlib; from sugar.data import submat\n"
                "os.chdir(tempfile.mkdtemp()); open(%r, 'wb').write(%r)\n"
                "print(submat(%s))   # the file ./%s exists in the working directory") % (
                    fname, file_bytes(txt), ('pathlib.Path(%r)' % call) if aspath and call == fname else repr(call), fname)
    if case['op'] == 'numtok':
        return 'from sugar.data import submat\nt = %r\nfor f in (int, float):\n    try: print(f(t))\n    except ValueError as e: print(e)' % case['tok']
    if case['op'] == 'fsdir':
        ents, call, aspath = fsdir_norm(case)
        ls = ['import os, tempfile, pathlib; from sugar.data import submat', 'os.chdir(tempfile.mkdtemp())']
        for n, k, p in ents:
            ls.append('open(%r, "wb").write(%r)' % (n, file_bytes(p)) if k == 'f' else 'os.mkdir(%r)' % n if k == 'd' else 'os.symlink(%r, %r)' % (p, n))
        ls.append('print(os.path.isfile(%r), submat(%s))   # argument given as %s' % (call, 'pathlib.Path(%r)' % call if aspath else repr(call), 'pathlib.Path' if aspath else case.get('via') or 'str'))
        return '\n'.join(ls)
    if case['op'] == 'hist':
        lines = ['import os, tempfile, pathlib', 'from sugar.data import submat',
                 'd = tempfile.mkdtemp(); os.makedirs(d + "/a"); os.makedirs(d + "/b"); os.makedirs(d + "/cwd"); os.chdir(d + "/cwd"); r = {}']
        for i, a in enumerate(plan(case)):
            if a[0] == 'name':
                lines.append('try:\n    r[%d] = submat(%r); print(%d, r[%d])\nexcept Exception as e:\n    print(%d, type(e).__name__, str(e)[:80])' % (i, a[1], i, i, i))
            elif a[0] == 'file':
                arg = 'pathlib.Path(d + "/%s")' % SLOTS[a[1]] if a[3] else 'd + "/%s"' % SLOTS[a[1]]
                lines.append('open(d + "/%s", "wb").write(%r)' % (SLOTS[a[1]], file_bytes(a[2])))
                lines.append('try:\n    r[%d] = submat(%s); print(%d, r[%d])\nexcept Exception as e:\n    print(%d, type(e).__name__, str(e)[:80])' % (i, arg, i, i, i))
            elif a[0] == 'mutate':
                lines.append('m = r.get(%d)  # the caller edits its own result (%s)\nif isinstance(m, dict) and m:\n    k = next(iter(m)); m[k][next(iter(m[k]))] = 424242' % (a[1], a[2]))
        return '\n'.join(lines)
    if case['op'] == 'name':
        if case.get('aspath'):
            return 'import pathlib; from sugar.data import submat; print(submat(pathlib.Path(%r)))' % case['name']
        return 'from sugar.data import submat; print(submat(%r))' % case['name']
    return ("import tempfile, os, pathlib; from sugar.data import submat\n"
            "f = tempfile.NamedTemporaryFile('wb', delete=False); f.write(%r); f.close()\n"
            "try:\n    print(submat(%s))   # argument given as %s\nfinally:\n    os.remove(f.name)") % (file_bytes(numfile_text(case) if case['op'] == 'numfile' else mfile_text(case) if case['op'] == 'mfile' else render(case)),
                                                                                  'pathlib.Path(f.name)' if case.get('aspath') else 'os.fsencode(f.name)' if case.get('via') == 'bytes' else 'f.name',
                                                                                  'pathlib.Path' if case.get('aspath') else case.get('via') or 'str')


LEVEL_TEXT = ('Machine-checked Coq theorems over the regenerated raw bytes of all bundled matrix files (complete enumeration, re-checked '
              'against /repo on every run): the model parser returns for every data line, row letter and column index exactly the j-th '
              'number word of that line under the j-th header letter, loses or invents no row or column, and every bundled matrix is '
              'symmetric wherever both entries exist (C20_bundled_symmetric; the boolean check is the statement for every parser result, '
              'C20_symmetric_iff, "equal" being equality of the denoted rationals, C20_num_val_eqb_is_rational_eq); name resolution is '
              'case-insensitive on the regenerated file list, an unknown name yields the FileNotFoundError text whose listing, cut at ", ", '
              'is exactly the regenerated name list (C20_fnf_listing_exact), the composed function on names never ends in ValueError, and an '
              'existing regular file always wins over a bundled name (C20_file_wins; over a directory of files, directories and symbolic '
              'links C20_fs_resolution: what leads to a regular file is parsed, a directory, a missing entry, a dangling link and a link '
              'loop leave the decision to the bundled names; a chain of n links ending in a regular file is followed iff n <= 40, C20_fs_link_chain). Unbounded theorems for user files: for EVERY text the parser is a function of '
              'the words of the non-skipped lines (C20_parse_words; for files of the layout grammar - comment and blank lines anywhere, '
              'arbitrary in-line white space, LF, CRLF, CR or any other line boundary of str.splitlines as terminator, with or without a '
              'terminator after the last line - the text layer disappears: C20_parse_render_words); every file that loads, repeated letters '
              'included, has cell [r][c] = the word of the LAST data line starting with r in the LAST of the first min(#letters, #values) '
              'columns headed c (C20_parse_general, zip truncation made explicit); loading raises ValueError exactly when a data line has '
              'fewer than two words or a word that zip reaches is no number for the reader the row selects (C20_parse_succeeds_iff); '
              'C20_parse_render_matrix gives the whole result as an equation, parse(render M) = rows in file order with zip(letters, '
              'numbers) per row, for matrices of numbers of ANY shape (rectangular as NUC.4.2, short and long rows, repeated letters) in '
              'ANY layout; the int/float choice is per ROW (C20_row_kind, C20_cell_is_int_iff: a loaded cell is an int iff no number of '
              'its row, also beyond the last header letter, has a decimal point; the per-cell reading is refuted, '
              'C20_per_cell_reading_refuted); comment / blank lines are irrelevant wherever they stand (C20_skipped_lines_irrelevant, '
              'C20_insert_skipped_line). Numbers: the cell grammar of int() / float() (signs, leading zeros, underscores between digits, '
              'exponents) is a Gallina function compared with CPython on every generated word; canonical integers and decimals m/10^k are '
              'read back exactly (C20_number_round_trip), an underscore between digits does not change an integer (C20_int_underscore), '
              'float("<m/10^k>e<x>") is m*10^x/10^k (C20_float_exponent); a pathlib.Path argument that is no file arrives as os.fspath(path), modelled by path_norm (compared with pathlib on every generated name), under which a bare name - also "./name", "name/", "name//" - is that name (C20_path_argument); C20_matrix_cell states the property cell by cell for matrices of numbers in any layout. Call histories: a state machine of calls and caller-side edits '
              '(C20_calls_independent, C20_objects_independent: every call hands out a new object holding the pure result of the argument '
              'and the current file content; the functools.lru_cache variant of the fixed defect F41 is refuted, C20_cached_variant_refuted). '
              'The hand-written model of submat() is tied to sugar by differential testing of all cells of all bundled files under several '
              'spellings (str and Path), of generated files, of files whose text, number literals and expected result are produced by the '
              'model itself, of single cell words, of directories with links, and of multi-call histories with object identities. PROCESS STATE stream '
              '(oracle only, in child processes with a private scratch working directory): user matrix files reachable by relative names '
              '(str, "./x", "sub/x", "sub/../x", pathlib.Path, files shadowing the bundled names blosum62 and NUC.4.4), an absolute path, '
              'bundled names and an unknown name are loaded before and after every one of 46 in-process entry points of sugar '
              '(sugar.scripts.run / cli: test with --version, a usage error, -k matching nothing, --collect-only; --version, -h, usage errors; '
              'print, printf, convert, convertf, translate, index create/add/info/fetch; sugar.read of plain, Path, glob, zip, tar.gz, gz and '
              'missing files, read_fts, iter_, write plain and to archives, FastaIndex creation and query), in fixed groups and random mixed '
              'orders (thorough: also each alone): os.getcwd() must not change and every form must still give the numbers of its file, the '
              'bundled matrix, or FileNotFoundError.')
LEVEL_NOTE = ('Trusted: Coq kernel/vm_compute, tools/gens/c20.py (byte copy; length+checksum re-verified in Coq against the disk file), the '
              'correspondence harness, CPython str/int/float/open/os.path.isfile/pathlib/importlib.resources. Modelled rather than verified: '
              'submat() and _submat_files(); decoded text over code points 0..255 (the locale\'s default text encoding is assumed to be '
              'UTF-8, as in the sandbox; letters beyond Latin-1 are covered by a relational check without model); float cells compared as '
              'exact decimals converted by Fraction (CPython float() rounding itself is trusted). Outside the modelled number domain '
              '(counted as drift, never compared): inf / infinity / nan cells, exponents of more than 3 digits, integers beyond the '
              'int-string-conversion limit. Tested only, not proved: letters beyond code point 255; that pathlib normalises a Path as path_norm says (POSIX flavour; compared on every Path case); '
              'that os.path.isfile is what fs_file says '
              '(compared on real directories with symbolic links incl. chains of 39..42 links; absolute links and path normalisation not '
              'modelled); the heap model of histories is compared with object identities (is) and final contents of every returned dict '
              'and row dict, there is no model of the interpreter state beyond that. A trailing "# ..." after the cells is not a comment '
              'for the code (witness C20_witness_trailing_comment: ignored by zip beyond the header, but a "." in it turns the row into '
              'floats, and in a short row it is read as a cell); reported, not treated as a defect (the property speaks of the layout of '
              'the bundled files, which have whole-line comments only). Measured reach: every statement of submat and _submat_files is '
              'executed in the quick tier except the def lines, which run at import time before the measurement starts. '
              'Stability of the working directory (and of whatever else submat depends on) across sugar\'s other entry points is TESTED ONLY '
              '(process-state stream; the resolve model C20_fs_resolution takes the file system of the current working directory as an '
              'input, there is no model of os.chdir or of the entry points themselves; the outcome of an entry point - ok, SystemExit, '
              'exception - is recorded but not judged; a child that exceeds its timeout gives no opinion on its missing steps). '
              'All theorems closed under the global context (no axioms).')
TECHNIQUE = 'Coq proof (finite enumeration by vm_compute over regenerated data + structural lemmas) with differential model/code correspondence'
