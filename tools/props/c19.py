"""C19 -- Entrez client: request rate under a virtual clock, file-cache decision."""
import io, os, sys, types, itertools, shutil, tempfile
from framework import coq_z, coq_N, coq_bool, coq_list, coq_opt, coq_pair, coq_bs

ID = 'C19'
COQ_IMPORTS = ['C19_Model']
GENERATORS = ['gen_entrez']
TICKS = 1024
RULE = ('rate: call histories (1-14 calls; gaps/sleep overshoots/durations in ticks of 2^-10 s from {0,1,256,512,1023,1024,1025,...}) with and '
        'without API key, executed on the real Entrez class under a virtual clock and stub HTTP layer; thorough additionally enumerates '
        'ALL histories of length <= 7 over gaps {0,1/4,1/2,1} s x durations {0,1/4} s against the window oracle; cache: histories of '
        'fetch_seq/get_seq/fetch_basket/get_basket over 2 ids x 2 extensions x {no path, 2 cache dirs} x overwrite with pre-existing (possibly '
        'empty) files and possibly empty payloads; in half of the cache histories the server answers differently from call to call (empty '
        'answers, CRLF FASTA, GenBank records with complement()/join() features when rettype=gb) and every sequence returned by get_* is '
        'compared - id, residues, feature types, locations and strands - with read(payload) and with a hand-written expectation, cached or '
        'not, and re-inspected after every later call; client (round 7): histories (1-8 calls, and long ones of 12-40 calls) on ONE client object over the whole API (fetch_seq/get_seq/fetch_basket/get_basket, client.path and path= incl. empty string / trailing slash / tilde / Path objects, ext None/empty/dotted, up to 9 ids incl. dotted, case variants, hidden names, duplicates in lists), api_key switched between calls (None, empty string, two keys), requests failing in requests.get or raise_for_status, per-request sleep overshoot and duration; start times, sleeps, key sent, files and results compared with run_C19_client; names: 275 (path, id, ext) triples incl. ids with slash, dot-dot, absolute ids, dotted extensions run through fetch_seq with the file system shimmed away and compared with the model file-name function; extra (oracle only): exhaustive timing boxes without key (length <= 4 quick / 7 thorough), with key after 9 immediate requests (length <= 3 / 5), and every key-switch sequence (length <= 3 / 6) after three kinds of past; keyrate: 150 (2000) histories of 1-29 limiter calls with the key switched between calls against run_C19_fixed and the exact per-request oracle; corpus: the F53 witness; non-trivial = distinct history in which a sleep happened (rate) or a cache hit happened (cache)')
TRUSTED = ['time.sleep sleeps at least its argument, perf_counter is monotone (environment assumptions of the model: eps >= 0, gap >= 0, dur >= 0)',
           'no time passes between recording a request time and issuing the request (the model identifies them)',
           'float arithmetic on multiples of 2^-10 s is exact (the harness uses only such times); ulp effects of real clocks are outside the model',
           'os/file system, requests (stubbed), sugar.read (used to parse payloads)',
           'modelled: Entrez.wait_before_request, the cache decision of fetch_seq, fetch_basket/get_* as iteration (_entrez.py:26-76)',
           'client stream: the whole of _entrez.py:26-77 incl. path/ext defaults, os.path.join file names, per-call limit choice, failing requests (run_C19_client); '
           'sugar.read is an oracle (texts are compared, parsed records are checked against read(payload) and hand-written expectations)',
           'reader assumption of the theorems get_requested / get_cached / get_basket_reads_in_order: read is an ARBITRARY function text -> option (list record) '
           '(Coq section variable R, read), applied to the text delivered by fetch_seq (file content or in-memory answer); that sugar.read depends on the text only - not on the '
           'file name/extension, a text-mode file vs StringIO, or earlier reads - is tested by the runs (CRLF payloads, ext different from the format, re-inspection), not proved']
ASSUMPTIONS = ['single-threaded client', 'integer-tick virtual clock']
LEVEL_TEXT = ('Coq theorems (41) over executable models of the whole of sugar/web/_entrez.py (wait_before_request as repaired by fix a09a4a0 / F53, found in this round). RATE, for every '
              'call history with arbitrary non-negative arrival gaps, sleep overshoots and request durations (failed requests count as starts): with one key setting the code is the '
              'one-limit machine (const_key_is_run, trim_noop_when_fits) and at most N starts lie in ANY half-open one-second window [x, x+W), x arbitrary (window_limit; N, W '
              'regenerated); the limit is chosen per call, and for ANY history of key switches every request starts at least one window after the request N places before it, N the limit '
              'of THAT request (rate_limit_current_key), so every window containing a request start holds at most N starts up to it - the exact statement when the key changes inside a '
              'window: at most 3 starts if its last request is keyless, never 4 keyless starts, at most 10 in all (window_limit_current_key, keyless_window_limit, window_limit_any_key); the history that '
              'defeated the code before the fix is limited (key_removed_limited); sleep iff the record holds N stamps and the oldest is younger than W (wait_sleeps_iff, '
              'client_sleep_iff), in reachable states iff N requests started within the last second (sleep_iff_window_full), a cache hit never sleeps (cache_hit_no_sleep); the requests '
              'of any history of public calls on one client are such a limiter history (client_window_limit, client_window_limit_const) and the start times the events report are its '
              'record (client_starts, client_starts_window, client_starts_window_const). CACHE: complete decision table of fetch_seq (fetch_decision_table, need_request_iff, '
              'eff_path_table); for ANY history of fetch_seq/get_seq/fetch_basket/get_basket calls from any state, requests for a file <= (1 unless a non-empty file was there) + calls '
              'with overwrite + requests that failed or were answered empty (cache_request_bound, cache_once_history), the file holds the last successful answer '
              '(file_is_last_answer), baskets are one fetch per id occurrence in order, duplicates not merged (basket_shape, basket_nocache_requests_all); with the reader as an '
              'arbitrary function the result of get_seq is first(read(payload)) cached or not (get_requested, get_cached, get_basket_reads_in_order); file names id.ext are injective '
              'iff extensions have no dot (basename_inj, basename_collision, fname_inj, fname_in_dir, fname_absolute_id). The earlier per-key cache theorems (request_iff ... '
              'cache_once_const) are kept. All models are tied to the real class by differential runs under a virtual clock and stub HTTP layer.')
LEVEL_NOTE = ('Trusted: Coq kernel/vm_compute, tools/gens/entrez.py, the harness (virtual clock, stub requests module), CPython deque/float/os, sugar.read as an oracle '
              '(section variable in Coq; in the runs its results are compared with read(payload) and hand-written expectations). '
              'Model assumptions: sleep overshoot/gaps/durations >= 0, zero delay between recording and sending a request, single thread, file names are normalised strings '
              '(ids/extensions without slash), case-sensitive file system (ids differing in case are different files), distinct directory strings other than a trailing slash do not alias. '
              'Known: ids with a slash leave the cache directory (fname_absolute_id) or fail at open(); an extension with a dot can collide with a dotted id (basename_collision). '
              'F53 (api_key removed from a used client kept the 10-slot record) was found by this check, is fixed in /repo, witness in corpus/C19. The lemmas about the function '
              'before the fix (run2, Inv2, key_removed_refuted) stay in proof/C19_Rate2.v but are no longer property theorems. No axioms.')
TECHNIQUE = 'Coq invariant proof over a state machine with adversarial environment + differential correspondence under a virtual clock'

VALS = [0, 0, 0, 1, 255, 256, 512, 1023, 1024, 1025, 2048, 300]
PAY = ['>ida\nACGT\n', '>idb desc\nTTGA\nCC\n', '']
GB1 = ('LOCUS       AB0001                    12 bp    DNA     linear   BCT 01-JAN-2000\nDEFINITION  test.\nACCESSION   AB0001\n'
       'VERSION     AB0001.1\nFEATURES             Location/Qualifiers\n     source          1..12\n                     /organism="x"\n'
       '     CDS             complement(2..7)\n                     /product="p"\n     gene            complement(2..7)\n'
       'ORIGIN\n        1 acgtacggat cc\n//\n')
GB2 = GB1.replace('complement(2..7)', 'join(1..3,7..9)').replace('acgtacggat cc', 'ttgacaggat cc').replace('AB0001', 'AB0002')
# what the server may answer -> what a reader must make of it: (id, residues, [(feature type, [(start, stop, strand)])]);
# written by hand, independent of sugar's parsers
EXPECT = {
    PAY[0]: ('ida', 'ACGT', None), PAY[1]: ('idb', 'TTGACC', None),
    '>old\nAAAA\n': ('old', 'AAAA', None),
    '>idc crlf\r\nACGT\r\nGGA\r\n': ('idc', 'ACGTGGA', None),
    '>idd\nACGT\n\nTT\n': ('idd', 'ACGTTT', None),
    GB1: ('AB0001', 'ACGTACGGATCC', [('source', [(0, 12, '+')]), ('CDS', [(1, 7, '-')]), ('gene', [(1, 7, '-')])]),
    GB2: ('AB0002', 'TTGACAGGATCC', [('source', [(0, 12, '+')]), ('CDS', [(0, 3, '+'), (6, 9, '+')]), ('gene', [(0, 3, '+'), (6, 9, '+')])]),
}
GB1_CRLF = GB1.replace('\n', '\r\n')      # legal for an HTTP text body; StringIO does not translate it, a text-mode file does
EXPECT[GB1_CRLF] = EXPECT[GB1]
FASTA_PAY = [PAY[0], PAY[1], '>idc crlf\r\nACGT\r\nGGA\r\n', '>idd\nACGT\n\nTT\n']
GB_PAY = [GB1, GB2, GB1_CRLF]


# ----------------------------------------------------------------------------- generation
def gen_cases(rng, tier):
    cases = []
    nrate, ncache = (12000, 4000) if tier == 'thorough' else (700, 400)
    for _ in range(nrate):
        n = rng.randrange(1, 15)
        burst = rng.random() < 0.4
        calls = [[0 if burst and rng.random() < .8 else rng.choice(VALS), rng.choice([0, 0, 0, 1, 7, 256]), rng.choice([0, 0, 1, 256, 100])]
                 for _ in range(n)]
        cases.append({'kind': 'rate', 'api': rng.random() < 0.35, 'calls': calls})
    for _k in range(ncache):
        payloads = [rng.choice(PAY[:1] * 3 + [PAY[2]]), rng.choice(PAY[1:2] * 3 + [PAY[2]])]
        files = []
        for p in (0, 1):
            for i in (0, 1):
                for e in (0, 1):
                    if rng.random() < 0.15:
                        files.append([p, i, e, rng.choice(['', '>old\nAAAA\n'])])
        calls = []
        varied = _k % 2 == 1
        for _ in range(rng.randrange(1, 9)):
            m = rng.choice(['fetch_seq', 'fetch_seq', 'get_seq', 'fetch_basket', 'get_basket'] + (['get_seq', 'get_basket'] if varied else []))
            ids = [rng.randrange(2)] if m.endswith('seq') else [rng.randrange(2) for _ in range(rng.randrange(1, 4))]
            c = {'m': m, 'path': rng.choice([None, 0, 0, 1]), 'ids': ids, 'ext': rng.randrange(2), 'ow': rng.random() < 0.2}
            if varied and rng.random() < .2:
                c['path'] = 2
            if varied:      # the server answers differently over time (empty answers, CRLF, GenBank when asked for rettype=gb)
                if rng.random() < .4:
                    c['rettype'] = 'gb'
                pool = GB_PAY if c.get('rettype') == 'gb' else FASTA_PAY
                c['pay'] = [rng.choice(pool + [''] * (1 if rng.random() < .5 else 0)) if rng.random() < .8 else None for _ in (0, 1)]
                if c.get('rettype') == 'gb':
                    c['pay'] = [x if x is not None else rng.choice(GB_PAY) for x in c['pay']]
            calls.append(c)
        cases.append({'kind': 'cache', 'payloads': payloads, 'files': files, 'calls': calls})
    cases += gen_name_cases()
    cases += [gen_fixed_case(rng) for _ in range(2000 if tier == 'thorough' else 150)]
    nclient, nlong = (4000, 300) if tier == 'thorough' else (500, 40)
    for _ in range(nclient):
        cases.append(gen_client_case(rng))
    for _ in range(nlong):
        cases.append(gen_client_case(rng, long_=True))
    return cases


# ----------------------------------------------------------------------------- implementation under a virtual clock
class _Resp:
    def __init__(self, text):
        self.text = text

    def raise_for_status(self):
        pass


class _World:
    def __init__(self):
        self.clock = 0
        self.eps = 0
        self.dur = 0
        self.starts = []
        self.slept = None
        self.requested = []
        self.payload = lambda seqid: ''

    def install(self):
        import sugar.web._entrez as E
        self.E = E
        self.saved = (E.perf_counter, E.sleep, sys.modules.get('requests'))
        E.perf_counter = lambda: self.clock / TICKS
        E.sleep = self._sleep
        stub = types.ModuleType('requests')
        stub.get = self._get
        stub.ConnectionError = type('ConnectionError', (IOError,), {})
        stub.HTTPError = type('HTTPError', (IOError,), {})
        self.stub = stub
        sys.modules['requests'] = stub

    def restore(self):
        self.E.perf_counter, self.E.sleep = self.saved[0], self.saved[1]
        if self.saved[2] is None:
            sys.modules.pop('requests', None)
        else:
            sys.modules['requests'] = self.saved[2]

    def _sleep(self, x):
        t = x * TICKS
        assert t == int(t) and t > 0, 'sleep(%r) is not a positive whole number of ticks' % x
        self.clock += int(t) + self.eps
        self.slept = int(t) + self.eps

    def _get(self, url, params=None):
        if getattr(self, 'client_mode', False):
            return self._get_client(url, params)
        self.starts.append(self.clock)
        self.requested.append(params['id'])
        assert params['db'] == 'nuccore' and params['tool'] == 'sugar'
        assert getattr(self, 'want_rettype', None) in (None, params['rettype']), 'rettype not forwarded'
        self.clock += self.dur
        return _Resp(self.payload(params['id']))


def _get_client(self, url, params=None):
    """client stream: every request takes the next environment entry of the running call (sleep overshoot was taken from the
    same entry by _sleep); a request may fail in requests.get (ConnectionError) or in raise_for_status (HTTPError)"""
    k = len(self.reqlog)
    eps, dur, pay, http = self.env[k] if k < len(self.env) else (0, 0, '', False)
    self.reqlog.append({'id': params['id'], 'start': self.clock, 'slept': self.slept or 0,
                        'key': params.get('api_key', None), 'rettype': params.get('rettype'), 'url': url,
                        'other': (params.get('db'), params.get('retmode'), params.get('tool'))})
    self.slept = None
    self.clock += dur
    self.eps = self.env[k + 1][0] if k + 1 < len(self.env) else 0
    if pay is None and not http:
        raise self.stub.ConnectionError('stub: connection failed')
    r = _Resp(pay)
    if pay is None:
        def _raise():
            raise self.stub.HTTPError('stub: 429')
        r.raise_for_status = _raise
        r.text = '<html>error</html>'
    return r


_World._get_client = _get_client


def impl_rate(case):
    w = _World()
    w.install()
    try:
        client = w.E.Entrez(path=None, api_key='KEY' if case['api'] else None)
        w.payload = lambda seqid: '>x\nA\n'
        slept = []
        for gap, eps, dur in case['calls']:
            w.clock += gap
            w.eps, w.dur, w.slept = eps, dur, None
            client.fetch_seq('x')
            slept.append(w.slept or 0)
        assert len(w.starts) == len(case['calls'])
        return [w.starts, slept]
    finally:
        w.restore()


SEQID = ['AB0001.1', 'AB0001.2']   # accession.version ids: equal up to the last dot, must not share a cache file
EXT = [None, 'fa']


def call_rettype(c):
    return c.get('rettype', 'fasta')


def call_ext(c):
    """(extension string, index of the extension in the model's key)"""
    ext = EXT[c['ext']] or call_rettype(c)
    return ext, {'fasta': 0, 'fa': 1, 'gb': 2}[ext]


def call_payload(case, c, i):
    pay = (c.get('pay') or [None, None])[i]
    return case['payloads'][i] if pay is None else pay


def _raw(fn):
    with open(fn, newline='') as f:
        return f.read()


def _obs(seq):
    """what a returned sequence shows: id, residues, features with locations and strands"""
    return (seq.id, str(seq), [(ft.type, [(l.start, l.stop, l.strand) for l in ft.locs]) for ft in seq.fts])


def _expected_obs(content):
    e = EXPECT[content]
    return (e[0], e[1], e[2] or [])


def impl_cache(case):
    from sugar import read
    w = _World()
    w.install()
    root = tempfile.mkdtemp(prefix='C19-')
    try:
        # the second does not exist yet; the third is relative to the working directory and starts with a directory literally
        # called '~' (what Entrez creates for path='~/...': it does not expand the user directory, so nobody else may either)
        dirs = [os.path.join(root, 'p0'), os.path.join(root, 'sub', 'p1'), os.path.join('~', 'cache')]
        for p, i, e, content in case['files']:
            os.makedirs(dirs[p], exist_ok=True)
            with open(os.path.join(dirs[p], SEQID[i] + '.' + (EXT[e] or 'fasta')), 'w', newline='') as f:
                f.write(content)
        saved_env = (os.getcwd(), os.environ.get('HOME'))
        os.makedirs(os.path.join(root, 'cwd'))
        os.makedirs(os.path.join(root, 'home', 'cache'))
        for sid in SEQID:      # decoys: what a reader that expands '~' would find instead
            for ext_ in ('fasta', 'fa', 'gb'):
                with open(os.path.join(root, 'home', 'cache', sid + '.' + ext_), 'w') as f:
                    f.write('>decoy\nTTTTTTTT\n')
        os.chdir(os.path.join(root, 'cwd'))
        os.environ['HOME'] = os.path.join(root, 'home')
        client = w.E.Entrez(path=None, api_key=None)
        out = []
        returned = []      # (object, what it showed when it was returned): earlier results must not change retroactively
        for c in case['calls']:
            path = None if c['path'] is None else dirs[c['path']]
            ext = call_ext(c)[0]
            kw = dict(rettype=call_rettype(c), ext=EXT[c['ext']], overwrite=c['ow'], path=path)
            w.requested = []
            w.payload = lambda seqid, c=c: call_payload(case, c, SEQID.index(seqid))
            w.want_rettype = call_rettype(c)
            ids = [SEQID[i] for i in c['ids']]
            res, err = None, None
            try:
                if c['m'] == 'fetch_seq':
                    res = [client.fetch_seq(ids[0], **kw)]
                elif c['m'] == 'fetch_basket':
                    res = client.fetch_basket(ids, **kw)
                elif c['m'] == 'get_seq':
                    res = client.get_seq(ids[0], **kw)
                else:
                    res = client.get_basket(ids, **kw)
            except Exception as ex:          # reading an empty payload fails in sugar.read; the fetch part still happened
                err = ex
            # per-id observables: requested?, content delivered
            req = list(w.requested)
            contents = []
            for k, sid in enumerate(ids):
                if path is None:
                    contents.append(w.payload(sid))
                else:
                    fn = os.path.join(path, sid + '.' + ext)
                    contents.append(_raw(fn) if os.path.isfile(fn) else None)
            if c['m'].startswith('fetch') and err is None:
                for k, r in enumerate(res):
                    got = r.getvalue() if hasattr(r, 'getvalue') else _raw(r)
                    assert got == contents[k], 'returned file/handle content differs'
                    if path is not None:
                        assert r == os.path.join(path, ids[k] + '.' + ext)
            if c['m'].startswith('get'):
                if all(contents):
                    assert err is None, 'get_* failed on non-empty content %r: %r' % (contents, err)
                    got = [res] if c['m'] == 'get_seq' else list(res)
                    assert len(got) == len(ids), 'one sequence per id expected, got %d for %d ids' % (len(got), len(ids))
                    # (1) what read() parses from the payload, (2) what the payload says (hand-written expectation)
                    exp_read = [_obs(read(io.StringIO(ct))[0]) for ct in contents]
                    exp_hand = [_expected_obs(ct) for ct in contents]
                    assert [_obs(s_) for s_ in got] == exp_read, 'sequence differs from read(payload): %r vs %r' % ([_obs(s_) for s_ in got], exp_read)
                    assert exp_read == exp_hand, 'read(payload) %r is not what the payload says %r' % (exp_read, exp_hand)
                    returned += [(s_, _obs(s_)) for s_ in got]
                else:
                    assert err is not None
            for s_, o in returned:
                assert _obs(s_) == o, 'a sequence returned by an earlier call changed afterwards: %r -> %r' % (o, _obs(s_))
            # which ids were requested, in order, one flag per id occurrence
            flags = []
            pending = list(req)
            for sid in ids:
                if pending and pending[0] == sid:
                    flags.append(True)
                    pending.pop(0)
                else:
                    flags.append(False)
            assert not pending, 'unexpected extra requests %r' % pending
            out.append([[f, ct] for f, ct in zip(flags, contents)])
        return out
    finally:
        w.restore()
        if 'saved_env' in locals():
            os.chdir(saved_env[0])
            if saved_env[1] is None:
                os.environ.pop('HOME', None)
            else:
                os.environ['HOME'] = saved_env[1]
        shutil.rmtree(root, ignore_errors=True)


# ----------------------------------------------------------------------------- client stream (round 7): one client object, whole API
# model strings of the cache directories; a leading 'R' stands for the scratch root. 'R/p0/' is the same directory as 'R/p0';
# '~/cache' and '' are relative to the working directory (a scratch directory); '' as path= falls back to client.path, '' as
# client.path makes the working directory the cache
CDIRS = ['R/p0', 'R/sub/p1', 'R/p0/', '~/cache', '']
CIDS = ['AB0001.1', 'AB0001.2', 'AB0001', 'ab0001.1', 'X', 'NC_000001', 'a b', '.hid', 'AB0001.1.fasta']
CKEYS = [None, '', 'KEY', 'K2']
MULTI = '>r1\nAC\n>r2 two\nGG\nT\n'
EXPECT_LIST = {MULTI: [('r1', 'AC', []), ('r2', 'GGT', [])]}


def _expected_list(content):
    return EXPECT_LIST[content] if content in EXPECT_LIST else [_expected_obs(content)]


def cname(dirstr, sid, ext):
    """file name the documentation promises: <cache directory>/<id>.<ext> (written from first principles, not with os.path)"""
    base = sid + '.' + ext
    if dirstr == '':
        return base
    return dirstr + base if dirstr.endswith('/') else dirstr + '/' + base


def op_ext(o):
    return o['rettype'] if o['ext'] is None else o['ext']


def op_dir(o):
    """effective cache directory string or None"""
    d = CDIRS[o['path']] if o['path'] is not None else None
    if not d:
        d = CDIRS[o['self']] if o['self'] is not None else None
    return d


def op_idlist(o):
    return o['ids'][:1] if o['m'].endswith('seq') else o['ids']


def gen_client_case(rng, long_=False):
    nops = rng.randrange(12, 40) if long_ else rng.randrange(1, 9)
    style = rng.choice(['nokey', 'key', 'mixed', 'mixed', 'up'])
    pool_ids = rng.sample(CIDS, rng.randrange(1, 4)) if not long_ else rng.sample(CIDS, rng.randrange(3, len(CIDS) + 1))
    fail_rate = rng.choice([0, 0, .1, .3])
    burst = rng.random() < .5
    files = []
    for d in (0, 1, 3, 4):
        for sid in pool_ids:
            if rng.random() < .12:
                files.append([d, sid, rng.choice(['fasta', 'fa', 'gb']), rng.choice(['', '>old\nAAAA\n'])])
    ops = []
    key = {'nokey': None, 'key': 'KEY', 'mixed': rng.choice(CKEYS), 'up': None}[style]
    selfpath = rng.choice([None, None, 0, 1, 4])
    for k in range(nops):
        if style == 'mixed' and rng.random() < .25:
            key = rng.choice(CKEYS)
        if style == 'up' and rng.random() < .15:
            key = 'KEY'
        if rng.random() < .1:
            selfpath = rng.choice([None, 0, 1, 3, 4])
        m = rng.choice(['fetch_seq', 'get_seq', 'fetch_basket', 'get_basket'])
        ids = [rng.choice(pool_ids) for _ in range(1 if m.endswith('seq') else rng.randrange(0, 5))]
        rettype = rng.choice(['fasta', 'fasta', 'gb'])
        ext = rng.choice([None, None, 'fa', 'fasta', '', '1.fasta'])
        pool = GB_PAY if rettype == 'gb' else FASTA_PAY + [MULTI]
        env = []
        for _ in range(len(ids)):
            if rng.random() < fail_rate:
                pay, http = None, rng.random() < .5
            else:
                pay, http = (rng.choice(pool) if rng.random() < .9 else ''), False
            env.append([rng.choice([0, 0, 0, 1, 7, 256]), rng.choice([0, 0, 1, 100, 256, 1024]), pay, http])
        ops.append({'m': m, 'gap': 0 if burst and rng.random() < .8 else rng.choice(VALS), 'key': key, 'self': selfpath,
                    'path': rng.choice([None, None, 0, 0, 1, 2, 3, 4]), 'pathobj': rng.random() < .15, 'ids': ids,
                    'rettype': rettype, 'ext': ext, 'ow': rng.random() < .2, 'env': env})
    return {'kind': 'client', 'files': files, 'ops': ops}


def _real(root, name):
    return root + name[1:] if name.startswith('R') else name


def impl_client(case):
    from sugar import read
    import pathlib
    w = _World()
    w.install()
    w.client_mode = True
    root = tempfile.mkdtemp(prefix='C19-')
    saved_env = (os.getcwd(), os.environ.get('HOME'))
    try:
        os.makedirs(os.path.join(root, 'cwd'))
        os.makedirs(os.path.join(root, 'home', 'cache'))
        os.chdir(os.path.join(root, 'cwd'))
        os.environ['HOME'] = os.path.join(root, 'home')
        for d, sid, ext, content in case['files']:
            fn = _real(root, cname(CDIRS[d], sid, ext))
            if os.path.dirname(fn):
                os.makedirs(os.path.dirname(fn), exist_ok=True)
            with open(fn, 'w', newline='') as f:
                f.write(content)
        client = w.E.Entrez(path=None, api_key=None)
        out = []
        for o in case['ops']:
            w.clock += o['gap']
            client.api_key = o['key']
            client.path = None if o['self'] is None else _real(root, CDIRS[o['self']])
            path = None if o['path'] is None else _real(root, CDIRS[o['path']])
            if path and o.get('pathobj'):
                path = pathlib.Path(path)
            w.env, w.reqlog, w.slept = o['env'], [], None
            w.eps = o['env'][0][0] if o['env'] else 0
            ids = op_idlist(o)
            kw = dict(rettype=o['rettype'], ext=o['ext'], overwrite=o['ow'], path=path)
            res, err = None, None
            try:
                if o['m'] == 'fetch_seq':
                    res = client.fetch_seq(ids[0], **kw)
                elif o['m'] == 'get_seq':
                    res = client.get_seq(ids[0], **kw)
                elif o['m'] == 'fetch_basket':
                    res = client.fetch_basket(ids, **kw)
                else:
                    res = client.get_basket(ids, **kw)
            except Exception as ex:
                err = ex
            d = op_dir(o)
            ext = op_ext(o)
            # requests -> id occurrences (in order)
            failed = err is not None and type(err).__name__ in ('ConnectionError', 'HTTPError')
            evs = []
            pend = list(w.reqlog)
            for kk, sid in enumerate(ids):
                if pend and pend[0]['id'] == sid:
                    r = pend.pop(0)
                    assert r['rettype'] == o['rettype'] and r['other'] == ('nuccore', 'text', 'sugar'), 'request parameters %r' % (r,)
                    assert r['url'].startswith('https://eutils.ncbi.nlm.nih.gov/'), r['url']
                    assert (r['key'] is not None) == bool(o['key']) and r['key'] in (None, o['key']), 'api_key sent: %r, client has %r' % (r['key'], o['key'])
                    evs.append([True, r['start'], r['slept'], r['key'] is not None, sid])
                    if failed and not pend:
                        break
                else:
                    evs.append([False, 0, 0, bool(o['key']), sid])
            assert not pend, 'requests that belong to no id of the call: %r' % pend
            contents = []
            for e in evs:
                fn = None if d is None else _real(root, cname(d, e[4], ext))
                contents.append(None if fn is None else (_raw(fn) if os.path.isfile(fn) else None))
                e[4] = contents[-1]
            # result
            if failed:
                val = {'e': type(err).__name__}
            elif o['m'].startswith('fetch'):
                assert err is None, 'fetch raised %r' % err
                rl = [res] if o['m'] == 'fetch_seq' else list(res)
                assert len(rl) == len(ids)
                vals = []
                for r_ in rl:
                    if hasattr(r_, 'getvalue'):
                        vals.append(['handle', r_.getvalue()])
                    else:
                        assert type(r_) is str, 'file name is a %s' % type(r_).__name__
                        vals.append(['name', 'R' + r_[len(root):] if r_.startswith(root) else r_])
                val = vals[0] if o['m'] == 'fetch_seq' else vals
            else:
                # delivered texts: file content after the call, or the in-memory answers (in request order)
                if d is None:
                    texts = [o['env'][k][2] for k in range(len(ids))]
                else:
                    texts = contents
                if all(texts):
                    assert err is None, 'get_* failed on non-empty texts: %r' % err
                    got = [res] if o['m'] == 'get_seq' else list(res)
                    exp_read = [[_obs(x) for x in read(io.StringIO(t))] for t in texts]
                    exp_hand = [_expected_list(t) for t in texts]
                    assert exp_read == exp_hand, 'read(payload) %r is not what the payload says %r' % (exp_read, exp_hand)
                    flat = [exp_read[0][0]] if o['m'] == 'get_seq' else [x for l in exp_read for x in l]
                    assert [_obs(x) for x in got] == flat, 'returned %r, read(payload) gives %r' % ([_obs(x) for x in got], flat)
                    val = texts[0] if o['m'] == 'get_seq' else texts
                else:
                    assert err is not None, 'get_* returned %r for texts %r' % (res, texts)
                    val = {'e': 'read'}
            out.append([[e for e in evs], val])
        return out
    finally:
        w.restore()
        os.chdir(saved_env[0])
        if saved_env[1] is None:
            os.environ.pop('HOME', None)
        else:
            os.environ['HOME'] = saved_env[1]
        shutil.rmtree(root, ignore_errors=True)


def client_term(case):
    files = coq_list([coq_pair(coq_bs(cname(CDIRS[d], sid, ext)), coq_bs(ct)) for d, sid, ext, ct in case['files']])
    ops = []
    for o in case['ops']:
        env = coq_list([coq_pair(coq_z(e), coq_z(du), coq_opt(pay, coq_bs), coq_bool(http)) for e, du, pay, http in o['env']])
        ops.append(coq_pair(coq_N(['fetch_seq', 'get_seq', 'fetch_basket', 'get_basket'].index(o['m'])), coq_z(o['gap']),
                            coq_bool(bool(o['key'])), coq_opt(None if o['self'] is None else CDIRS[o['self']], coq_bs),
                            coq_opt(None if o['path'] is None else CDIRS[o['path']], coq_bs),
                            coq_list([coq_bs(i) for i in o['ids']]), coq_bs(o['rettype']), coq_opt(o['ext'], coq_bs),
                            coq_bool(o['ow']), env))
    return 'out (run_C19_client %s %s)' % (files, coq_list(ops))


def spec_client(case, iv):
    """first principles: (a) the documented cache decision, file by file; (b) the window limit on the observed start times"""
    fs = {cname(CDIRS[d], sid, ext): ct for d, sid, ext, ct in case['files']}
    starts = []          # (time, with key)
    for o, (evs, val) in zip(case['ops'], iv):
        d, ext = op_dir(o), op_ext(o)
        k = 0
        exp, texts, failed = [], [], None
        for sid in op_idlist(o):
            fn = None if d is None else cname(d, sid, ext)
            if fn is not None and fs.get(fn) and not o['ow']:
                exp.append([False, fs[fn]])
                texts.append(fs[fn])
                continue
            eps, dur, pay, http = o['env'][k]
            k += 1
            if pay is None:
                exp.append([True, fs.get(fn) if fn is not None else None])
                failed = 'HTTPError' if http else 'ConnectionError'
                break
            if fn is not None:
                fs[fn] = pay
            texts.append(pay)
            exp.append([True, pay if fn is not None else None])
        # files are observed after the call
        exp = [[r, (fs.get(cname(d, sid, ext)) if d is not None else None)] for (r, _), sid in zip(exp, op_idlist(o))]
        got = [[e[0], e[4]] for e in evs]
        if got != exp:
            return 'cache decision differs from the documented one: expected %r got %r' % (exp, got)
        if failed:
            if val != {'e': failed}:
                return 'a failing request must raise %s, got %r' % (failed, val)
        elif o['m'].startswith('get'):
            if d is not None:       # the files are read after all fetches of the call
                texts = [fs[cname(d, sid, ext)] for sid in op_idlist(o)]
            want = {'e': 'read'} if not all(texts) else (texts[0] if o['m'] == 'get_seq' else texts)
            if val != want:
                return 'get_* delivered %r, expected %r' % (val, want)
        for e in evs:
            if e[0]:
                starts.append((e[1], e[3], e[2]))
    # rate (the property's numbers): every request starts at least one second after the request N places before it, N = 3 or 10
    # according to the key setting of THAT request (exact also when the key changes inside a window, F53); a request sleeps only
    # if N requests started within the last second before its arrival
    W = TICKS
    ts = [t for t, _, _ in starts]
    if any(b < a for a, b in zip(ts, ts[1:])):
        return 'start times go backwards: %r' % ts
    for k in range(len(ts)):
        N = 10 if starts[k][1] else 3
        if k - N >= 0 and ts[k] - ts[k - N] < W:
            return 'requests %d..%d (limit %d) start within %d < %d ticks' % (k - N, k, N, ts[k] - ts[k - N], W)
        if starts[k][2]:
            t = ts[k] - starts[k][2]
            recent = [x for x in ts[:k] if x > t - W]
            if len(recent) < N:
                return 'request %d slept %d ticks although only %d requests started in the last second' % (k, starts[k][2], len(recent))
        for x in (ts[k] - W + 1, ts[k]):      # windows ending / beginning at this start: at most N starts up to this one
            if sum(1 for y in ts[:k + 1] if x <= y < x + W) > N:
                return 'window [%d, %d) holds more than %d starts when request %d starts' % (x, x + W, N, k)
    return None


# ----------------------------------------------------------------------------- file-name stream: (path, id, ext) -> name, any strings
NPATHS = ['p0', 'p0/', 'a/b', '/proc/C19-none/c', '/proc/C19-none/c/']      # '' as path means "no path=" (truthiness), tested in the client stream
NIDS = ['x', 'AB0001.1', 'a/b', '../x', './x', 'a//b', '/proc/C19-none/abs', '/', '', '.', 'x/']
NEXTS = ['fa', '', 'a.b', 'x/y', '/e']


def gen_name_cases():
    return [{'kind': 'name', 'path': p, 'id': i, 'ext': e} for p in NPATHS for i in NIDS for e in NEXTS]


def impl_name(case):
    """fetch_seq with the file system taken away: os (as seen by _entrez) answers "no such file, directory exists" and open() only
    records the name. Names that would leave the scratch directory are under /proc (nothing can be created there)."""
    import posixpath
    w = _World()
    w.install()
    root = tempfile.mkdtemp(prefix='C19-')
    cwd = os.getcwd()
    E = w.E
    opened = []

    class _F(io.StringIO):
        def __exit__(self, *a):
            return False

    def fake_open(name, mode='r', *a, **k):
        opened.append((name, mode))
        return _F()
    shim_path = types.SimpleNamespace(join=posixpath.join, isfile=lambda n: False, isdir=lambda n: True, getsize=lambda n: 0,
                                      exists=lambda n: False)
    shim = types.SimpleNamespace(path=shim_path, makedirs=lambda *a, **k: None, getenv=os.getenv, fspath=os.fspath, sep='/')
    saved = (E.os, E.__dict__.get('open'))
    try:
        os.chdir(root)
        E.os, E.open = shim, fake_open
        w.payload = lambda seqid: '>x\nA\n'
        client = E.Entrez(path=None, api_key=None)
        r = client.fetch_seq(case['id'], rettype='fasta', ext=case['ext'], path=case['path'])
        assert type(r) is str, 'file name is a %s' % type(r).__name__
        assert opened == [(r, 'w')], 'opened %r, returned %r' % (opened, r)
        assert w.requested == [case['id']]
        return r
    finally:
        E.os = saved[0]
        if saved[1] is None:
            E.__dict__.pop('open', None)
        else:
            E.open = saved[1]
        w.restore()
        os.chdir(cwd)
        shutil.rmtree(root, ignore_errors=True)


# ----------------------------------------------------------------------------- limiter alone, key switched between calls (fix a09a4a0 / F53)
def impl_fixed(case):
    w = _World()
    w.install()
    try:
        client = w.E.Entrez(path=None, api_key=None)
        w.payload = lambda seqid: '>x\nA\n'
        slept = []
        for key, (gap, eps, dur) in case['calls']:
            client.api_key = 'KEY' if key else None
            w.clock += gap
            w.eps, w.dur, w.slept = eps, dur, None
            client.fetch_seq('x')
            slept.append(w.slept or 0)
        return [w.starts, slept]
    finally:
        w.restore()


def gen_fixed_case(rng):
    n = rng.randrange(1, 30)
    key = rng.random() < .5
    calls = []
    for _ in range(n):
        if rng.random() < .2:
            key = not key
        calls.append([key, [0 if rng.random() < .6 else rng.choice(VALS), rng.choice([0, 0, 0, 1, 7]), rng.choice([0, 0, 1, 100])]])
    return {'kind': 'fixed', 'calls': calls}


def impl(case):
    return {'rate': impl_rate, 'cache': impl_cache, 'client': impl_client, 'name': impl_name, 'fixed': impl_fixed}[case['kind']](case)


# ----------------------------------------------------------------------------- model terms
def model_term(case):
    if case['kind'] == 'rate':
        cs = coq_list([coq_pair(coq_z(g), coq_z(e), coq_z(d)) for g, e, d in case['calls']])
        return 'out (run_C19_rate %s %s)' % (coq_bool(case['api']), cs)
    if case['kind'] == 'client':
        return client_term(case)
    if case['kind'] == 'fixed':
        return 'out (run_C19_fixed %s)' % coq_list([coq_pair(coq_bool(k), coq_pair(coq_z(g), coq_z(e), coq_z(d))) for k, (g, e, d) in case['calls']])
    if case['kind'] == 'name':
        return 'out (run_C19_name %s %s %s)' % (coq_bs(case['path']), coq_bs(case['id']), coq_bs(case['ext']))
    files = coq_list([coq_pair(coq_N(p), coq_N(i), coq_N(e), coq_bs(ct)) for p, i, e, ct in case['files']])
    flat = []
    for c in case['calls']:
        for i in c['ids']:
            flat.append(coq_pair(coq_opt(c['path'], coq_N), coq_N(i), coq_N(call_ext(c)[1]), coq_bool(c['ow']),
                                 coq_bs(call_payload(case, c, i))))
    return 'out (run_C19_cache %s %s)' % (files, coq_list(flat))


def split_model(case, m):
    return bool(m[0]), m[1]


def agree(case, iv, mv):
    if case['kind'] == 'rate':
        return iv == mv
    if isinstance(iv, dict):
        return False
    if case['kind'] in ('client', 'name', 'fixed'):
        return iv == mv
    flat = [x for call in iv for x in call]
    # a get_* call on several ids stops at the first failing read only after all fetches: fetch part is complete
    return flat == mv


# ----------------------------------------------------------------------------- property oracle (first principles)
def limits():
    from sugar.web._entrez import Entrez
    return Entrez._requests, Entrez._requests_api_key, Entrez._seconds * TICKS


def spec(case, iv):
    if isinstance(iv, dict):
        return 'raised ' + iv['e']
    if case['kind'] == 'rate':
        n3, n10, W = limits()
        # the property's numbers, not the code's: 3 / 10 per one second
        N = 10 if case['api'] else 3
        W = TICKS
        starts, slept = iv
        for k in range(len(starts) - N):
            if starts[k + N] - starts[k] < W:
                return 'requests %d..%d start within %d < %d ticks' % (k, k + N, starts[k + N] - starts[k], W)
        for x in sorted(set(starts)):
            if sum(1 for t in starts if x <= t < x + W) > N:
                return 'more than %d starts in window [%d, %d)' % (N, x, x + W)
        # no needless sleep: when sleep was called, starting at arrival time would have put N+1 starts into one window
        end = 0
        for k, (gap, eps, dur) in enumerate(case['calls']):
            t = end + gap
            if slept[k]:
                recent = [s for s in starts[:k] if s > t - W]
                if len(recent) < N:
                    return 'call %d slept %d ticks although only %d requests started in the last second' % (k, slept[k], len(recent))
            end = starts[k] + dur
        return None
    if case['kind'] == 'client':
        return spec_client(case, iv)
    if case['kind'] == 'fixed':
        # every request at least one second after the request N places before it, N the limit of its own key setting
        starts = iv[0]
        for k, (key, _) in enumerate(case['calls']):
            N = 10 if key else 3
            if k - N >= 0 and starts[k] - starts[k - N] < TICKS:
                return 'requests %d..%d (limit %d) start within %d ticks' % (k - N, k, N, starts[k] - starts[k - N])
        return None
    if case['kind'] == 'name':
        # the documented name <path>/<id>.<ext> for ids that are plain names; elsewhere the property is silent (see fname_absolute_id)
        if '/' in case['id'] or case['id'] in ('', '.') or '/' in case['ext']:
            return None
        want = case['path'].rstrip('/') + '/' + case['id'] + '.' + case['ext']
        return None if iv == want else 'cache file is %r, documented %r' % (iv, want)
    # cache: simulate the documented decision
    fs = {(p, i, EXT[e] or 'fasta'): ct for p, i, e, ct in case['files']}
    exp = []
    for c in case['calls']:
        row = []
        for i in c['ids']:
            if c['path'] is None:
                row.append([True, call_payload(case, c, i)])
                continue
            k = (c['path'], i, call_ext(c)[0])
            if k in fs and fs[k] != '' and not c['ow']:
                row.append([False, fs[k]])
            else:
                fs[k] = call_payload(case, c, i)
                row.append([True, fs[k]])
        exp.append(row)
    if iv != exp:
        return 'cache behaviour differs from the documented decision: expected %r got %r' % (exp, iv)
    return None


def nontrivial(case, iv):
    if isinstance(iv, dict):
        return None
    if case['kind'] == 'rate':
        return 'slept' if any(iv[1]) else None
    if case['kind'] == 'fixed':
        return 'slept' if any(iv[1]) else None
    if case['kind'] == 'name':
        return 'slash' if '/' in case['id'] + case['ext'] else 'plain'
    if case['kind'] == 'client':
        evs = [e for o in iv for e in o[0]]
        marks = sorted({'hit' if not e[0] else 'slept' if e[2] else 'req' for e in evs} | {'exc' for o in iv if isinstance(o[1], dict)})
        return '+'.join(marks) if ('hit' in marks or 'slept' in marks) else None
    return 'hit' if any(not f for call in iv for f, _ in call) else None


def histkey(case, iv):
    if case['kind'] == 'rate':
        return ['rate', 'len=%d' % len(case['calls']), 'api' if case['api'] else 'nokey',
                'slept' if not isinstance(iv, dict) and any(iv[1]) else 'noslept']
    if case['kind'] == 'fixed':
        return ['fixed']
    if case['kind'] == 'name':
        return ['name']
    if case['kind'] == 'client':
        ks = {bool(o['key']) for o in case['ops']}
        return ['client', 'ops=%d' % (len(case['ops']) // 5 * 5), 'keys=' + ('mixed' if len(ks) > 1 else 'const')] + sorted({o['m'] for o in case['ops']})
    return ['cache', 'calls=%d' % len(case['calls'])] + sorted({c['m'] for c in case['calls']})


def python_snippet(case):
    return ('import sys; sys.path.insert(0, "/verif/tools"); import json; from props import c19; '
            'print(c19.impl(json.loads(%r)))' % __import__('json').dumps(case))


def _try(fn, case):
    try:
        return fn(case)
    except Exception as ex:      # an exception of the harness' own assertions (e.g. sleep(0)) is an observation, not a crash
        return {'e': type(ex).__name__, 'msg': str(ex)[:200]}


def _fetch_op(key, gap):
    return {'m': 'fetch_seq', 'gap': gap, 'key': key, 'self': None, 'path': None, 'pathobj': False, 'ids': ['X'],
            'rettype': 'fasta', 'ext': None, 'ow': False, 'env': [[0, 0, PAY[0], False]]}


def extra_checks(rng, tier, cov):
    """exhaustive timing boxes against the window oracle (no model needed)"""
    gaps, durs = [0, 256, 512, 1024], [0, 256]
    maxlen = 7 if tier == 'thorough' else 4
    n = 0
    for L in range(1, maxlen + 1):
        for hist in itertools.product(itertools.product(gaps, durs), repeat=L):
            case = {'kind': 'rate', 'api': False, 'calls': [[g, 0, d] for g, d in hist]}
            iv = _try(impl_rate, case)
            n += 1
            sp = spec(case, iv)
            if sp:
                yield {'case': case, 'impl': iv, 'spec': sp}
                return
    cov['exhaustive_timing_histories'] = n
    cov['exhaustive_box'] = 'all histories of length <= %d over gaps {0,1/4,1/2,1}s x durations {0,1/4}s, no API key' % maxlen
    # the same with an API key: the first 9 requests at once (deque nearly full), then the box
    maxlen = 5 if tier == 'thorough' else 3
    n = 0
    for L in range(1, maxlen + 1):
        for hist in itertools.product(itertools.product(gaps, durs), repeat=L):
            case = {'kind': 'rate', 'api': True, 'calls': [[0, 0, 0]] * 9 + [[g, 0, d] for g, d in hist]}
            iv = _try(impl_rate, case)
            n += 1
            sp = spec(case, iv)
            if sp:
                yield {'case': case, 'impl': iv, 'spec': sp}
                return
    cov['exhaustive_timing_histories_api_key'] = n
    # key switches on one client: every sequence of (key setting, gap) after three kinds of past
    prefixes = [[], [_fetch_op(None, 0)] * 3, [_fetch_op('KEY', 0)] * 10]
    boxes = [(4, [0, 512, 1024]), (6, [0, 1024])] if tier == 'thorough' else [(3, [0, 512, 1024])]
    n = 0
    for maxlen, gs in boxes:
        for pre in prefixes:
            for L in range(1, maxlen + 1):
                for hist in itertools.product(itertools.product([None, 'KEY'], gs), repeat=L):
                    case = {'kind': 'client', 'files': [], 'ops': pre + [_fetch_op(k, g) for k, g in hist]}
                    iv = _try(impl_client, case)
                    n += 1
                    sp = spec(case, iv)
                    if sp:
                        yield {'case': case, 'impl': iv, 'spec': sp}
                        return
    cov['exhaustive_key_switch_histories'] = n


MODELLED_FUNCS = {'sugar/web/_entrez.py': ['Entrez.wait_before_request', 'Entrez.fetch_seq', 'Entrez.fetch_basket', 'Entrez.get_seq', 'Entrez.get_basket']}
