"""C19 -- Entrez client: request rate under a virtual clock, file-cache decision."""
import io, os, sys, types, itertools, shutil, tempfile
from framework import coq_z, coq_N, coq_bool, coq_list, coq_opt, coq_pair, coq_bs

ID = 'C19'
COQ_IMPORTS = ['C19_Model']
GENERATORS = ['gen_entrez']
TICKS = 1024
RULE = ('rate: call histories (1-14 calls; gaps/sleep overshoots/durations in ticks of 2^-10 s from {0,1,256,512,1023,1024,1025,...}) with and '
        'without API key, executed on the real Entrez class under a virtual clock and stub HTTP layer; thorough additionally enumerates '
        'ALL histories of length <= 7 over gaps {0,1/4,1/2,1} s x durations {0,1/4} s against the window oracle; cache: histories of '
        'fetch_seq/get_seq/fetch_basket/get_basket over 2 ids x 2 extensions x {no path, 2 cache dirs} x overwrite with pre-existing (possibly '
        'empty) files and possibly empty payloads; in half of the cache histories the server answers differently from call to call (empty '
        'answers, CRLF FASTA, GenBank records with complement()/join() features when rettype=gb) and every sequence returned by get_* is '
        'compared - id, residues, feature types, locations and strands - with read(payload) and with a hand-written expectation, cached or '
        'not, and re-inspected after every later call; non-trivial = distinct history in which a sleep happened (rate) or a cache hit happened (cache)')
TRUSTED = ['time.sleep sleeps at least its argument, perf_counter is monotone (environment assumptions of the model: eps >= 0, gap >= 0, dur >= 0)',
           'no time passes between recording a request time and issuing the request (the model identifies them)',
           'float arithmetic on multiples of 2^-10 s is exact (the harness uses only such times); ulp effects of real clocks are outside the model',
           'os/file system, requests (stubbed), sugar.read (used to parse payloads)',
           'modelled: Entrez.wait_before_request, the cache decision of fetch_seq, fetch_basket/get_* as iteration (_entrez.py:26-76)']
ASSUMPTIONS = ['single-threaded client', 'integer-tick virtual clock']
LEVEL_TEXT = ('Coq theorems for every call history with arbitrary non-negative arrival gaps, sleep overshoots and request durations: the request '
              'N places earlier started at least one window before, hence at most N starts in any half-open one-second window (N, window from '
              'regenerated constants); sleep only when N requests are on record and the oldest is younger than the window; cache: request iff no '
              'path/no file/empty file/overwrite, and in any history - the server free to answer differently at every call - no second request for a cached non-empty (path,id,ext) unless overwrite is set or an answer for that file was empty. The state machine '
              'is tied to the real class by differential runs under a virtual clock and stub HTTP layer.')
LEVEL_NOTE = ('Trusted: Coq kernel/vm_compute, tools/gens/entrez.py, the harness (virtual clock, stub requests module), CPython deque/float/os. '
              'Model assumptions: sleep overshoot/gaps/durations >= 0, zero delay between recording and sending a request, single thread. No axioms.')
TECHNIQUE = 'Coq invariant proof over a state machine with adversarial environment + differential correspondence under a virtual clock'

VALS = [0, 0, 0, 1, 255, 256, 512, 1023, 1024, 1025, 2048, 300]
PAY = ['>ida\nACGT\n', '>idb desc\nTTGA\nCC\n', '']
GB1 = ('LOCUS       AB0001                    12 bp    DNA     linear   BCT 01-JAN-2000\nDEFINITION  test.\nACCESSION   AB0001\n'
       'VERSION     AB0001.1\nFEATURES             Location/Qualifiers\n     source          1..12\n                     /organism="x"\n'
       '     CDS             complement(2..7)\n                     /product="p"\n     gene            complement(2..7)\n'
       'ORIGIN\n        1 acgtacggat cc\n//\n')
GB2 = GB1.replace('complement(2..7)', 'join(1..3,7..9)').replace('acgtacggat cc', 'ttgacaggat cc').replace('AB0001', 'AB0002')
# what the server may answer -> what a reader must make of it: (id, residues, [(feature type, [(start, stop, strand)])]);
# written by hand, independent of sugar's parsers
EXPECT = {
    PAY[0]: ('ida', 'ACGT', None), PAY[1]: ('idb', 'TTGACC', None),
    '>old\nAAAA\n': ('old', 'AAAA', None),
    '>idc crlf\r\nACGT\r\nGGA\r\n': ('idc', 'ACGTGGA', None),
    '>idd\nACGT\n\nTT\n': ('idd', 'ACGTTT', None),
    GB1: ('AB0001', 'ACGTACGGATCC', [('source', [(0, 12, '+')]), ('CDS', [(1, 7, '-')]), ('gene', [(1, 7, '-')])]),
    GB2: ('AB0002', 'TTGACAGGATCC', [('source', [(0, 12, '+')]), ('CDS', [(0, 3, '+'), (6, 9, '+')]), ('gene', [(0, 3, '+'), (6, 9, '+')])]),
}
GB1_CRLF = GB1.replace('\n', '\r\n')      # legal for an HTTP text body; StringIO does not translate it, a text-mode file does
EXPECT[GB1_CRLF] = EXPECT[GB1]
FASTA_PAY = [PAY[0], PAY[1], '>idc crlf\r\nACGT\r\nGGA\r\n', '>idd\nACGT\n\nTT\n']
GB_PAY = [GB1, GB2, GB1_CRLF]


# ----------------------------------------------------------------------------- generation
def gen_cases(rng, tier):
    cases = []
    nrate, ncache = (12000, 4000) if tier == 'thorough' else (700, 400)
    for _ in range(nrate):
        n = rng.randrange(1, 15)
        burst = rng.random() < 0.4
        calls = [[0 if burst and rng.random() < .8 else rng.choice(VALS), rng.choice([0, 0, 0, 1, 7, 256]), rng.choice([0, 0, 1, 256, 100])]
                 for _ in range(n)]
        cases.append({'kind': 'rate', 'api': rng.random() < 0.35, 'calls': calls})
    for _k in range(ncache):
        payloads = [rng.choice(PAY[:1] * 3 + [PAY[2]]), rng.choice(PAY[1:2] * 3 + [PAY[2]])]
        files = []
        for p in (0, 1):
            for i in (0, 1):
                for e in (0, 1):
                    if rng.random() < 0.15:
                        files.append([p, i, e, rng.choice(['', '>old\nAAAA\n'])])
        calls = []
        varied = _k % 2 == 1
        for _ in range(rng.randrange(1, 9)):
            m = rng.choice(['fetch_seq', 'fetch_seq', 'get_seq', 'fetch_basket', 'get_basket'] + (['get_seq', 'get_basket'] if varied else []))
            ids = [rng.randrange(2)] if m.endswith('seq') else [rng.randrange(2) for _ in range(rng.randrange(1, 4))]
            c = {'m': m, 'path': rng.choice([None, 0, 0, 1]), 'ids': ids, 'ext': rng.randrange(2), 'ow': rng.random() < 0.2}
            if varied and rng.random() < .2:
                c['path'] = 2
            if varied:      # the server answers differently over time (empty answers, CRLF, GenBank when asked for rettype=gb)
                if rng.random() < .4:
                    c['rettype'] = 'gb'
                pool = GB_PAY if c.get('rettype') == 'gb' else FASTA_PAY
                c['pay'] = [rng.choice(pool + [''] * (1 if rng.random() < .5 else 0)) if rng.random() < .8 else None for _ in (0, 1)]
                if c.get('rettype') == 'gb':
                    c['pay'] = [x if x is not None else rng.choice(GB_PAY) for x in c['pay']]
            calls.append(c)
        cases.append({'kind': 'cache', 'payloads': payloads, 'files': files, 'calls': calls})
    return cases


# ----------------------------------------------------------------------------- implementation under a virtual clock
class _Resp:
    def __init__(self, text):
        self.text = text

    def raise_for_status(self):
        pass


class _World:
    def __init__(self):
        self.clock = 0
        self.eps = 0
        self.dur = 0
        self.starts = []
        self.slept = None
        self.requested = []
        self.payload = lambda seqid: ''

    def install(self):
        import sugar.web._entrez as E
        self.E = E
        self.saved = (E.perf_counter, E.sleep, sys.modules.get('requests'))
        E.perf_counter = lambda: self.clock / TICKS
        E.sleep = self._sleep
        stub = types.ModuleType('requests')
        stub.get = self._get
        sys.modules['requests'] = stub

    def restore(self):
        self.E.perf_counter, self.E.sleep = self.saved[0], self.saved[1]
        if self.saved[2] is None:
            sys.modules.pop('requests', None)
        else:
            sys.modules['requests'] = self.saved[2]

    def _sleep(self, x):
        t = x * TICKS
        assert t == int(t) and t > 0, 'sleep(%r) is not a positive whole number of ticks' % x
        self.clock += int(t) + self.eps
        self.slept = int(t) + self.eps

    def _get(self, url, params=None):
        self.starts.append(self.clock)
        self.requested.append(params['id'])
        assert params['db'] == 'nuccore' and params['tool'] == 'sugar'
        assert getattr(self, 'want_rettype', None) in (None, params['rettype']), 'rettype not forwarded'
        self.clock += self.dur
        return _Resp(self.payload(params['id']))


def impl_rate(case):
    w = _World()
    w.install()
    try:
        client = w.E.Entrez(path=None, api_key='KEY' if case['api'] else None)
        w.payload = lambda seqid: '>x\nA\n'
        slept = []
        for gap, eps, dur in case['calls']:
            w.clock += gap
            w.eps, w.dur, w.slept = eps, dur, None
            client.fetch_seq('x')
            slept.append(w.slept or 0)
        assert len(w.starts) == len(case['calls'])
        return [w.starts, slept]
    finally:
        w.restore()


SEQID = ['AB0001.1', 'AB0001.2']   # accession.version ids: equal up to the last dot, must not share a cache file
EXT = [None, 'fa']


def call_rettype(c):
    return c.get('rettype', 'fasta')


def call_ext(c):
    """(extension string, index of the extension in the model's key)"""
    ext = EXT[c['ext']] or call_rettype(c)
    return ext, {'fasta': 0, 'fa': 1, 'gb': 2}[ext]


def call_payload(case, c, i):
    pay = (c.get('pay') or [None, None])[i]
    return case['payloads'][i] if pay is None else pay


def _raw(fn):
    with open(fn, newline='') as f:
        return f.read()


def _obs(seq):
    """what a returned sequence shows: id, residues, features with locations and strands"""
    return (seq.id, str(seq), [(ft.type, [(l.start, l.stop, l.strand) for l in ft.locs]) for ft in seq.fts])


def _expected_obs(content):
    e = EXPECT[content]
    return (e[0], e[1], e[2] or [])


def impl_cache(case):
    from sugar import read
    w = _World()
    w.install()
    root = tempfile.mkdtemp(prefix='C19-')
    try:
        # the second does not exist yet; the third is relative to the working directory and starts with a directory literally
        # called '~' (what Entrez creates for path='~/...': it does not expand the user directory, so nobody else may either)
        dirs = [os.path.join(root, 'p0'), os.path.join(root, 'sub', 'p1'), os.path.join('~', 'cache')]
        for p, i, e, content in case['files']:
            os.makedirs(dirs[p], exist_ok=True)
            with open(os.path.join(dirs[p], SEQID[i] + '.' + (EXT[e] or 'fasta')), 'w', newline='') as f:
                f.write(content)
        saved_env = (os.getcwd(), os.environ.get('HOME'))
        os.makedirs(os.path.join(root, 'cwd'))
        os.makedirs(os.path.join(root, 'home', 'cache'))
        for sid in SEQID:      # decoys: what a reader that expands '~' would find instead
            for ext_ in ('fasta', 'fa', 'gb'):
                with open(os.path.join(root, 'home', 'cache', sid + '.' + ext_), 'w') as f:
                    f.write('>decoy\nTTTTTTTT\n')
        os.chdir(os.path.join(root, 'cwd'))
        os.environ['HOME'] = os.path.join(root, 'home')
        client = w.E.Entrez(path=None, api_key=None)
        out = []
        returned = []      # (object, what it showed when it was returned): earlier results must not change retroactively
        for c in case['calls']:
            path = None if c['path'] is None else dirs[c['path']]
            ext = call_ext(c)[0]
            kw = dict(rettype=call_rettype(c), ext=EXT[c['ext']], overwrite=c['ow'], path=path)
            w.requested = []
            w.payload = lambda seqid, c=c: call_payload(case, c, SEQID.index(seqid))
            w.want_rettype = call_rettype(c)
            ids = [SEQID[i] for i in c['ids']]
            res, err = None, None
            try:
                if c['m'] == 'fetch_seq':
                    res = [client.fetch_seq(ids[0], **kw)]
                elif c['m'] == 'fetch_basket':
                    res = client.fetch_basket(ids, **kw)
                elif c['m'] == 'get_seq':
                    res = client.get_seq(ids[0], **kw)
                else:
                    res = client.get_basket(ids, **kw)
            except Exception as ex:          # reading an empty payload fails in sugar.read; the fetch part still happened
                err = ex
            # per-id observables: requested?, content delivered
            req = list(w.requested)
            contents = []
            for k, sid in enumerate(ids):
                if path is None:
                    contents.append(w.payload(sid))
                else:
                    fn = os.path.join(path, sid + '.' + ext)
                    contents.append(_raw(fn) if os.path.isfile(fn) else None)
            if c['m'].startswith('fetch') and err is None:
                for k, r in enumerate(res):
                    got = r.getvalue() if hasattr(r, 'getvalue') else _raw(r)
                    assert got == contents[k], 'returned file/handle content differs'
                    if path is not None:
                        assert r == os.path.join(path, ids[k] + '.' + ext)
            if c['m'].startswith('get'):
                if all(contents):
                    assert err is None, 'get_* failed on non-empty content %r: %r' % (contents, err)
                    got = [res] if c['m'] == 'get_seq' else list(res)
                    assert len(got) == len(ids), 'one sequence per id expected, got %d for %d ids' % (len(got), len(ids))
                    # (1) what read() parses from the payload, (2) what the payload says (hand-written expectation)
                    exp_read = [_obs(read(io.StringIO(ct))[0]) for ct in contents]
                    exp_hand = [_expected_obs(ct) for ct in contents]
                    assert [_obs(s_) for s_ in got] == exp_read, 'sequence differs from read(payload): %r vs %r' % ([_obs(s_) for s_ in got], exp_read)
                    assert exp_read == exp_hand, 'read(payload) %r is not what the payload says %r' % (exp_read, exp_hand)
                    returned += [(s_, _obs(s_)) for s_ in got]
                else:
                    assert err is not None
            for s_, o in returned:
                assert _obs(s_) == o, 'a sequence returned by an earlier call changed afterwards: %r -> %r' % (o, _obs(s_))
            # which ids were requested, in order, one flag per id occurrence
            flags = []
            pending = list(req)
            for sid in ids:
                if pending and pending[0] == sid:
                    flags.append(True)
                    pending.pop(0)
                else:
                    flags.append(False)
            assert not pending, 'unexpected extra requests %r' % pending
            out.append([[f, ct] for f, ct in zip(flags, contents)])
        return out
    finally:
        w.restore()
        if 'saved_env' in locals():
            os.chdir(saved_env[0])
            if saved_env[1] is None:
                os.environ.pop('HOME', None)
            else:
                os.environ['HOME'] = saved_env[1]
        shutil.rmtree(root, ignore_errors=True)


def impl(case):
    return impl_rate(case) if case['kind'] == 'rate' else impl_cache(case)


# ----------------------------------------------------------------------------- model terms
def model_term(case):
    if case['kind'] == 'rate':
        cs = coq_list([coq_pair(coq_z(g), coq_z(e), coq_z(d)) for g, e, d in case['calls']])
        return 'out (run_C19_rate %s %s)' % (coq_bool(case['api']), cs)
    files = coq_list([coq_pair(coq_N(p), coq_N(i), coq_N(e), coq_bs(ct)) for p, i, e, ct in case['files']])
    flat = []
    for c in case['calls']:
        for i in c['ids']:
            flat.append(coq_pair(coq_opt(c['path'], coq_N), coq_N(i), coq_N(call_ext(c)[1]), coq_bool(c['ow']),
                                 coq_bs(call_payload(case, c, i))))
    return 'out (run_C19_cache %s %s)' % (files, coq_list(flat))


def split_model(case, m):
    return bool(m[0]), m[1]


def agree(case, iv, mv):
    if case['kind'] == 'rate':
        return iv == mv
    if isinstance(iv, dict):
        return False
    flat = [x for call in iv for x in call]
    # a get_* call on several ids stops at the first failing read only after all fetches: fetch part is complete
    return flat == mv


# ----------------------------------------------------------------------------- property oracle (first principles)
def limits():
    from sugar.web._entrez import Entrez
    return Entrez._requests, Entrez._requests_api_key, Entrez._seconds * TICKS


def spec(case, iv):
    if isinstance(iv, dict):
        return 'raised ' + iv['e']
    if case['kind'] == 'rate':
        n3, n10, W = limits()
        # the property's numbers, not the code's: 3 / 10 per one second
        N = 10 if case['api'] else 3
        W = TICKS
        starts, slept = iv
        for k in range(len(starts) - N):
            if starts[k + N] - starts[k] < W:
                return 'requests %d..%d start within %d < %d ticks' % (k, k + N, starts[k + N] - starts[k], W)
        for x in sorted(set(starts)):
            if sum(1 for t in starts if x <= t < x + W) > N:
                return 'more than %d starts in window [%d, %d)' % (N, x, x + W)
        # no needless sleep: when sleep was called, starting at arrival time would have put N+1 starts into one window
        end = 0
        for k, (gap, eps, dur) in enumerate(case['calls']):
            t = end + gap
            if slept[k]:
                recent = [s for s in starts[:k] if s > t - W]
                if len(recent) < N:
                    return 'call %d slept %d ticks although only %d requests started in the last second' % (k, slept[k], len(recent))
            end = starts[k] + dur
        return None
    # cache: simulate the documented decision
    fs = {(p, i, EXT[e] or 'fasta'): ct for p, i, e, ct in case['files']}
    exp = []
    for c in case['calls']:
        row = []
        for i in c['ids']:
            if c['path'] is None:
                row.append([True, call_payload(case, c, i)])
                continue
            k = (c['path'], i, call_ext(c)[0])
            if k in fs and fs[k] != '' and not c['ow']:
                row.append([False, fs[k]])
            else:
                fs[k] = call_payload(case, c, i)
                row.append([True, fs[k]])
        exp.append(row)
    if iv != exp:
        return 'cache behaviour differs from the documented decision: expected %r got %r' % (exp, iv)
    return None


def nontrivial(case, iv):
    if isinstance(iv, dict):
        return None
    if case['kind'] == 'rate':
        return 'slept' if any(iv[1]) else None
    return 'hit' if any(not f for call in iv for f, _ in call) else None


def histkey(case, iv):
    if case['kind'] == 'rate':
        return ['rate', 'len=%d' % len(case['calls']), 'api' if case['api'] else 'nokey',
                'slept' if not isinstance(iv, dict) and any(iv[1]) else 'noslept']
    return ['cache', 'calls=%d' % len(case['calls'])] + sorted({c['m'] for c in case['calls']})


def python_snippet(case):
    return ('import sys; sys.path.insert(0, "/verif/tools"); import json; from props import c19; '
            'print(c19.impl(json.loads(%r)))' % __import__('json').dumps(case))


def extra_checks(rng, tier, cov):
    """exhaustive timing box against the window oracle (no model needed)"""
    gaps, durs = [0, 256, 512, 1024], [0, 256]
    maxlen = 7 if tier == 'thorough' else 4
    n = 0
    for L in range(1, maxlen + 1):
        for hist in itertools.product(itertools.product(gaps, durs), repeat=L):
            case = {'kind': 'rate', 'api': False, 'calls': [[g, 0, d] for g, d in hist]}
            iv = impl_rate(case)
            n += 1
            sp = spec(case, iv)
            if sp:
                yield {'case': case, 'impl': iv, 'spec': sp}
                return
    cov['exhaustive_timing_histories'] = n
    cov['exhaustive_box'] = 'all histories of length <= %d over gaps {0,1/4,1/2,1}s x durations {0,1/4}s, no API key' % maxlen

MODELLED_FUNCS = {'sugar/web/_entrez.py': ['Entrez.wait_before_request', 'Entrez.fetch_seq', 'Entrez.fetch_basket', 'Entrez.get_seq', 'Entrez.get_basket']}
