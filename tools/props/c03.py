"""C03 -- format auto-detection and transport independence of read/write.

Case kinds (all through public entry points of /repo):
  detect   sugar._io.detect on a handle / path at an offset  -> [format, position afterwards, shape flag]
  ext      sugar._io.detect_ext                              -> format or None
  resolve  sugar.read / iter_ / read_fts with instrumented os-level hooks -> the _resolve_fname decision
  kw       BioBasket/BioSeq/FeatureList/Feature .write / .tofmtstr with a recording plugin -> kwargs the plugin receives
extra_checks: transport independence (path, Path, handles, gz, archives, glob, iter_/read, fromfmtstr, CLI, write) -- relational
testing only (partial: nothing is proved about gzip/shutil/glob/tempfile).
"""
import io, os, json, gzip, shutil, tempfile, contextlib, sys
from framework import coq_bs, coq_N, coq_nat, coq_bool, coq_list, coq_opt

ID = 'C03'
COQ_IMPORTS = ['G_c03', 'C03_Model']
GENERATORS = ['gen_c03_io']
RULE = ('detect: contents written by the real writers (fasta, stockholm, gff, sjson; fts gff, tsv, csv with keys=/header= options) from random '
        'baskets/feature lists, synthetic GenBank / BLAST outfmt 6,7,10 / MMseqs2 fmtmode 0,4 / Infernal tblout 1,2,3 renderings, plus '
        'mutations of them (truncation, whitespace, case, numeric edge literals, field-count changes, >1000-character prefixes) and '
        'adversarial near-misses for every sniffer; each at offset 0 or behind a junk prefix, through BytesIO / StringIO / binary file / '
        'text file / path, with sep / outfmt options.  ext: every declared extension and near misses.  resolve: names x archive option. '
        'kw: keyword dicts through every shortcut.  extarg / wresolve: detect_ext on non-string arguments and the write-side decision '
        '(to string / handle / file / archive, format from fmt or extension).  render: the writer / renderer models of the soundness '
        'theorems (render_xsv, render_fasta, render_stockholm, render_gff, render_hits, render_mmseqs4, render_blast7, render_infernal) against the real writers / the harness renderers, with the real '
        'reader (format omitted) finding exactly the rendered hits.  plan: read / read_fts on a handle at an offset with fmt omitted, given '
        'and given in upper case: format used and equality with a fresh read of the rest.  hist: histories of 4-20 calls in one process on shared BytesIO/StringIO handles '
        '(same detect twice, other options / other chain in both orders, fresh handle, in-place same-length edit then detect again, '
        'the same handle read twice and iterated, mutation of a read result, detect_ext with alternating what, one object written with '
        'several keyword dicts, archive/gzip round trips), each detect/ext step compared with the pure model on the content the handle '
        'holds at that moment; after every step the plugin tables (FMTS, FMTS_ALL, EPS names, ARCHIVE_EXTS, extension lists, header tables) '
        'must be unchanged, option dicts unchanged, handles open, and a private tempfile.tempdir empty; alternating histories: contents of '
        'neighbouring formats (MMseqs2-0 / BLAST-6, ...) detected and read alternately on fresh and shared handles (detection must not '
        'depend on what was detected before).  cli: sugar convert / convertf on real files, -f x -o x -fo.  sess: histories of seek / read / '
        'readline / tell / detect / read on one file object of seven kinds.  rtree: real directory trees (gzip, wildcard names, nested '
        'archives, dotted directories, downloads served by a stub) read through names, patterns and archive options.  wround: write into '
        'an archive, read back.  dispatch / hkind / tool: stub plugins with every subset of functions, 23 kinds of file objects, the tool '
        'option.  non-trivial = distinct case that is detected as some format, or takes a non-plain '
        'resolve branch, or carries a consumed keyword')
TRUSTED = ['CPython io (TextIOWrapper/BytesIO/StringIO), gzip, shutil, glob, tempfile, zipfile/tarfile, pathlib: transports are '
           'differential-tested only (extra_checks), never proved',
           'pandas.read_csv/to_csv for TSV/CSV content',
           'modelled: is_fasta/is_genbank/is_stockholm/is_gff/is_sjson/is_fts_infernal/is_fts_mmseqs/is_fts_blast/_is_fts_xsv, '
           'read_tabular on one line (int()/float() literal grammar, float range test as exact decimal with round-to-nearest thresholds), '
           'detect loop with tell/seek, detect_ext/posixpath.splitext, _resolve_fname decision, kwargs plumbing of write/tofmtstr',
           'unittest.mock patches of glob.glob / shutil.unpack_archive / gzip.open / open / sys.stdin / requests.get used to observe the '
           '_resolve_fname decision; recording replacement of write_stockholm / write_fts_gff used to observe plugin kwargs']
ASSUMPTIONS = ['contents are printable ASCII plus tab and newline (no CR, no non-ASCII: universal-newline translation and UTF-8 decoding '
               'differ between text and binary transports)',
               'sep option is absent or one character; encoding option not used',
               'baskets / feature lists are non-empty (an empty FASTA file or a header-only TSV carries nothing to detect)',
               'BLAST outfmt 6/10 hit tables have identity > 1 % in the first hit (documented heuristic vs MMseqs2 fmtmode 0); '
               'outfmt 10 needs sep=","',
               'URL fetching not exercised (offline)']

MODELLED_FUNCS = {
    'sugar/_io/main.py': ['_binary', '_is_binary_handle', '_file_opener', 'iter_', 'read', 'read_fts', 'write', 'write_fts', 'detect', 'detect_ext', '_resolve_archive', '_allow_to_str', '_resolve_fname'],
    'sugar/_io/fasta.py': ['is_fasta'],
    'sugar/_io/genbank.py': ['is_genbank'],
    'sugar/_io/stockholm.py': ['is_stockholm'],
    'sugar/_io/gff.py': ['is_gff'],
    'sugar/_io/sjson.py': ['is_sjson'],
    'sugar/_io/tab/blast.py': ['is_fts_blast', 'read_fts_blast'],
    'sugar/_io/tab/mmseqs.py': ['is_fts_mmseqs', 'read_fts_mmseqs'],
    'sugar/_io/tab/infernal.py': ['is_fts_infernal'],
    'sugar/_io/tab/xsv.py': ['_is_fts_xsv', 'is_fts_csv', 'is_fts_tsv'],
    'sugar/_io/tab/core.py': ['_headers_from_fmtstrings', 'read_tabular'],
    'sugar/core/seq.py': ['BioSeq.write', 'BioSeq.tofmtstr', 'BioBasket.write', 'BioBasket.tofmtstr', 'BioBasket.fromfmtstr'],
    'sugar/core/fts.py': ['Feature.write', 'FeatureList.write', 'FeatureList.tofmtstr'],
    'sugar/scripts.py': ['convert', 'convertf'],
}
WHAT = {'seqs': 0, 'fts': 1}
ENTRIES = {'write': 'EWrite', 'tofmtstr': 'ETofmtstr', 'objwrite': 'EObjWrite', 'objtofmtstr': 'EObjTofmtstr'}
SEQ_EXAMPLE = '!data/example.gb'
FTS_EXAMPLE = '!data/fts_example.gff'

# ----------------------------------------------------------------------------- random objects (abstract specs, JSON)

IDCH = 'ABCDEFGHIJKLMNOPQRSTUVWXYZabcdefghijklmnopqrstuvwxyz0123456789_.-'
FTYPES = ['CDS', 'gene', 'exon', 'tRNA', 'region', 'misc_feature']


def r_id(rng, used):
    while True:
        s = ''.join(rng.choice(IDCH[:62]) for _ in range(rng.choice([1, 2, 4, 8])))
        if s not in used:
            used.add(s)
            return s


def r_ft(rng, seqid=None):
    a = rng.randrange(0, 200)
    b = a + rng.randrange(1, 100)
    ft = {'type': rng.choice(FTYPES), 'start': a, 'stop': b, 'strand': rng.choice('+-.')}
    if seqid is not None:
        ft['seqid'] = seqid
    if rng.random() < 0.4:
        ft['name'] = 'n' + str(rng.randrange(100))
    if rng.random() < 0.2:
        ft['score'] = rng.choice([1, 12.5, 0.25])
    return ft


def r_basket(rng, n=None, with_fts=False, aligned=False):
    used = set()
    n = n or rng.choice([1, 1, 2, 3, 5])
    L = rng.choice([1, 2, 7, 30, 61, 80]) if aligned else None   # an empty Stockholm row is not readable (C01/C15 domain)
    seqs = []
    for _ in range(n):
        sid = r_id(rng, used)
        ln = L if aligned else rng.choice([0, 1, 5, 20, 60, 61, 100])
        alpha = rng.choice(['ACGT', 'ACGU', 'ACGT-N', 'ARNDCQEGHILKMFPSTWYV'])
        s = {'id': sid, 'data': ''.join(rng.choice(alpha) for _ in range(ln))}
        if rng.random() < 0.3:
            s['header'] = sid + ' ' + rng.choice(['some description', 'x=1 y=2', 'Homo sapiens | chr1'])
        if with_fts:
            s['fts'] = [r_ft(rng, sid) for _ in range(rng.choice([0, 1, 2]))]
        seqs.append(s)
    return seqs


def r_fts(rng):
    n = rng.choice([1, 1, 2, 3, 6])
    sid = rng.choice([None, 'chr1', 'NC_1.1'])
    return [r_ft(rng, sid) for _ in range(n)]


def mk_basket(spec):
    from sugar import BioSeq, BioBasket
    seqs = []
    for s in spec:
        q = BioSeq(s['data'], id=s['id'])
        if 'header' in s:
            q.meta._fasta = {'header': s['header']}
        if 'fts' in s:
            q.fts = mk_fts(s['fts'])
        seqs.append(q)
    return BioBasket(seqs)


def mk_fts(spec):
    from sugar import Feature, FeatureList
    from sugar.core.fts import Location
    fts = []
    for f in spec:
        meta = {k: v for k, v in f.items() if k not in ('type', 'start', 'stop', 'strand')}
        fts.append(Feature(f['type'], [Location(f['start'], f['stop'], f['strand'])], meta=meta))
    return FeatureList(fts)


XSV_KEYS = [None, 'type start stop strand', 'start stop', 'type start len', 'seqid type start stop strand name', 'stop len type']


def write_content(w):
    """w = {'what','fmt','obj','kw'} -> text produced by the real writer (through tofmtstr)."""
    kw = dict(w.get('kw') or {})
    if w['what'] == 'seqs':
        return mk_basket(w['obj']).tofmtstr(w['fmt'], **kw)
    return mk_fts(w['obj']).tofmtstr(w['fmt'], **kw)


def r_writer_case(rng):
    k = rng.choice(['fasta', 'fasta', 'stockholm', 'gff', 'sjson', 'fgff', 'ftsv', 'fcsv', 'ftsv', 'fcsv'])
    if k == 'fasta':
        return {'what': 'seqs', 'fmt': 'fasta', 'obj': r_basket(rng)}
    if k == 'stockholm':
        return {'what': 'seqs', 'fmt': 'stockholm', 'obj': r_basket(rng, aligned=True)}
    if k == 'gff':
        w = {'what': 'seqs', 'fmt': 'gff', 'obj': r_basket(rng, with_fts=True)}
        if rng.random() < 0.3:
            w['kw'] = {'header': '#!processor verif\n'}
        return w
    if k == 'sjson':
        return {'what': 'seqs', 'fmt': 'sjson', 'obj': r_basket(rng, with_fts=rng.random() < 0.5)}
    if k == 'fgff':
        w = {'what': 'fts', 'fmt': 'gff', 'obj': r_fts(rng)}
        if rng.random() < 0.3:
            w['kw'] = {'header': '#!x y\n'}
        return w
    w = {'what': 'fts', 'fmt': 'tsv' if k == 'ftsv' else 'csv', 'obj': r_fts(rng)}
    keys = rng.choice(XSV_KEYS)
    if keys:
        w['kw'] = {'keys': keys}
    return w


# ----------------------------------------------------------------------------- synthetic renderers for the read-only formats

def _hit(rng, frac=False, lowid=False):
    q = 'q' + str(rng.randrange(50))
    s = rng.choice(['NC_081844.1', 'chr2', 'scaf_7'])
    ident = rng.choice([100.0, 95.408, 87.135, 50.5, 1.5, 1.01]) if not lowid else rng.choice([1.0, 0.5, 0.0])
    qa = rng.randrange(1, 500)
    qb = qa + rng.randrange(0, 300)
    sa = rng.randrange(1, 10 ** rng.choice([3, 6, 8]))
    sb = sa + rng.randrange(0, 300)
    if rng.random() < 0.3:
        sa, sb = sb, sa
    if rng.random() < 0.1:
        qa, qb = qb, qa
    idt = ('%.3f' % (ident / 100)) if frac else ('%.3f' % ident)
    ev = rng.choice(['0.0', '3.03e-83', '1.19e-17', '5.331E-82', '0.000E+00', '2.5'])
    bits = rng.choice(['2734', '93.5', '311', '180'])
    return [q, s, idt, str(abs(qb - qa) + 1), str(rng.randrange(20)), str(rng.randrange(3)), str(qa), str(qb), str(sa), str(sb), ev, bits]


def synth(rng, kind):
    n = rng.choice([1, 2, 4])
    if kind == 'genbank':
        name = 'AB%06d' % rng.randrange(10 ** 6)
        ln = rng.randrange(10, 60)
        seq = ''.join(rng.choice('acgt') for _ in range(ln))
        return ('LOCUS       %s %d bp    DNA     linear   VRL 01-JAN-2000\nDEFINITION  synthetic.\nACCESSION   %s\n'
                'FEATURES             Location/Qualifiers\n     source          1..%d\n                     /organism="x"\n'
                '     CDS             %d..%d\n                     /product="p"\nORIGIN\n        1 %s\n//\n'
                % (name, ln, name, ln, 1, ln // 2 + 1, seq))
    if kind in ('blast6', 'blast10', 'blast6low'):
        sep = ',' if kind == 'blast10' else '\t'
        return ''.join(sep.join(_hit(rng, lowid=(kind == 'blast6low'))) + '\n' for _ in range(n))
    if kind == 'blast7':
        prog = rng.choice(['BLASTN 2.15.0+', 'BLASTP 2.12.0+', 'TBLASTN 2.9.0+'])
        out = '# %s\n# Query: q1 desc\n# Database: db.fasta\n' % prog
        out += ('# Fields: query id, subject id, %% identity, alignment length, mismatches, gap opens, q. start, q. end, s. start, '
                's. end, evalue, bit score\n# %d hits found\n' % n)
        out += ''.join('\t'.join(_hit(rng)) + '\n' for _ in range(n))
        return out + '# BLAST processed 1 queries\n'
    if kind == 'mmseqs0':
        return ''.join('\t'.join(_hit(rng, frac=True)) + '\n' for _ in range(n))
    if kind == 'mmseqs4':
        return ('query\ttarget\tfident\talnlen\tmismatch\tgapopen\tqstart\tqend\ttstart\ttend\tevalue\tbits\n' +
                ''.join('\t'.join(_hit(rng, frac=True)) + '\n' for _ in range(n)))
    # infernal tblout
    fmtv = kind[-1]
    h1 = ('#target name         accession query name           accession mdl mdl from   mdl to seq from   seq to strand trunc pass'
          '   gc  bias  score   E-value inc description of target')
    d1 = ('#------------------- --------- -------------------- --------- --- -------- -------- -------- -------- ------ ----- ---- '
          '---- ----- ------ --------- --- ---------------------')
    h2 = ('#idx target name          accession query name           accession clan name mdl mdl from   mdl to seq from   seq to '
          'strand trunc pass   gc  bias  score   E-value inc olp anyidx afrct1 afrct2 winidx wfrct1 wfrct2 mdl len seq len '
          'description of target')
    d2 = ('#--- -------------------- --------- -------------------- --------- --------- --- -------- -------- -------- -------- '
          '------ ----- ---- ---- ----- ------ --------- --- --- ------ ------ ------ ------ ------ ------ ------- ------- '
          '---------------------')
    h3 = ('#target name         accession query name           accession mdl mdl from   mdl to seq from   seq to strand trunc pass'
          '   gc  bias  score   E-value inc mdl len seq len description of target')
    d3 = ('#------------------- --------- -------------------- --------- --- -------- -------- -------- -------- ------ ----- ---- '
          '---- ----- ------ --------- --- ------- ------- ---------------------')
    rows = []
    for i in range(n):
        a = rng.randrange(1, 5000)
        b = a + rng.randrange(20, 200)
        strand = rng.choice('+-')
        if strand == '-':
            a, b = b, a
        core = ['tRNA5', '-', 'NC_%d.1' % rng.randrange(99), '-', 'cm', '1', '72', str(a), str(b), strand, 'no', '1', '0.50', '0.0',
                '71.4', '1.4e-18', '!']
        if fmtv == '1':
            rows.append(' '.join(core + ['some description']))
        elif fmtv == '3':
            rows.append(' '.join(core + ['72', '2937203', 'some description']))
        else:
            rows.append(' '.join([str(i + 1)] + core[:4] + ['-'] + core[4:] + ['*', '-', '-', '-', '-', '-', '-', '72', '9000', '-']))
    h, d = {'1': (h1, d1), '2': (h2, d2), '3': (h3, d3)}[fmtv]
    return h + '\n' + d + '\n' + '\n'.join(rows) + '\n#\n# Program:         cmscan\n'


BLAST_OPT = ['qseqid', 'sseqid', 'pident', 'length', 'mismatch', 'gapopen', 'evalue', 'bitscore', 'sstrand', 'qlen', 'slen', 'nident', 'qcovs']
MMSEQS_OPT = ['query', 'target', 'fident', 'pident', 'alnlen', 'mismatch', 'gapopen', 'evalue', 'bits', 'qlen', 'tlen', 'nident', 'qcov']


def synth_sub(rng, tool=None, drop_coord=None, bad_strand=None):
    """BLAST outfmt 6/10 / MMseqs2 fmtmode 0 rows for a user-chosen column selection; returns
    {content, tool, sep, outfmt, ok}: ok = the selection holds the four coordinates and the rows are consistent, so that a reader
    given sep and outfmt must recognise the table."""
    tool = tool or rng.choice(['blast', 'blast', 'mmseqs'])
    coords = ['qstart', 'qend', 'sstart', 'send'] if tool == 'blast' else ['qstart', 'qend', 'tstart', 'tend']
    opt = BLAST_OPT if tool == 'blast' else MMSEQS_OPT
    cols = list(coords)
    drop_coord = rng.random() < 0.12 if drop_coord is None else drop_coord
    if drop_coord:
        cols.remove(rng.choice(cols))
    cols += rng.sample(opt, rng.choice([0, 1, 2, 4, 6, len(opt)]))
    if rng.random() < 0.7:
        rng.shuffle(cols)
    sep = rng.choice(['\t', '\t', ','])
    bad_strand = rng.random() < 0.1 if bad_strand is None else bad_strand
    rows = []
    for i in range(rng.choice([1, 2, 5])):
        qa = rng.randrange(1, 500)
        qb = qa + rng.randrange(1, 300)
        sa = rng.randrange(1, 10 ** rng.choice([3, 6, 8]))
        sb = sa + rng.randrange(1, 300)
        minus = rng.random() < 0.4
        if minus:
            sa, sb = sb, sa
        strand = ('minus' if minus else 'plus')
        if bad_strand and i == 0:
            strand = ('plus' if minus else 'minus')
        ident = rng.choice([100.0, 95.408, 50.5, 1.5, 0.5])
        v = {'qstart': qa, 'qend': qb, 'sstart': sa, 'send': sb, 'tstart': sa, 'tend': sb, 'qseqid': 'q%d' % i, 'sseqid': 'chr2', 'query': 'q%d' % i,
             'target': 'chr2', 'pident': '%.3f' % ident, 'fident': '%.3f' % (ident / 100), 'length': qb - qa + 1, 'alnlen': qb - qa + 1,
             'mismatch': rng.randrange(9), 'gapopen': rng.randrange(3), 'evalue': rng.choice(['0.0', '3.03e-83', '2.5']),
             'bitscore': rng.choice(['2734', '93.5']), 'bits': rng.choice(['2734', '93']), 'sstrand': strand, 'qlen': 1480, 'slen': 10 ** 8,
             'tlen': 10 ** 8, 'nident': qb - qa, 'qcovs': '97', 'qcov': '0.970'}
        rows.append(sep.join(str(v[c]) for c in cols))
    ok = not drop_coord and not (bad_strand and 'sstrand' in cols)
    return {'content': '\n'.join(rows) + '\n', 'tool': tool, 'sep': sep, 'outfmt': ' '.join(cols), 'ok': ok}


SYNTH = ['genbank', 'blast6', 'blast7', 'blast10', 'blast6low', 'mmseqs0', 'mmseqs4', 'infernal1', 'infernal2', 'infernal3']
SYNTH_FMT = {'genbank': 'genbank', 'blast6': 'blast', 'blast7': 'blast', 'blast10': 'blast', 'blast6low': None, 'mmseqs0': 'mmseqs',
             'mmseqs4': 'mmseqs', 'infernal1': 'infernal', 'infernal2': 'infernal', 'infernal3': 'infernal'}
# name understood by the model's shape_of
SHAPE_NAME = {'genbank': 'genbank', 'blast7': 'blast7'}

# ----------------------------------------------------------------------------- adversarial contents

NUMS = ['1', '0', '100', '100.0', '100.00000000000001', '100.000000000000007', '100.000000000000008', '1.0', '1.0000000000000001',
        '1.00000000000000011', '1.000000000000000112', '0.999', '1e0', '1E2', '1e-400', '-1e-400', '-0.0', '-0', '1e400', 'inf', '-inf',
        'nan', ' 5 ', '+5', '1_0', '1__0', '_1', '1_', '5.', '.5', '.', 'e5', '1e', '1e+', '0x10', '', 'abc', '1.5e2', '101', '-1',
        '99.9999', '1.01', '0.01', '1,5', '\xb2', 'Infinity', 'NaN', '1 0', '1e5_0', '1_0.0_1']


def r_adversarial(rng):
    k = rng.randrange(16)
    ws = rng.choice(['', ' ', '\n', '\t', '  \n ', '\x0c', '\r\n'])
    if k == 0:    # fasta near misses
        return ws + rng.choice(['>', '>a\nACGT\n', ' >x', ';c\n>a\nA\n', 'x>a\n', '']) + rng.choice(['', ' ' * 48 + '>'])
    if k == 1:    # the 50-character window of is_fasta
        return ' ' * rng.choice([48, 49, 50, 51]) + '>a\nA\n'
    if k == 2:
        return rng.choice(['LOCUS', 'locus', 'LoCuS  x', 'LOCU', ' LOCUS', 'LOCUSX', 'L0CUS']) + rng.choice(['', ' 1 bp\n'])
    if k == 3:
        return rng.choice(['# STOCKHOLM 1.0\n', '# STOCKHOLM', '# STOCKHOL', '#STOCKHOLM 1.0', '# stockholm 1.0\n', ' # STOCKHOLM 1.0\n',
                           '# STOCKHOLMX\n//\n'])
    if k == 4:    # sjson comment window (51 characters)
        pre = rng.choice(['{"_fmtcomment": "', '{"x": 1, "_fmtcomment": "', '{' + ' ' * 33 + '"', '{' + ' ' * 34 + '"', '', '# '])
        return pre + rng.choice(['sugar JSON format written by sugar v0.1', 'SUGAR json FORMAT', 'sugar JSON forma', 'sugar  JSON format'])
    if k == 5:    # gff line sniffing
        f = [rng.choice(['chr1', '.', '']), rng.choice(['src', '.']), rng.choice(['CDS', 'gene']),
             rng.choice(NUMS[:8] + ['7', ' 7', '7 ', '1_0', 'x', '']), rng.choice(['9', '20', 'y', '', '+3', '2.0']),
             rng.choice(['.', '0.5']), rng.choice(['+', '-', '.', '?', '', '+-', '-.', 'x', '.?', '+.']),
             rng.choice(['.', '0', '1', '2', '', '01', '12', '.0', '3', '02']), rng.choice(['ID=a', '.', 'a\tb'])]
        f = f[:rng.choice([9, 9, 9, 8, 7, 5, 4])]
        return ws + '\t'.join(f) + rng.choice(['\n', '', '\nchr1\t.\tCDS\t1\t2\t.\t+\t.\t.\n'])
    if k == 6:
        return ws + rng.choice(['##gff-version 3\n', '##gff-version 3', '##gff-version 2\n', '##gff-version  3\n', '##GFF-VERSION 3\n',
                                '##gff-version 3.1.26\n', '#gff-version 3\n']) + rng.choice(['', 'a\tb\n'])
    if k in (7, 8):    # hit table first line with edge literals
        sep = rng.choice(['\t', '\t', ','])
        f = _hit(rng, frac=rng.random() < 0.5)
        for _ in range(rng.choice([0, 1, 1, 2])):
            i = rng.choice([2, 2, 2, 6, 7, 8, 9, 3, 10])
            f[i] = rng.choice(NUMS)
        if rng.random() < 0.2:
            f[8] = f[9]
        if rng.random() < 0.15:
            f = f[:rng.choice([11, 10, 1])] if rng.random() < 0.5 else f + ['extra']
        line = sep.join(f)
        return rng.choice(['', '', '', ' ', '\n', '# c\n', '#\n']) + line + rng.choice(['\n', '', '\r\n', '\n' + line + '\n'])
    if k == 9:    # mmseqs header variants
        names = ['query', 'target', 'fident', 'alnlen', 'qstart', 'qend', 'tstart', 'tend', 'evalue', 'bits', 'pident', 'start', 'stop',
                 'len', 'type', 'Query', '']
        hs = [rng.choice(names) for _ in range(rng.choice([1, 2, 4, 12]))]
        sep = rng.choice(['\t', '\t', ',', ' '])
        return rng.choice(['', ' ']) + sep.join(hs) + rng.choice(['\n', '', ' \n']) + rng.choice(['', sep.join(['1'] * len(hs)) + '\n'])
    if k == 10:   # blast comment variants
        return rng.choice(['# BLASTN 2.15.0+\n', '#BLAST', '# blastn\n', '# Fields: query id, subject id\n', '# Fields: nonsense\n',
                           '# x\n' + 'y' * 990 + ' BLAST', '# x\n' + 'y' * 996 + ' BLAST', '# x\n' + 'y' * 991 + ' BLAST x',
                           ' # BLAST\n', '#\n', '# Fields: query id\nBLAST\n'])
    if k == 11:   # infernal header variants
        l0 = rng.choice(['#target name accession', '#idx target name', '', '#', '# description of target', '#target nam', 'target name',
                         '##E-value inc', '#target\tname'])
        ntok = rng.choice([18, 29, 20, 27, 17, 19, 0, 28])
        l1 = rng.choice(['#', '', '##']) + ' '.join(['--'] * ntok)
        return l0 + rng.choice(['\n', '\r\n', '\x0b']) + l1 + rng.choice(['\n', '', '\nx\n'])
    if k == 12:   # xsv header variants
        sep = rng.choice(['\t', ','])
        cols = rng.sample(['type', 'start', 'stop', 'len', 'strand', 'name', 'Start', ' stop', 'seqid', 'score'], rng.choice([1, 2, 3, 4, 6]))
        rows = [sep.join(cols)]
        for _ in range(rng.choice([0, 1, 2, 5])):
            ncol = len(cols) + (rng.choice([-1, 1]) if rng.random() < 0.15 else 0)
            rows.append(sep.join(rng.choice(['1', 'CDS', '', '+', '5.5', '10']) for _ in range(max(ncol, 1))))
        return '\n'.join(rows) + rng.choice(['\n', '', '\n\n'])
    if k == 13:   # window of 1000 characters: a bad line beyond / across the window
        sep = rng.choice(['\t', ','])
        head = sep.join(['type', 'start', 'stop', 'strand']) + '\n'
        row = sep.join(['CDS', '1', '20', '+']) + '\n'
        body = head + row * rng.choice([60, 80, 90, 100])
        cut = rng.choice([990, 995, 1000, 1005, 1010])
        return body[:cut] + sep.join(['bad', 'row']) + '\n' + row
    if k == 14:   # empty / whitespace only / single characters
        return rng.choice(['', '\n', ' ', '\t', '>', '#', '{', 'L', '\n\n', '\t\t\t\t\t\t\t\t', 'a\tb\tc\t1\t2\t.\t\t\t'])
    # random printable junk
    n = rng.choice([1, 5, 30, 120])
    return ''.join(rng.choice('>#LOCUSlocus\t\t,\n 0123456789.+-?eE_abc{}":') for _ in range(n))


def mutate(rng, s):
    k = rng.randrange(8)
    if not s:
        return s
    i = rng.randrange(len(s))
    if k == 0:
        return s[:i]
    if k == 1:
        return rng.choice([' ', '\n', '\t', '  \n']) + s
    if k == 2:
        return s[:i] + s[i + 1:]
    if k == 3:
        return s[:i] + rng.choice('\t\n ,>#0x') + s[i:]
    if k == 4:
        return s.swapcase()
    if k == 5:
        j = min(len(s), rng.choice([3, 10, 40]))
        i = rng.randrange(j)
        return s[:i] + rng.choice('\t\n ,>#0x.') + s[i + 1:]
    if k == 6:
        return s.replace('\n', '\r\n')
    return s.split('\n', 1)[-1]



# ----------------------------------------------------------------------------- histories (state independence)

def _module_state():
    """The plugin tables and priority lists that no call may change."""
    import copy
    import sugar._io.util as U
    import sugar._io.main as M
    import sugar._io.tab.core as T
    import sugar._io.tab.infernal as I
    exts = {}
    for what in ('seqs', 'fts'):
        suf = '' if what == 'seqs' else '_fts'
        for fmt in U.FMTS_ALL[what]:
            m = U.EPS[what][fmt].load()
            exts[what + ':' + fmt] = copy.deepcopy(getattr(m, 'filename_extensions%s_%s' % (suf, fmt), None))
    return {'FMTS': copy.deepcopy(U.FMTS), 'FMTS_ALL': copy.deepcopy(U.FMTS_ALL), 'same_tables': M.FMTS_ALL is U.FMTS_ALL and M.EPS is U.EPS,
            'ARCHIVE_EXTS': list(U.ARCHIVE_EXTS), 'main.ARCHIVE_EXTS': list(M.ARCHIVE_EXTS), 'EPS': {k: sorted(v.names) for k, v in U.EPS.items()},
            'exts': exts, 'DEFAULT_OUTFMT': copy.deepcopy(T._DEFAULT_OUTFMT), 'MMSEQS': list(T._MMSEQS_HEADER_NAMES),
            'HEADER': {k: [tuple(h) for h in v] for k, v in T._HEADER.items()}, 'CONVERTH': copy.deepcopy(T._CONVERTH),
            'copyattrs': list(T.copyattrs), 'HEADER_KW': sorted(I._HEADER_KW)}


def _mk_handle(kind, text):
    return io.BytesIO(text.encode('latin-1')) if kind == 'bytes' else io.StringIO(text, newline='')


def _hist_step(case, st, handles, texts):
    import sugar
    from sugar._io import detect, detect_ext
    op = st['op']
    if op in ('detect', 'detect_fresh'):
        kw = {k: st[k] for k in ('sep', 'outfmt') if st.get(k) is not None}
        f = handles[st['h']] if op == 'detect' else _mk_handle(st['kind'], texts[st['t']])
        f.seek(st['offset'])
        before = f.tell()
        kw0 = dict(kw)
        fmt = detect(f, st['what'], **kw)
        assert kw == kw0, 'options dict changed by detect'
        assert not f.closed, 'handle closed'
        return [fmt, f.tell() - before + st['offset']]
    if op == 'edit':
        f = handles[st['h']]
        new = texts[st['t']]
        f.seek(0)
        f.write(new.encode('latin-1') if isinstance(f, io.BytesIO) else new)
        f.seek(0)
        got = f.read()
        got = got.decode('latin-1') if isinstance(got, bytes) else got
        assert got == new, 'harness: in-place edit must keep the length'
        return 'ok'
    if op == 'ext':
        return detect_ext(st['fname'], st['what'])
    if op == 'read':
        rd = sugar.read if st['what'] == 'seqs' else sugar.read_fts
        rkw = dict(st.get('rkw') or {})
        f = handles[st['h']]
        text = f.getvalue()
        text = text.decode('latin-1') if isinstance(text, bytes) else text
        ref = _cj(rd(_mk_handle('bytes', text), **rkw))
        for i in range(2):                       # the same handle read twice
            f.seek(0)
            rkw0 = dict(rkw)
            got = _cj(rd(f, **rkw))
            assert rkw == rkw0, 'options dict changed by read'
            assert not f.closed, 'handle closed by read'
            assert got == ref, 'read #%d of the same handle differs from a fresh handle' % (i + 1)
        if st['what'] == 'seqs':
            f.seek(0)
            assert _cj(sugar.BioBasket(list(sugar.iter_(f, **rkw)))) == ref, 'iter_ after read on the same handle differs'
        # mutating what was read must not influence a later read
        f.seek(0)
        o1 = rd(f, **rkw)
        if len(o1):
            if st['what'] == 'seqs':
                o1[0].data = 'MUTATED'
                o1[0].meta['x'] = 1
            else:
                o1[0].meta['x'] = 1
                o1.data.pop()
        f.seek(0)
        assert _cj(rd(f, **rkw)) == ref, 'a later read is influenced by mutating the result of an earlier one'
        return 'ok'
    if op == 'write':
        w = st['w']
        mk = (lambda: mk_basket(w['obj'])) if w['what'] == 'seqs' else (lambda: mk_fts(w['obj']))
        obj = mk()
        snap = _cj(obj)
        for kw in st['kws']:
            kw1 = json.loads(json.dumps(kw))
            a = obj.tofmtstr(w['fmt'], **kw1)
            assert kw1 == kw, 'keyword dict changed by tofmtstr'
            assert _cj(obj) == snap, 'object changed by writing it'
            assert a == mk().tofmtstr(w['fmt'], **kw), 'output depends on what was written before (kw=%r)' % (kw,)
            s_ = io.StringIO()
            obj.write(s_, w['fmt'], **kw1)
            assert s_.getvalue() == a, 'write(handle) differs from tofmtstr after earlier calls'
        return 'ok'
    if op == 'archive':
        w = st['w']
        obj = mk_basket(w['obj']) if w['what'] == 'seqs' else mk_fts(w['obj'])
        rd = sugar.read if w['what'] == 'seqs' else sugar.read_fts
        d = tempfile.mkdtemp(prefix='C03-ha-', dir='/tmp')     # explicit dir: not inside the watched private temp dir
        try:
            p = os.path.join(d, 'a.' + EXT[w['fmt']])
            ref = _cj(rd(io.StringIO(obj.tofmtstr(w['fmt']))))
            for arch, aext in ((st['arch'], {'zip': '.zip', 'gztar': '.tar.gz', 'tar': '.tar'}[st['arch']]),):
                obj.write(p, archive=arch)
                for i in range(2):
                    assert _cj(rd(p + aext)) == ref, 'archive read #%d differs' % (i + 1)
                assert _cj(rd(os.path.join(d, '*' + aext))) == ref, 'glob over the archive differs'
            with gzip.open(p + '.gz', 'wb') as g:
                g.write(obj.tofmtstr(w['fmt']).encode('latin-1'))
            assert _cj(rd(p + '.gz')) == ref, 'gzip read differs'
        finally:
            shutil.rmtree(d, ignore_errors=True)
        return 'ok'
    raise ValueError(op)


def impl_hist(case):
    texts = case['texts']
    handles = [_mk_handle(h['kind'], texts[h['t']]) for h in case['handles']]
    state0 = _module_state()
    priv = tempfile.mkdtemp(prefix='C03-hist-', dir='/tmp')
    old = tempfile.tempdir
    tempfile.tempdir = priv                      # everything sugar creates through tempfile lands here
    out = []
    try:
        for st in case['steps']:
            try:
                r = _hist_step(case, st, handles, texts)
            except AssertionError as e:
                r = 'FAIL: %s' % e
            except Exception as e:
                r = 'FAIL: raised %s' % type(e).__name__ if st['op'] not in ('detect', 'detect_fresh', 'ext') else {'e': type(e).__name__}
            problems = []
            if _module_state() != state0:
                now = _module_state()
                problems.append('module tables changed: %s' % [k for k in state0 if state0[k] != now[k]])
            left = os.listdir(priv)
            if left:
                problems.append('temporary files left behind: %s' % left[:3])
                for x in left:
                    shutil.rmtree(os.path.join(priv, x), ignore_errors=True)
                    if os.path.exists(os.path.join(priv, x)):
                        os.remove(os.path.join(priv, x))
            out.append(r if not problems else 'FAIL: ' + '; '.join(problems))
    finally:
        tempfile.tempdir = old
        shutil.rmtree(priv, ignore_errors=True)
    return out


def _hist_model_steps(case):
    texts = case['texts']
    cur = [texts[h['t']] for h in case['handles']]
    kinds = [h['kind'] for h in case['handles']]
    terms = []
    for st in case['steps']:
        op = st['op']
        if op in ('detect', 'detect_fresh'):
            content = cur[st['h']] if op == 'detect' else texts[st['t']]
            kind = kinds[st['h']] if op == 'detect' else st['kind']
            terms.append('(HDetect %s %s %s %s %s %s)' % (coq_N(WHAT[st['what']]), _optbyte(st.get('sep')), coq_opt(st.get('outfmt'), coq_bs),
                                                         coq_bool(kind == 'bytes'), coq_nat(st['offset']), coq_bs(content)))
        elif op == 'ext':
            terms.append('(HExt %s %s)' % (coq_N(WHAT[st['what']]), coq_bs(st['fname'])))
        else:
            if op == 'edit':
                cur[st['h']] = texts[st['t']]
            terms.append('HOk')
    return terms


def _variants(rng, c):
    """Same-length variants of a content (plausible cache-key collisions)."""
    vs = []
    if c:
        vs.append(rng.choice('x;%') + c[1:])
        i = rng.randrange(len(c))
        vs.append(c[:i] + rng.choice('0x\t,') + c[i + 1:])
    if ',' in c:
        vs.append(c.replace(',', '\t'))
    if '\t' in c:
        vs.append(c.replace('\t', ','))
    return vs or [c]


def r_history(rng):
    texts, readable = [], {}
    for _ in range(rng.choice([1, 2, 2])):
        if rng.random() < 0.6:
            w = r_writer_case(rng)
            w.pop('kw', None)
            c = write_content(w)
            readable[len(texts)] = {'what': w['what'], 'rkw': {}, 'w': w}
        elif rng.random() < 0.3:
            t = synth_sub(rng, drop_coord=False, bad_strand=False)
            c = t['content']
            readable[len(texts)] = {'what': 'fts', 'rkw': {'sep': t['sep'], 'outfmt': t['outfmt']}}
        else:
            kind = rng.choice([k for k in SYNTH if k != 'blast6low'])
            c = synth(rng, kind)
            readable[len(texts)] = {'what': 'fts', 'rkw': {'sep': ','} if kind == 'blast10' else {}}
        texts.append(c)
        texts.extend(_variants(rng, c)[:2])
    handles = [{'kind': rng.choice(['bytes', 'str']), 't': t} for t in readable]
    cur = [h['t'] for h in handles]
    steps = []
    optsets = [{}, {}, {'sep': ','}, {'sep': '\t'}, {'outfmt': 'qseqid sseqid pident length mismatch gapopen qstart qend sstart send evalue bitscore'}]
    for _ in range(rng.choice([4, 6, 9])):
        k = rng.random()
        hi = rng.randrange(len(handles))
        if k < 0.45:
            o = rng.choice(optsets)
            if readable.get(cur[hi], {}).get('rkw', {}).get('outfmt') and rng.random() < 0.6:
                o = readable[cur[hi]]['rkw']
            st = dict({'op': 'detect', 'h': hi, 'what': rng.choice(['seqs', 'fts', 'fts']), 'sep': None, 'outfmt': None,
                       'offset': rng.choice([0, 0, 0, min(3, len(texts[cur[hi]]))])}, **o)
            steps.append(st)
            r = rng.random()
            if r < 0.3:
                steps.append(dict(st))                                       # the same call twice
            elif r < 0.6:
                o2 = rng.choice(optsets)                                     # other options / other chain, then the first again
                steps.append(dict(st, sep=o2.get('sep'), outfmt=o2.get('outfmt'), what=rng.choice(['seqs', 'fts'])))
                steps.append(dict(st))
            elif r < 0.8:
                steps.append(dict(st, op='detect_fresh', t=cur[hi], kind=handles[hi]['kind']))
        elif k < 0.6:
            same = [t for t in range(len(texts)) if len(texts[t]) == len(texts[cur[hi]]) and t != cur[hi]]
            if same:
                t = rng.choice(same)
                steps.append({'op': 'edit', 'h': hi, 't': t})
                cur[hi] = t
                steps.append({'op': 'detect', 'h': hi, 'what': rng.choice(['seqs', 'fts']), 'sep': rng.choice([None, None, ',']), 'outfmt': None,
                              'offset': 0})
        elif k < 0.72:
            fn = rng.choice(['a.gff', 'x.tsv', 'd/y.fasta', 'z.csv', 'q.json', 'a.stk'])
            for what in rng.choice([['seqs', 'fts', 'seqs'], ['fts', 'seqs', 'fts'], ['fts', 'fts']]):
                steps.append({'op': 'ext', 'fname': fn, 'what': what})
        elif k < 0.85:
            if cur[hi] in readable:
                steps.append({'op': 'read', 'h': hi, 'what': readable[cur[hi]]['what'], 'rkw': readable[cur[hi]]['rkw']})
        elif k < 0.95:
            w = r_writer_case(rng)
            w.pop('kw', None)
            alt = {'gff': [{'header': '#!a\n'}, {}], 'tsv': [{'keys': 'start stop'}, {'keys': 'type start len'}, {}],
                   'csv': [{'keys': 'start stop'}, {}, {'keys': 'seqid start stop'}]}.get(w['fmt'], [{}])
            kws = [rng.choice(alt) for _ in range(3)]
            steps.append({'op': 'write', 'w': w, 'kws': kws})
        else:
            w = r_writer_case(rng)
            w.pop('kw', None)
            steps.append({'op': 'archive', 'w': w, 'arch': rng.choice(['zip', 'gztar', 'tar'])})
    return {'kind': 'hist', 'texts': texts, 'handles': handles, 'steps': steps}


# ----------------------------------------------------------------------------- command-line converter cases

CLI_STEMS = ['out', 'o.v2', 'dir.d/out', '.hidden', 'a b', 'dir.d/x.y.z', 'out.fasta']


def _decl_exts(what):
    import sugar._io.util as U
    suf = '' if what == 'seqs' else '_fts'
    out = []
    for fmt in U.FMTS_ALL[what]:
        out += list(getattr(U.EPS[what][fmt].load(), 'filename_extensions%s_%s' % (suf, fmt), []))
    return out


def r_cli_case(rng):
    """One call of `sugar convert` / `sugar convertf` on a real file: source content x -f x -o x -fo."""
    import sugar._io.util as U
    r = rng.random()
    if r < 0.55:
        w = r_writer_case(rng)
        w.pop('kw', None)
        content, what, true, nobj = write_content(w), w['what'], w['fmt'], len(w['obj'])
    elif r < 0.85:
        what = rng.choice(['seqs', 'fts', 'fts'])
        kind = 'genbank' if what == 'seqs' else rng.choice([k for k in SYNTH if k not in ('blast6low', 'blast10')])
        content, true, nobj = synth(rng, kind), SYNTH_FMT[kind], 1
    elif r < 0.93:
        content, what, true, nobj = rng.choice(['xyz\n', 'no format here\n', '12 34\n']), rng.choice(['seqs', 'fts']), None, 0
    else:
        content, what, true, nobj = '##gff-version 3\n', rng.choice(['seqs', 'fts']), 'gff', 0      # a file that holds nothing
    names = list(U.FMTS_ALL[what])
    if true is None:
        fmt = rng.choice([None, None, 'nonsense'])
    elif nobj == 0:
        fmt = rng.choice([None, None, ''])
    else:
        fmt = rng.choice([None, None, None, None, true, true, true.upper(), true.capitalize(), rng.choice(['nonsense', '', true + ' '])])
    if nobj == 0 and true is not None:
        out, fmtout = None, rng.choice([None, ''])
    else:
        out = None
        if rng.random() < 0.6:
            ext = rng.choice(_decl_exts(what) + _decl_exts(what) + ['txt', 'FASTA', 'gb', 'fasta.bak', 'tab', 'Gff'])
            out = rng.choice(CLI_STEMS) + rng.choice(['.', '.', '.', '']) + ext
        wr = [n for n in names if n in ('fasta', 'stockholm', 'gff', 'sjson', 'tsv', 'csv')]
        fmtout = rng.choice([None, None, None, None, rng.choice(wr), rng.choice(wr), rng.choice(wr).upper(), rng.choice(names).capitalize(),
                             rng.choice(['nonsense', '', 'genbank'])])
    return {'kind': 'cli', 'what': what, 'content': content, 'true': true, 'nobj': nobj, 'fmt': fmt, 'out': out, 'fmtout': fmtout,
            'abs': rng.random() < 0.3, '_csig': _csig(content)}


def _csig(content):
    import hashlib
    return hashlib.sha1(content.encode('latin-1')).hexdigest()[:12]


def valid_case(c):
    """Shrinking must not alter a file whose format / object count the case states."""
    if c.get('kind') == 'cli':
        return c.get('_csig') == _csig(c['content']) and (c['out'] is None or c['out'] != '')
    return True


# ----------------------------------------------------------------------------- sessions on one handle (state machine)

SESS_KINDS = ['bytes', 'str', 'fileb', 'filet', 'ntf', 'spooled', 'gzip']
SESS_BINARY = {'bytes': True, 'str': False, 'fileb': True, 'filet': False, 'ntf': True, 'spooled': True, 'gzip': True}
EOF_OK = ('stockholm', 'fasta', 'gff')      # readers that return an empty collection at the end of the content


def r_session(rng):
    """A history of seek / read / readline / tell / detect / read-an-object calls on one file object."""
    r = rng.random()
    junk = rng.choice(['', '', '', 'JUNK\n', '>x\n', 'xx'])
    if r < 0.5:
        docs = [mk_basket(r_basket(rng, aligned=True)).tofmtstr('stockholm') for _ in range(rng.choice([1, 2, 2, 3]))]
        what, fmt, sep = 'seqs', 'stockholm', None
    elif r < 0.8:
        w = r_writer_case(rng)
        w.pop('kw', None)
        docs, what, fmt, sep = [write_content(w)], w['what'], w['fmt'], None
    else:
        kind = rng.choice([k for k in SYNTH if k not in ('blast6low', 'blast10')])
        what = 'seqs' if kind == 'genbank' and rng.random() < 0.5 else 'fts'
        docs, fmt, sep = [synth(rng, kind)], SYNTH_FMT[kind], None
    text = junk + ''.join(docs)
    starts, p_ = [], len(junk)
    for d_ in docs:
        starts.append(p_)
        p_ += len(d_)
    n, pos, ops = len(text), 0, []

    def seek(p):
        nonlocal pos
        ops.append({'op': 'seek', 'p': p})
        pos = p
    if junk and rng.random() < 0.8:
        seek(len(junk))
    for _ in range(rng.choice([3, 5, 8, 12])):
        k = rng.random()
        if k < 0.35:
            o = rng.choice([{}, {}, {}, {'sep': ','}, {'sep': '\t'}])
            ops.append(dict({'op': 'detect', 'what': rng.choice([what, what, 'seqs', 'fts']), 'sep': None}, **o))
        elif k < 0.6:
            if (pos not in starts and pos != n) or (pos == n and rng.random() < 0.75):
                seek(rng.choice(starts))
            given = rng.choice([None, None, fmt, fmt.upper()])
            if pos == n and given is not None and fmt not in EOF_OK:
                given = None
            ops.append({'op': 'readobj', 'what': what, 'fmt': given, 'sep': sep})
            if pos < n:
                pos = (starts + [n])[starts.index(pos) + 1] if fmt == 'stockholm' else n
        elif k < 0.75:
            seek(rng.choice([0, rng.choice(starts), rng.randrange(n + 1), n, len(junk)]))
        elif k < 0.87:
            m = rng.choice([0, 1, 5, 50, None, None])
            ops.append({'op': 'read', 'n': m})
            pos = n if m is None else min(n, pos + m)
        elif k < 0.95:
            ops.append({'op': 'readline'})
            i = text.find('\n', pos)
            pos = n if i < 0 else i + 1
        else:
            ops.append({'op': 'tell'})
    return {'kind': 'sess', 'text': text, 'hkind': rng.choice(SESS_KINDS), 'ops': ops}


# ----------------------------------------------------------------------------- _resolve_fname recursion on real directory trees

def _rt_text(ids):
    return ''.join('>%s\nACGT\n' % i for i in ids)


def r_rtree(rng):
    """A small directory tree with plain files, gzip files, files whose names contain wildcard characters, archives (holding
    sub-directories, gzip files, nested archives, members without a dot) and a file name / pattern / archive option to read."""
    cnt = [0]

    def ids():
        out = ['s%d' % (cnt[0] + i) for i in range(rng.choice([1, 1, 2]))]
        cnt[0] += len(out)
        return out

    def members(depth):
        m = {}
        for nm in rng.sample(['m.fa', 'n.fasta', 'sub/k.fa', 'sub/deep/j.fa', 'g.fa.gz', 'noext', 'in.zip', 'in.tar', 'x[2].fa', 'v1.0/seqs.fa',
                              'v1.0/r2.d/t', 'sub/README'], rng.choice([1, 2, 3, 4])):
            if nm.endswith('.gz'):
                m[nm] = {'t': 'gz', 'ids': ids()}
            elif nm.startswith('in.'):
                if depth > 0:
                    m[nm] = {'t': 'zip' if nm.endswith('zip') else 'tar', 'c': members(depth - 1)}
            else:
                m[nm] = {'t': 'file', 'ids': ids()}          # directories with a dot in their names, members without one (F49, F50)
        if not m:
            m['only.fa'] = {'t': 'file', 'ids': ids()}
        return m
    d = {}
    for nm in rng.sample(['a.fa', 'b.fa', 'c[1].fa', 'w?.fa', 'q*.fa', 'c1.fa', 'g.fa.gz', 'h.fa.gz', 'z.zip', 't.tar.gz', 'u.tgz', 'y.zip'], rng.choice([2, 3, 5, 7])):
        if nm.endswith('.fa'):
            d[nm] = {'t': 'file', 'ids': ids()}
        elif nm.endswith('.gz') and not nm.endswith('.tar.gz'):
            d[nm] = {'t': 'gz', 'ids': ids()}
        else:
            d[nm] = {'t': {'z.zip': 'zip', 'y.zip': 'zip', 't.tar.gz': 'gztar', 'u.tgz': 'gztar'}[nm], 'c': members(rng.choice([0, 1, 1, 2]))}
    e = {'blob': {'t': 'zip', 'c': members(1)}, 'blob2': {'t': 'tar', 'c': members(0)}, 'gzplain': {'t': 'gz', 'ids': ids()}, 'plain': {'t': 'file', 'ids': ids()}}
    tree = {'d': d, 'e': e}
    k = rng.random()
    arch = None
    if k < 0.3:
        arg = 'd/' + rng.choice(['*', '*.fa', '*.gz', '*.zip', '?.fa', '[ab].fa', '*.t*', 'c*', '[a-z].*', 'g*.gz', 'z*'])
    elif k < 0.5:
        arg = 'd/' + rng.choice(sorted(d))
    elif k < 0.6:
        arg = rng.choice(['**/*.fa', '*/?.zip', 'd/**/*.fa', 'nomatch*', 'd/nomatch.fa', 'e/pl*', 'd/**', '[d]*', 'd*/*.fa'])     # some also match directories
    elif k < 0.75:
        arg, arch = 'd/' + rng.choice(['*.zip', '*.tgz', 'z.zip', 'y.zip', '*']), rng.choice([True, 'zip', 'gztar', 'tar'])
    elif k < 0.9:
        arg, arch = rng.choice(['e/blob', 'e/blob2', 'e/blob*', 'e/b*']), rng.choice(['zip', 'tar', True, 'zip'])
    else:
        arg, arch = rng.choice(['e/gzplain', 'e/gz*', 'e/plain', 'd/g.fa.gz', 'd/*.gz']), rng.choice(['gz', 'gz', None])
    if rng.random() < 0.15:
        # the same files as downloads (requests.get is stubbed): data, gzip data, archives saved and resolved again
        ent = rng.choice([x for x in sorted(d) if not any(ch in x for ch in '*?[')] or ['missing.fa'])
        arg = 'http://h.example/p/' + ent + rng.choice(['', '', '?dl=1', '#frag'])
        arch = rng.choice([None, None, None, 'gz', 'zip', 'gztar', True])
    return {'kind': 'rtree', 'tree': tree, 'arg': arg, 'archive': arch, 'entry': rng.choice(['read', 'read', 'iter_', 'read+fmt'])}


def _rt_url_entry(arg):
    from urllib.parse import urlparse
    return os.path.basename(urlparse(arg).path) if '://' in arg[:10] else None


def _rt_materialise(tree, root):
    """Create the files of the tree below root (archives through shutil.make_archive, gzip files through gzip)."""
    for dname, entries in tree.items():
        _rt_fill(entries, os.path.join(root, dname), root)


def _rt_fill(entries, dirpath, scratch_root):
    os.makedirs(dirpath, exist_ok=True)
    for name, node in entries.items():
        p = os.path.join(dirpath, name)
        os.makedirs(os.path.dirname(p), exist_ok=True)
        if node['t'] == 'file':
            with open(p, 'w') as f:
                f.write(_rt_text(node['ids']))
        elif node['t'] == 'gz':
            with gzip.open(p, 'wb') as f:
                f.write(_rt_text(node['ids']).encode())
        else:
            stage = tempfile.mkdtemp(prefix='stage-', dir=os.path.join(scratch_root, '.stage'))
            _rt_fill(node['c'], stage, scratch_root)
            made = shutil.make_archive(os.path.join(stage + '-a'), node['t'], stage)
            shutil.move(made, p)
            shutil.rmtree(stage)


def _rt_setup(case, d):
    root = os.path.join(d, 'root')
    os.makedirs(os.path.join(root, '.stage'))
    _rt_materialise(case['tree'], root)
    shutil.rmtree(os.path.join(root, '.stage'))
    return root


def _rt_oracle(case):
    """What glob.glob (sorted) / shutil.unpack_archive / gzip.open answer for every name reachable from the argument, asked of the
    real functions on a materialised copy of the tree; unpack directories are named <archive name>."""
    import glob as _g
    d = tempfile.mkdtemp(prefix='C03-rto-', dir='/tmp')
    cwd0 = os.getcwd()
    try:
        root = _rt_setup(case, d)
        os.chdir(root)
        realdir, globs, unpacks, gunzips, dirs = {}, {}, [], {}, set()

        def real(n):
            if n.startswith('<'):
                depth = 0
                for j, ch in enumerate(n):
                    depth += (ch == '<') - (ch == '>')
                    if depth == 0:
                        return realdir[n[1:j]] + n[j + 1:]
            return n

        def abstract(p):
            for a, rd in sorted(realdir.items(), key=lambda kv: -len(kv[1])):
                if p.startswith(rd + '/') or p == rd:
                    return '<%s>%s' % (a, p[len(rd):])
            return p
        fmts = [None, 'zip', 'tar', 'gztar'] + ([case['archive']] if isinstance(case['archive'], str) and case['archive'] not in ('zip', 'tar', 'gztar', 'gz') else [])
        todo, seen = [case['arg']], set()
        gets, gzdecs = {}, {}
        ent = _rt_url_entry(case['arg'])
        if ent is not None:
            todo = []
            node = case['tree']['d'].get(ent)
            if node is not None:
                with open(os.path.join('d', ent), 'rb') as f:
                    payload = f.read().decode('latin-1')
                if node['t'] == 'gz':
                    gzdecs[payload] = _rt_text(node['ids'])
                # the bytes of an archive do not matter to the model (only that the download succeeds)
                gets[case['arg']] = 'ARCHIVE' if node['t'] in ('zip', 'tar', 'gztar') else payload
                realdir['dl'] = os.path.join(d, 'dl_')
                shutil.copy(os.path.join('d', ent), os.path.join(d, 'dl_' + ent))
                todo = ['<dl>' + ent]
        while todo:
            n = todo.pop(0)
            if n in seen:
                continue
            seen.add(n)
            if _g.has_magic(n):
                found = sorted(_g.glob(real(n), recursive=True))
                res = [abstract(x) for x in found]
                globs[n] = res
                dirs.update(abstract(x) for x in found if os.path.isdir(x))
                todo += res
            rp = real(n)
            node = _rt_node(case['tree'], n) if os.path.isfile(rp) else None
            if node is not None:
                # asked of the real functions for archives / gzip files; a plain text file is known to be refused by both
                for fmt in (fmts if node['t'] in ('zip', 'tar', 'gztar') else []):
                    tmp = tempfile.mkdtemp(prefix='unp-', dir=d)
                    try:
                        shutil.unpack_archive(rp, tmp, fmt)
                    except Exception:
                        shutil.rmtree(tmp, ignore_errors=True)
                        continue
                    if n in realdir:
                        shutil.rmtree(tmp, ignore_errors=True)
                    else:
                        realdir[n] = tmp
                    unpacks.append((n, fmt, '<%s>' % n))
                    todo.append('<%s>/**/*' % n)
                if node['t'] == 'gz':
                    with gzip.open(rp) as f:
                        gunzips[n] = f.read().decode('latin-1')
        return globs, sorted(dirs), unpacks, gunzips, gets, gzdecs
    finally:
        os.chdir(cwd0)
        shutil.rmtree(d, ignore_errors=True)


def _rt_node(tree, name):
    """The node of the tree an abstract name (<archive>/member nesting) denotes, or None."""
    if name.startswith('<'):
        depth = 0
        for j, ch in enumerate(name):
            depth += (ch == '<') - (ch == '>')
            if depth == 0:
                if name[1:j] == 'dl':                  # the saved download <dl><entry of d>
                    return tree['d'].get(name[j + 1:])
                arch = _rt_node(tree, name[1:j])
                return (arch or {}).get('c', {}).get(name[j + 2:])
    dname, _, rest = name.partition('/')
    return tree.get(dname, {}).get(rest)


def _rt_leaf_ids(case, leaf):
    if leaf[0] == 'data':
        return [l[1:] for l in leaf[1].split('\n') if l.startswith('>')]
    if leaf[0] == 'file':
        node = _rt_node(case['tree'], leaf[1])
        return list(node['ids']) if node and node['t'] == 'file' else ['<%s is no plain file>' % leaf[1]]
    return ['<%s>' % leaf[0]]


def _rt_readable(x, n, a):
    """Can the directory entry x (node n) be read with the archive option a, by the documented interface?"""
    isarch = x.endswith(('.zip', '.tgz', '.tar.gz'))
    if n['t'] == 'file':
        return a is None and not isarch and not x.endswith('.gz')
    if n['t'] == 'gz':
        return a == 'gz' or (a is None and x.endswith('.gz'))
    return isarch if a in (None, True) else a == n['t']


def _rt_all_ids(node):
    """Every sequence reachable in a node: archives hold what their members hold."""
    if node['t'] in ('file', 'gz'):
        return list(node['ids'])
    out = []
    for name in sorted(node['c']):
        out += _rt_all_ids(node['c'][name])
    return out


def impl_rtree(case):
    import sugar, glob as _g
    from unittest import mock
    d = tempfile.mkdtemp(prefix='C03-rt-', dir='/tmp')
    priv = os.path.join(d, 'tmp')
    os.makedirs(priv)
    cwd0, old = os.getcwd(), tempfile.tempdir
    real_glob = _g.glob
    try:
        root = _rt_setup(case, d)
        os.chdir(root)
        tempfile.tempdir = priv
        kw = {} if case['archive'] is None else {'archive': case['archive']}
        import sugar._io.main as M
        ncalls = [0]

        def sorted_glob(*a, **k):
            ncalls[0] += 1
            return sorted(real_glob(*a, **k))
        with contextlib.ExitStack() as st:
            st.enter_context(mock.patch.object(_g, 'glob', sorted_glob))
            if getattr(M, 'glob', None) is real_glob:          # `from glob import glob` instead of `import glob`
                st.enter_context(mock.patch.object(M, 'glob', sorted_glob))
            st.enter_context(mock.patch.object(sys, 'stdin', io.StringIO('')))
            import requests

            def fake_get(url, *a, **k):
                path = os.path.join(root, 'd', _rt_url_entry(url) or '')

                class R:
                    content = open(path, 'rb').read() if os.path.isfile(path) else b''

                    def raise_for_status(self):
                        if not os.path.isfile(path):
                            raise requests.HTTPError('404')
                return R()
            st.enter_context(mock.patch.object(requests, 'get', fake_get))
            if case['entry'] == 'iter_':
                seqs = list(sugar.iter_(case['arg'], **kw))
            elif case['entry'] == 'read+fmt':
                seqs = sugar.read(case['arg'], 'fasta', **kw)
            else:
                seqs = sugar.read(case['arg'], **kw)
        out = [s.id for s in seqs]
        left = [x for x in os.listdir(priv) if os.path.isdir(os.path.join(priv, x))]     # (a saved download is kept: main.py:199)
        if left:
            return 'FAIL: temporary directories left behind: %r' % left[:3]
        if not ncalls[0]:
            # glob was reached by another route than the patched attributes: its order is the file system's, compare as a multiset
            return ['<unordered>'] + sorted(out)
        return out
    finally:
        tempfile.tempdir = old
        os.chdir(cwd0)
        shutil.rmtree(d, ignore_errors=True)


# ----------------------------------------------------------------------------- plugin dispatch and kinds of file objects

DISPATCH_ENTRIES = ['read', 'iter_', 'write', 'read_fts', 'write_fts']
HK_KINDS = ['BytesIO', 'StringIO', 'open rb', 'open r', 'FileIO', 'BufferedReader', 'TextIOWrapper', 'NamedTemporaryFile b', 'NamedTemporaryFile t',
            'TemporaryFile b', 'SpooledTemporaryFile b', 'SpooledTemporaryFile t', 'SpooledTemporaryFile rolled', 'gzip rb', 'gzip rt', 'bz2 rb',
            'lzma rb', 'codecs.open', 'zip member', 'tar member', 'duck text', 'duck binary', 'pipe']
HK_TEXT = '>hk1 desc\nACGT\n>hk2\nGG\n'


class _DuckText:
    """A text stream that is no io class and has neither mode nor encoding."""
    def __init__(self, s):
        self._f = io.StringIO(s)

    def __getattr__(self, k):
        if k in ('read', 'readline', 'seek', 'tell', 'readable', 'seekable', '__iter__', 'closed'):
            return getattr(self._f, k)
        raise AttributeError(k)

    def __iter__(self):
        return iter(self._f)


class _DuckBinary:
    """A binary stream that is no io class; it says so in its mode attribute."""
    mode = 'rb'

    def __init__(self, b):
        self._f = io.BytesIO(b)

    def __getattr__(self, k):
        if k in ('read', 'read1', 'readline', 'readinto', 'seek', 'tell', 'readable', 'seekable', 'writable', 'closed', 'flush'):
            return getattr(self._f, k)
        raise AttributeError(k)


@contextlib.contextmanager
def _hk_make(kind):
    import bz2, lzma, codecs, zipfile, tarfile
    raw = HK_TEXT.encode()
    d = tempfile.mkdtemp(prefix='C03-hk-', dir='/tmp')
    p = os.path.join(d, 'f.dat')
    with open(p, 'wb') as g:
        g.write(raw)
    try:
        with contextlib.ExitStack() as st:
            if kind == 'BytesIO':
                f = io.BytesIO(raw)
            elif kind == 'StringIO':
                f = io.StringIO(HK_TEXT)
            elif kind == 'open rb':
                f = st.enter_context(open(p, 'rb'))
            elif kind == 'open r':
                f = st.enter_context(open(p, 'r'))
            elif kind == 'FileIO':
                f = st.enter_context(open(p, 'rb', buffering=0))
            elif kind == 'BufferedReader':
                f = io.BufferedReader(io.BytesIO(raw))
            elif kind == 'TextIOWrapper':
                f = io.TextIOWrapper(io.BytesIO(raw), encoding='latin-1')
            elif kind.startswith(('NamedTemporaryFile', 'TemporaryFile', 'SpooledTemporaryFile')):
                cls = getattr(tempfile, kind.split()[0])
                text = kind.endswith(' t')
                kw = {'max_size': 5 if kind.endswith('rolled') else 10 ** 6} if kind.startswith('Spooled') else {}
                f = st.enter_context(cls(mode='w+' if text else 'w+b', dir=d, **kw))
                f.write(HK_TEXT if text else raw)
                f.seek(0)
            elif kind in ('gzip rb', 'gzip rt', 'bz2 rb', 'lzma rb'):
                mod = {'gzip': gzip, 'bz2': bz2, 'lzma': lzma}[kind.split()[0]]
                with mod.open(p + '.c', 'wb') as g:
                    g.write(raw)
                f = st.enter_context(mod.open(p + '.c', kind.split()[1]))
            elif kind == 'codecs.open':
                f = st.enter_context(codecs.open(p, 'r', 'latin-1'))
            elif kind == 'zip member':
                with zipfile.ZipFile(p + '.zip', 'w') as z:
                    z.write(p, 'f.dat')
                z = st.enter_context(zipfile.ZipFile(p + '.zip'))
                f = st.enter_context(z.open('f.dat'))
            elif kind == 'tar member':
                with tarfile.open(p + '.tar', 'w') as t:
                    t.add(p, 'f.dat')
                t = st.enter_context(tarfile.open(p + '.tar'))
                f = t.extractfile('f.dat')
            elif kind == 'pipe':
                r_, w_ = os.pipe()
                with os.fdopen(w_, 'wb') as g:
                    g.write(raw)
                f = st.enter_context(os.fdopen(r_, 'rb'))
            elif kind == 'duck text':
                f = _DuckText(HK_TEXT)
            else:
                f = _DuckBinary(raw)
            yield f
    finally:
        shutil.rmtree(d, ignore_errors=True)


def _hk_facts(f):
    return [isinstance(f, (io.BufferedIOBase, io.RawIOBase)), hasattr(f, 'encoding'), 'b' in str(getattr(f, 'mode', ''))]


def impl_hkind(case):
    import sugar
    import sugar._io.main as M
    ref = _cj(sugar.read(io.BytesIO(HK_TEXT.encode())))
    with _hk_make(case['hk']) as f:
        delivers_bytes = isinstance(f.read(0), bytes)
        helper = getattr(M, '_is_binary_handle', None)          # a private name: if it is gone only the observable remains
        got = bool(helper(f)) if helper else delivers_bytes
        if case['hk'] == 'pipe':         # no tell / seek: the format must be named; the text layer cannot be put back (main.py:60-63)
            det, objs = 'fasta', sugar.read(f, 'fasta')
        else:
            det = sugar._io.detect(f)
            assert f.tell() == 0, 'detect moved the handle'
            objs = sugar.read(f)
        if _cj(objs) != ref:
            return 'FAIL: reading the %s gives %s' % (case['hk'], _cj(objs)[:200])
        if det != 'fasta':
            return 'FAIL: detect on the %s answers %r' % (case['hk'], det)
        return [got, delivers_bytes]


def impl_tool(case):
    """read / iter_ / write with the tool option: 'plugin' = sugar's own reader / writer did the job."""
    import sugar
    kw = {} if case['tool'] is None else {'tool': case['tool']}
    try:
        if case['entry'] == 'read':
            r = sugar.read(io.StringIO('>a\nA\n'), 'fasta', **kw)
            ok = [s_.id for s_ in r] == ['a']
        elif case['entry'] == 'iter_':
            ok = [s_.id for s_ in sugar.iter_(io.StringIO('>a\nA\n'), 'fasta', **kw)] == ['a']
        else:
            out = io.StringIO()
            mk_basket([{'id': 'a', 'data': 'A'}]).write(out, 'fasta', **kw)
            ok = out.getvalue() == '>a\nA\n'
    except ImportError as e:
        return 'biopython' if 'Bio' in str(e) else 'FAIL: %s' % e
    return 'plugin' if ok else 'FAIL: wrong result'


def impl_dispatch(case):
    """Which function of a stub plugin offering exactly the flagged functions is called."""
    import types, sugar
    import sugar._io.main as M
    from unittest import mock
    calls = []

    def mk(name, ret):
        def fn(*a, **k):
            calls.append(name)
            return ret()
        return fn
    r_, i_, w_, a_ = case['flags']
    ns = {}
    if case['entry'] in ('read_fts', 'write_fts'):
        if r_:
            ns['read_fts_stubfmt'] = mk('read', list)
        if w_:
            ns['write_fts_stubfmt'] = mk('write', lambda: None)
    else:
        if r_:
            ns['read_stubfmt'] = mk('read', list)
        if i_:
            ns['iter_stubfmt'] = mk('iter', lambda: iter([]))
        if w_:
            ns['write_stubfmt'] = mk('write', lambda: None)
        if a_:
            ns['append_stubfmt'] = mk('append', lambda: None)
    fake = types.SimpleNamespace(**ns)

    class Eps:
        def __init__(self, eps):
            self.eps = eps

        def __getitem__(self, fmt):
            return types.SimpleNamespace(load=lambda: fake) if fmt == 'stubfmt' else self.eps[fmt]
    with mock.patch.object(M, 'EPS', {k: Eps(v) for k, v in M.EPS.items()}):
        e = case['entry']
        if e == 'read':
            sugar.read(io.StringIO('x'), 'StubFmt')
        elif e == 'iter_':
            list(sugar.iter_(io.StringIO('x'), 'stubfmt'))
        elif e == 'read_fts':
            sugar.read_fts(io.StringIO('x'), 'stubfmt')
        elif e == 'write':
            mk_basket([{'id': 'a', 'data': 'A'}, {'id': 'b', 'data': 'C'}]).write(io.StringIO(), 'stubfmt', mode=case['mode'])
        else:
            mk_fts([{'type': 'CDS', 'start': 0, 'stop': 5, 'strand': '+'}]).write(io.StringIO(), 'STUBFMT', mode=case['mode'])
    kinds = sorted(set(calls))
    if len(kinds) != 1 or (kinds == ['append'] and len(calls) != 2) or (kinds != ['append'] and len(calls) != 1):
        return 'FAIL: calls %r' % calls
    return kinds[0]


# ----------------------------------------------------------------------------- write into an archive, read it back

WR_NAMES = ['data.fasta', 'data.fa', 'dir.d/data.fasta', 'a.b.c', 'x.v2', 'data', 'dir.d/data', '.hidden.fa', '.hidden', 'x.fa.gz', 'x.gz',
            'x.zip', 'y.tar', 'x[1].fa', 'w*.fa', 'q?', 'a b.fa', 'x.', '..fa', 'data.FASTA', 'x.tgz']
WR_ARCH = {'zip': 'zip', 'tar': 'tar', 'gztar': 'tar.gz', 'bztar': 'tar.bz2', 'xztar': 'tar.xz'}


def impl_wround(case):
    """objs.write(name, fmt, archive=arch) in a private directory, then read(name + extension of the archive type)."""
    import sugar
    what = case['what']
    obj = mk_basket([{'id': 'a', 'data': 'ACGT'}, {'id': 'b', 'data': 'GG'}]) if what == 'seqs' else \
        mk_fts([{'type': 'CDS', 'start': 0, 'stop': 5, 'strand': '+'}])
    rd = sugar.read if what == 'seqs' else sugar.read_fts
    fmt = 'fasta' if what == 'seqs' else 'gff'
    ref = _cj(rd(io.StringIO(obj.tofmtstr(fmt))))
    d = tempfile.mkdtemp(prefix='C03-wr-', dir='/tmp')
    cwd0 = os.getcwd()
    try:
        os.makedirs(os.path.join(d, 'dir.d'))
        os.chdir(d)
        obj.write(case['name'], fmt, archive=case['arch'])
        target = case['name'] + '.' + WR_ARCH[case['arch']]
        made = sorted(os.path.relpath(os.path.join(r_, x), d) for r_, _, fs in os.walk(d) for x in fs)
        assert made == [os.path.normpath(target)], 'write created %r, expected %r' % (made, target)
        try:
            back = rd(target)
        except Exception as e:
            return False
        return _cj(back) == ref or 'FAIL: read back another object'
    finally:
        os.chdir(cwd0)
        shutil.rmtree(d, ignore_errors=True)

def r_history_alternating(rng):
    """Detection must not depend on what was detected before: contents of neighbouring formats (the pairs the chain order
    separates) detected alternately on fresh and on shared handles, then read."""
    pairs = [('mmseqs0', 'blast6'), ('mmseqs0', 'blast7'), ('blast6', 'mmseqs0'), ('mmseqs4', 'blast6'), ('infernal1', 'mmseqs0'),
             ('genbank', 'blast6'), ('mmseqs0', 'genbank')]
    if rng.random() < 0.7:
        ka, kb = rng.choice(pairs)
        items = [(synth(rng, ka), 'fts', {}), (synth(rng, kb), 'fts', {})]
    else:
        items = []
        for _ in range(2):
            w = r_writer_case(rng)
            w.pop('kw', None)
            items.append((write_content(w), w['what'], {}))
    if rng.random() < 0.3:
        items.append((synth(rng, rng.choice([k for k in SYNTH if k not in ('blast6low', 'blast10')])), 'fts', {}))
    texts = [c for c, _, _ in items]
    handles = [{'kind': rng.choice(['bytes', 'str']), 't': i} for i in range(len(texts))]
    order = list(range(len(texts)))
    seq = order + order[::-1] + [0] + [rng.randrange(len(texts)) for _ in range(rng.choice([0, 2, 4]))]
    steps = []
    for i in seq:
        what = items[i][1] if rng.random() < 0.85 else rng.choice(['seqs', 'fts'])
        if rng.random() < 0.5:
            steps.append({'op': 'detect_fresh', 'h': i, 't': i, 'kind': rng.choice(['bytes', 'str']), 'what': what, 'sep': None, 'outfmt': None, 'offset': 0})
        elif rng.random() < 0.7:
            steps.append({'op': 'detect', 'h': i, 'what': what, 'sep': None, 'outfmt': None, 'offset': 0})
        else:
            steps.append({'op': 'read', 'h': i, 'what': items[i][1], 'rkw': {}})
    return {'kind': 'hist', 'texts': texts, 'handles': handles, 'steps': steps}


# ----------------------------------------------------------------------------- case generation

HKINDS = ['bytes', 'str', 'fileb', 'filet', 'path', 'Path']


def _sig(case):
    import hashlib
    return hashlib.sha1(json.dumps([case['content'], case['offset'], case['what'], case.get('sep'), case.get('outfmt')]).encode()).hexdigest()[:12]


def _pristine(case):
    """False once the shrinker has altered the content: the claimed origin / expectation then no longer applies."""
    return case.get('_sig') == _sig(case)


def detect_case(rng, content, what, origin='', expect=None, opts=None, prefix=True):
    c = _detect_case(rng, content, what, origin, expect, opts, prefix)
    c['_sig'] = _sig(c)
    return c


def _detect_case(rng, content, what, origin='', expect=None, opts=None, prefix=True):
    c = {'kind': 'detect', 'what': what, 'content': content, 'origin': origin, 'expect': expect,
         'sep': None, 'outfmt': None, 'offset': 0, 'h': rng.choice(HKINDS)}
    if opts:
        c.update(opts)
    if prefix and c['h'] not in ('path', 'Path') and rng.random() < 0.35:
        junk = rng.choice(['xx', '>junk\n', 'LOCUS', '# STOCKHOLM 1.0\n', '\n', '##gff-version 3\nq\t', 'a' * 37])
        c['content'] = junk + content
        c['offset'] = len(junk)
    return c


def gen_cases(rng, tier):
    cases = []
    thorough = tier == 'thorough'
    # --- writer outputs
    nw = 2500 if thorough else 260
    for _ in range(nw):
        w = r_writer_case(rng)
        try:
            content = write_content(w)
        except Exception as e:                       # a writer that fails on an in-domain object is reported by the case itself
            cases.append({'kind': 'writerfail', 'w': w, 'err': type(e).__name__})
            continue
        opts = {}
        cases.append(detect_case(rng, content, w['what'], origin=w['fmt'], expect=w['fmt'], opts=dict(opts, w=w)))
        if w['what'] == 'seqs' and w['fmt'] == 'gff' and rng.random() < 0.5:
            # a GFF file with sequences is also a feature file
            cases.append(detect_case(rng, content, 'fts', origin='gff', expect='gff'))
        if w['fmt'] == 'csv' and rng.random() < 0.3:
            # documented quirk: with sep=',' the tsv sniffer (earlier in the chain) accepts the csv file
            cases.append(detect_case(rng, content, 'fts', origin='csv', expect=None, opts={'sep': ','}))
        if rng.random() < 0.5:
            cases.append(detect_case(rng, mutate(rng, content), rng.choice(['seqs', 'fts']) if rng.random() < 0.2 else w['what']))
    # --- synthetic read-only formats
    ns = 2500 if thorough else 220
    for _ in range(ns):
        kind = rng.choice(SYNTH)
        content = synth(rng, kind)
        opts = {'sep': ','} if kind == 'blast10' else {}
        what = rng.choice(['seqs', 'fts']) if kind == 'genbank' else 'fts'
        cases.append(detect_case(rng, content, what, origin=SHAPE_NAME.get(kind, kind), expect=SYNTH_FMT[kind], opts=opts))
        if kind in ('blast6', 'mmseqs0') and rng.random() < 0.25:
            of = ('qseqid sseqid pident length mismatch gapopen qstart qend sstart send evalue bitscore' if kind == 'blast6' else
                  'query target fident alnlen mismatch gapopen qstart qend tstart tend evalue bits')
            if rng.random() < 0.3:
                of = rng.choice(['qseqid sseqid', of + ' nonsense', of.replace('send', 'sstrand'), 'query target pident alnlen mismatch gapopen '
                                 'qstart qend tstart tend evalue bits', ' '.join(of.split()[::-1])])
            cases.append(detect_case(rng, content, 'fts', opts={'outfmt': of}))
        if rng.random() < 0.4:
            cases.append(detect_case(rng, mutate(rng, content), 'fts', opts=opts if rng.random() < 0.5 else {}))
        if kind == 'blast10' and rng.random() < 0.3:
            cases.append(detect_case(rng, content, 'fts'))            # without sep: nothing accepts it
    # --- sniffers called WITH reader options: column selections given by outfmt= (with and without identity / e-value columns)
    for _ in range(2000 if thorough else 260):
        t = synth_sub(rng)
        o = {'sep': t['sep'] if (t['sep'] == ',' or rng.random() < 0.5) else None, 'outfmt': t['outfmt']}
        cases.append(detect_case(rng, t['content'], 'fts', origin='', expect=t['tool'] if t['ok'] else None, opts=o))
        r = rng.random()
        if r < 0.15:      # the other tool's vocabulary / a mutated table / no outfmt
            cases.append(detect_case(rng, mutate(rng, t['content']), 'fts', opts=o))
        elif r < 0.3:
            cases.append(detect_case(rng, t['content'], 'fts', opts={'sep': o['sep']}))
        elif r < 0.4:
            cases.append(detect_case(rng, t['content'], 'fts', opts=dict(o, outfmt=' '.join(t['outfmt'].split()[:-1]))))
    # --- adversarial
    na = 9000 if thorough else 900
    for _ in range(na):
        content = r_adversarial(rng)
        opts = {}
        if rng.random() < 0.25:
            opts['sep'] = rng.choice([',', '\t', ' ', ';'])
        cases.append(detect_case(rng, content, rng.choice(['seqs', 'fts', 'fts']), opts=opts))
    # --- histories: several calls in one process on shared handles / objects / option dicts (state independence)
    for _ in range(1500 if thorough else 260):
        cases.append(r_history(rng))
    for _ in range(600 if thorough else 60):
        cases.append(r_history_alternating(rng))
    # --- renderer models of the soundness theorems against the real writers / the synthetic renderers
    for _ in range(1200 if thorough else 150):
        k = rng.choice(['tsv', 'csv', 'tsv', 'csv', 'fasta', 'stockholm', 'gff', 'hits'])
        if k in ('tsv', 'csv'):
            keys = rng.choice(['type start stop strand', 'start stop', 'type start len', 'seqid type start stop strand name', 'stop len type',
                               'name start stop', 'locus start stop', 'len stop'])
            cases.append({'kind': 'render', 'fmt': k, 'obj': r_fts(rng) * rng.choice([1, 1, 1, 30]), 'keys': keys})
        elif k == 'fasta':
            cases.append({'kind': 'render', 'fmt': k, 'obj': r_basket(rng)})
        elif k == 'stockholm':
            cases.append({'kind': 'render', 'fmt': k, 'obj': r_basket(rng, aligned=True)})
        elif k == 'gff':
            cases.append({'kind': 'render', 'fmt': k, 'obj': r_fts(rng), 'header': rng.choice([None, '#!x y\n'])})
        else:
            kind = rng.choice(['blast6', 'blast10', 'mmseqs0', 'blast6low'])
            n = rng.choice([1, 2, 5, 40])
            rows = [_hit(rng, frac=(kind == 'mmseqs0'), lowid=(kind == 'blast6low')) for _ in range(n)]
            cases.append({'kind': 'render', 'fmt': 'hits', 'sep': ',' if kind == 'blast10' else '\t', 'rows': rows})
    for _ in range(600 if thorough else 90):
        k = rng.choice(['mmseqs4', 'blast7', 'infernal'])
        n = rng.choice([1, 2, 5])
        if k == 'mmseqs4':
            names = 'query target fident alnlen mismatch gapopen qstart qend tstart tend evalue bits'.split()
            parse = True
            if rng.random() < 0.3:
                names = rng.sample(MMSEQS_OPT + ['qstart', 'qend', 'tstart', 'tend', 'query', 'target'], rng.choice([1, 3, 4, 6]))
                parse = False
            cases.append({'kind': 'render', 'fmt': k, 'names': names, 'rows': [_hit(rng, frac=True)[:len(names)] for _ in range(n)], 'parse': parse})
        elif k == 'blast7':
            prog = rng.choice(['BLASTN', 'TBLASTN', 'BLASTP', 'blastn', 'MEGABLAST'])
            comments = ['# Query: q1 ' + rng.choice(['', 'some description']), '# Database: db.fasta',
                        '# Fields: query id, subject id, % identity, alignment length, mismatches, gap opens, q. start, q. end, s. start, '
                        's. end, evalue, bit score', '# %d hits found' % n][:rng.choice([4, 4, 4, 2, 0])]
            cases.append({'kind': 'render', 'fmt': k, 'prog': prog, 'ver': rng.choice(['2.15.0+', '2.9.0+']), 'comments': comments,
                          'rows': [_hit(rng) for _ in range(n)], 'parse': len(comments) == 4})
        else:
            text = synth(rng, 'infernal' + rng.choice('123'))
            ls = text.split('\n')
            cases.append({'kind': 'render', 'fmt': k, 'l0': ls[0], 'l1': ls[1], 'lines': [x for x in ls[2:] if x], 'parse': True})
    # --- fmt given / omitted: which plugin reads the handle from where
    for _ in range(1500 if thorough else 200):
        r = rng.random()
        if r < 0.5:
            w = r_writer_case(rng)
            w.pop('kw', None)
            content, what, fmt, sep = write_content(w), w['what'], w['fmt'], None
        elif r < 0.9:
            kind = rng.choice([k for k in SYNTH if k != 'blast6low'])
            content, what, fmt, sep = synth(rng, kind), 'fts', SYNTH_FMT[kind], (',' if kind == 'blast10' else None)
        else:
            content, what, fmt, sep = rng.choice(['xyz\n', 'no format here', '12 34\n']), rng.choice(['seqs', 'fts']), None, None
        junk = rng.choice(['', '', 'JUNK\n', '>x\n'])
        cases.append({'kind': 'plan', 'what': what, 'content': junk + content, 'offset': len(junk), 'h': rng.choice(['bytes', 'str']), 'sep': sep,
                      'fmt': rng.choice([None, None, fmt, fmt.upper() if fmt else None])})
    # --- what sugar writes into an archive, sugar reads back (names with / without a dot, hidden, named like archives, wildcards)
    for name in WR_NAMES:
        for arch in (sorted(WR_ARCH) if thorough else [rng.choice(sorted(WR_ARCH)), 'zip']):
            cases.append({'kind': 'wround', 'what': rng.choice(['seqs', 'fts']), 'name': name, 'arch': arch})
    # --- plugin dispatch: every subset of plugin functions x entry point x mode; every kind of file object
    for e in DISPATCH_ENTRIES:
        for bits in range(16):
            flags = [bool(bits & 1), bool(bits & 2), bool(bits & 4), bool(bits & 8)]
            if e in ('read_fts', 'write_fts') and (flags[1] or flags[3]):
                continue
            for mode in (['w', 'a', 'wb', 'x', 'aw', 'r+'] if e == 'write' else ['w', 'a'] if e == 'write_fts' else ['r']):
                cases.append({'kind': 'dispatch', 'entry': e, 'flags': flags, 'mode': mode})
    for hk in HK_KINDS:
        cases.append({'kind': 'hkind', 'hk': hk})
    for e in ('read', 'iter_', 'write'):
        for tool in (None, '', 'biopython', 'Biopython', 'biopython ', 'x', 'sugar'):
            cases.append({'kind': 'tool', 'entry': e, 'tool': tool})
    # --- the recursion of _resolve_fname on real directory trees
    for _ in range(1200 if thorough else 100):
        cases.append(r_rtree(rng))
    # --- sessions: histories of calls on one handle of seven kinds
    for _ in range(1500 if thorough else 200):
        cases.append(r_session(rng))
    # --- the command-line converter on real files
    for _ in range(1500 if thorough else 170):
        cases.append(r_cli_case(rng))
    # --- a binary third-party plugin in front of the chain is skipped for text handles
    for _ in range(300 if thorough else 40):
        content = rng.choice([synth(rng, rng.choice(SYNTH)), r_adversarial(rng), 'ATG' + r_adversarial(rng), write_content(r_writer_case(rng))])
        c = detect_case(rng, content, rng.choice(['seqs', 'fts']))
        c['h'] = rng.choice(['str', 'filet'])
        c['binplugin'] = True
        c['_sig'] = _sig(c)
        cases.append(c)
    # --- detect_ext
    import sugar._io.util as U
    exts = set(['gb', 'txt', 'FASTA', 'gz', 'tar.gz', '', 'f', 'fast', 'gff3', 'jsonl', 'stk ', 'Fa'])
    for what in ('seqs', 'fts'):
        suf = '' if what == 'seqs' else '_fts'
        for fmt in U.FMTS_ALL[what]:
            m = U.EPS[what][fmt].load()
            exts.update(getattr(m, 'filename_extensions%s_%s' % (suf, fmt), []))
    exts = sorted(exts)
    stems = ['a', 'dir/a', '/tmp/x.y/a', 'a.b', '.', '..', '.hidden', 'dir.d/', 'a.fasta', '...', 'x/.', '', 'a b', 'd/.a.b', '..a', 'a..']
    ne = 1500 if thorough else 250
    for stem in stems:
        for ext in exts:
            for what in ('seqs', 'fts'):
                for j in ('.', ''):
                    cases.append({'kind': 'ext', 'what': what, 'fname': stem + j + ext})
    rng.shuffle(cases)   # keep kinds interleaved so that shards have similar cost
    extc = [c for c in cases if c['kind'] == 'ext']
    cases = [c for c in cases if c['kind'] != 'ext'] + extc[:ne]
    # --- resolve
    nr = 1500 if thorough else 250
    names = ['a.fasta', 'a.fasta.gz', 'a.gz', 'x.zip', 'x.tar.gz', 'x.tgz', 'x.tar', 'x.tar.bz2', 'x.txz', 'x.tbz2', 'x.tar.xz', 'd/y.fa.tgz', 'q.gff.tbz2', 'zip', 'a.zip.fasta', 'gz',
             '-', '--', '- ', 'http://h/a.fa', 'ftp://h/a', 'a://', 'http://h/d/a.fa', 'https://h.org/x/y.fasta.gz', 'http://h/a.zip',
             'ftp://h/p/q.tar.gz?dl=1', 'http://h/a*.zip', 'http://h', 'http://h/', 'file:///tmp/x.gz#frag', 'http://h/x.gff', 'x+y://h/a.tgz#f?g',
             'http://h/a.zip?x=/b.fa', 'HTTP://H/A.GZ', 'a.b://h/c.gz/', 'http://h?q.zip', '0123456://x', '01234567://x', '012345678://x', 'a*.fa', 'a?.gz',
             'a[1].zip', 'a].fa', '*', 'd/**/x.*', '!data/example.gb', '!data/x.gz', '!data/*.gb', '!data/a.zip', '!dat/x', 'x!data/y',
             'a.GZ', 'a.gz ', '.gz', '.zip', 'dir.zip/a.fa', 'a.fasta.', 'tar.gz', 'x.tar.gzz', 'Xzip', '']
    archs = [None, None, None, True, 'gz', 'zip', 'tar', 'gztar', 'GZ', '']
    for _ in range(nr):
        t = rng.choice(['str', 'str', 'str', 'str', 'Path', 'none', 'bytes', 'handle'])
        nm = rng.choice(names)
        if rng.random() < 0.3:
            nm = rng.choice(['', 'd/', '/tmp/q.zip/']) + nm + rng.choice(['', '.gz', '.zip', '.fa'])
        if t == 'Path' and nm == '':
            nm = 'p'
        cases.append({'kind': 'resolve', 'ft': t, 'name': nm if t in ('str', 'Path') else None, 'archive': rng.choice(archs),
                      'entry': rng.choice(['read', 'iter_', 'read_fts']), 'fmt': rng.choice([None, 'auto']),
                      'glob': rng.choice(['raise', 'raise', 'empty'])})
    # --- detect_ext on non-string arguments, and the write-side decision
    wnames = ['a.fasta', 'd/a.fa', 'a.stk', 'x.gff', 'x.tsv', 'x.csv', 'a.sjson', 'a.json', 'a.txt', 'a', 'a.FASTA', 'd.fasta/', 'a.fasta.gz',
              '.fasta', 'a.b.gff', 'q/.gff', '']
    for _ in range(nr // 2):
        what = rng.choice(['seqs', 'fts'])
        t = rng.choice(['str', 'str', 'Path', 'none', 'handle', 'bytes'])
        nm = rng.choice(wnames)
        if t == 'Path' and nm == '':
            nm = 'p'
        cases.append({'kind': 'extarg', 'what': what, 'ft': t, 'name': nm if t in ('str', 'Path') else None})
        t = rng.choice(['str', 'str', 'str', 'Path', 'none', 'handle'])
        fmts = [None, None, 'fasta', 'FASTA', 'stockholm', 'sjson', 'Gff'] if what == 'seqs' else [None, None, 'gff', 'tsv', 'CSV', 'Tsv']
        arch = rng.choice([None, None, None, True, 'zip', 'gztar', 'tar'])
        if arch is not None and nm.endswith('/'):
            nm = nm + 'x.gff'          # the target inside the temporary directory must be a file name
        cases.append({'kind': 'wresolve', 'what': what, 'ft': t, 'name': (nm or 'p') if t in ('str', 'Path') else None,
                      'fmt': rng.choice(fmts), 'archive': arch})
    # --- kwargs
    nk = 1500 if thorough else 250
    keys = ['header', 'keys', 'sep', 'comments', 'foo', 'mode', 'tool', 'encoding', 'archive', 'fname', 'fmt', 'index', 'Mode']
    for _ in range(nk):
        what = rng.choice(['seqs', 'fts'])
        entry = rng.choice(['write', 'tofmtstr', 'objwrite'] + (['objtofmtstr'] if what == 'seqs' else []))
        ks = rng.sample(keys, rng.choice([0, 1, 2, 3, 5]))
        if entry in ('write', 'objwrite'):
            ks = [k for k in ks if k not in ('fname', 'fmt')]       # these are the explicit parameters of write()
        kw = []
        for k in ks:
            v = {'mode': 'w', 'tool': rng.choice([None, '']), 'encoding': rng.choice([None, 'utf8']), 'archive': None,
                 'fname': None, 'fmt': 'stockholm'}.get(k, rng.choice(['x', '#h\n', 'type start', 7, None, True]))
            kw.append([k, v])
        cases.append({'kind': 'kw', 'what': what, 'entry': entry, 'kw': kw})
    return cases


# ----------------------------------------------------------------------------- implementation drivers

class _Dec(Exception):
    def __init__(self, d):
        self.d = d


def impl_detect(case):
    if case.get('binplugin'):
        import types
        import sugar._io.main as M
        from unittest import mock
        fake = types.SimpleNamespace(binary_fmt=True, binary_fmt_fts=True, is_bintest=lambda f, **kw: f.read(3) == b'ATG',
                                     is_fts_bintest=lambda f, **kw: f.read(3) == b'ATG')

        class Eps:
            def __init__(self, eps):
                self.eps = eps

            def __getitem__(self, fmt):
                return types.SimpleNamespace(load=lambda: fake) if fmt == 'bintest' else self.eps[fmt]
        with mock.patch.object(M, 'EPS', {k: Eps(v) for k, v in M.EPS.items()}), \
             mock.patch.object(M, 'FMTS_ALL', {k: ['bintest'] + list(v) for k, v in M.FMTS_ALL.items()}):
            return _impl_detect(case)
    return _impl_detect(case)


def _impl_detect(case):
    from sugar._io import detect
    from pathlib import Path
    content, off, h = case['content'], case['offset'], case['h']
    kw = {}
    if case.get('sep') is not None:
        kw['sep'] = case['sep']
    if case.get('outfmt') is not None:
        kw['outfmt'] = case['outfmt']
    raw = content.encode('latin-1')
    tmp = None
    try:
        if h == 'bytes':
            f = io.BytesIO(raw)
        elif h == 'str':
            f = io.StringIO(content, newline='')
        else:
            fd, tmp = tempfile.mkstemp(prefix='C03-', suffix='.dat', dir='/tmp')
            with os.fdopen(fd, 'wb') as g:
                g.write(raw)
            if h == 'path':
                return [detect(tmp, case['what'], **kw), 0, True]
            if h == 'Path':
                # detect() itself takes str or file-like; Path objects are converted by the read()/write() wrappers
                return [detect(str(Path(tmp)), case['what'], **kw), 0, True]
            f = open(tmp, 'rb') if h == 'fileb' else open(tmp, 'r', newline='', encoding='latin-1')
        try:
            f.seek(off)
            before = f.tell()
            fmt = detect(f, case['what'], **kw)
            after = f.tell()
            assert not f.closed, 'detect closed the caller\'s handle'
            if after == before:
                # the handle must still be usable and deliver the rest
                rest = f.read()
                rest = rest.decode('latin-1') if isinstance(rest, bytes) else rest
                assert rest == content[off:], 'handle does not deliver the remaining content after detect'
            return [fmt, after - before + off, True]
        finally:
            f.close()
    finally:
        if tmp and os.path.exists(tmp):
            os.remove(tmp)


def impl_ext(case):
    from sugar._io import detect_ext
    return detect_ext(case['fname'], case['what'])


def _datadir():
    from importlib.resources import files
    p = str(files('sugar.tests.data').joinpath('x'))
    assert p.endswith('/x')
    return p[:-2]


def _fname_arg(case, content=None):
    from pathlib import PurePosixPath
    t = case['ft']
    if t == 'str':
        return case['name']
    if t == 'Path':
        return PurePosixPath(case['name'])
    if t == 'none':
        return None
    if t == 'bytes':
        return b'>a\nA\n'
    return io.StringIO(content or '')


def impl_resolve(case):
    import sugar, glob as _glob
    import sugar._io.main as M
    from unittest import mock
    import requests

    def raiser(tag, n=1):
        def f(*a, **k):
            raise _Dec([tag] + [x for x in a[:1]] + ([a[2] if len(a) > 2 else k.get('format')] if n == 2 else []))
        return f

    class FakeStdin:
        class buffer:
            @staticmethod
            def read():
                raise _Dec(['stdin'])
    content = '>a\nACGT\n' if case['entry'] != 'read_fts' else '##gff-version 3\nx\t.\tCDS\t1\t5\t.\t+\t.\tID=a\n'

    class FakeResponse:
        content = None

        def raise_for_status(self):
            pass
    FakeResponse.content = content.encode()
    urls = []

    def fake_get(url, *a, **k):
        urls.append(url)
        return FakeResponse()

    def fake_glob(pattern, *a, **k):
        if case.get('glob') == 'empty':
            return []
        raise _Dec(['glob', pattern])
    tmpnames = []
    real_ntf = tempfile.NamedTemporaryFile

    def fake_ntf(*a, **k):
        f = real_ntf(*a, dir='/tmp', prefix='C03-', **k)
        tmpnames.append(f.name)
        return f
    arg = _fname_arg(case, content)
    kw = {}
    if case['archive'] is not None:
        kw['archive'] = case['archive']
    fn = {'read': sugar.read, 'iter_': sugar.iter_, 'read_fts': sugar.read_fts}[case['entry']]
    fmt = None if case['fmt'] == 'auto' else ('gff' if case['entry'] == 'read_fts' else 'fasta')
    try:
        with mock.patch.object(_glob, 'glob', fake_glob), \
             mock.patch.object(shutil, 'unpack_archive', raiser('archive', 2)), \
             mock.patch.object(gzip, 'open', raiser('gz')), \
             mock.patch.object(gzip, 'decompress', raiser('urlgz', 0)), \
             mock.patch.object(M, 'open', raiser('plain'), create=True), \
             mock.patch.object(sys, 'stdin', FakeStdin), \
             mock.patch.object(tempfile, 'NamedTemporaryFile', fake_ntf), \
             mock.patch.object(requests, 'get', fake_get):
            try:
                r = fn(arg, fmt, **kw) if arg is not None or fmt or kw else fn()
                if case['entry'] == 'iter_':
                    r = list(r)
                if urls:
                    return ['url', 'data'] if len(r) == 1 else ['url', 'returned %d' % len(r)]
                return ['handle'] if case['ft'] == 'handle' and len(r) == 1 else ['returned']
            except _Dec as e:
                d = e.d
                if urls:
                    if d[0] == 'urlgz':
                        return ['url', 'gz']
                    # the download was saved as /tmp/C03-<8 random characters><bname> and resolved again
                    assert len(tmpnames) == 1 and d[1] == tmpnames[0], (d, tmpnames)
                    bname = os.path.basename(d[1])[len('C03-') + 8:]
                    return ['url', d[0], bname] + d[2:]
                return d
    finally:
        for t in tmpnames:
            if os.path.exists(t):
                os.remove(t)


def impl_extarg(case):
    from sugar._io import detect_ext
    return detect_ext(_fname_arg(case), case['what'])


def _first_archive():
    return shutil.get_archive_formats()[0][0]


def impl_wresolve(case):
    import sugar._io.main as M
    from unittest import mock
    what = case['what']
    obj = mk_basket([{'id': 'a', 'data': 'ACGT'}]) if what == 'seqs' else mk_fts([{'type': 'CDS', 'start': 0, 'stop': 5, 'strand': '+'}])
    used = []

    class Rec:
        def __init__(self, eps):
            self.eps = eps

        def __getitem__(self, fmt):
            used.append(fmt)
            return self.eps[fmt]

    def fake_open(name, *a, **k):
        raise _Dec(['file', name])

    def fake_make_archive(name, arch, root, *a, **k):
        assert len(os.listdir(root)) == 1, 'exactly one file is packed'
        raise _Dec(['archive', name, arch, os.listdir(root)[0]])
    arg = _fname_arg(case)
    kw = {}
    if case['archive'] is not None:
        kw['archive'] = case['archive']
    real_binary = M._binary
    chosen = []

    def rec_binary(module, *a, **k):
        # write()/write_fts() call _binary(module) once, right after loading the plugin of the chosen format
        if not chosen:
            chosen.append(used[-1])
        return real_binary(module, *a, **k)
    patches = [mock.patch.object(M, 'EPS', {k: Rec(v) for k, v in M.EPS.items()}),
               mock.patch.object(M, '_binary', rec_binary),
               mock.patch.object(shutil, 'make_archive', fake_make_archive)]
    if case['archive'] is None:
        patches.append(mock.patch.object(M, 'open', fake_open, create=True))
    with contextlib.ExitStack() as st:
        for p_ in patches:
            st.enter_context(p_)
        try:
            r = obj.write(arg, case['fmt'], **kw)
        except _Dec as e:
            d = e.d
            if d[0] == 'archive':
                assert d[3] == os.path.basename(d[1]), 'the packed file is named like the target'
                return d[:3] + chosen[:1]
            return d + chosen[:1]
        if arg is None:
            assert isinstance(r, str) and r
            return ['tostr'] + chosen[:1]
        assert arg.getvalue(), 'nothing written to the handle'
        return ['handle'] + chosen[:1]


def impl_kw(case):
    import sugar._io.stockholm as ST
    import sugar._io.gff as GF
    from unittest import mock
    got = []

    def rec(objs, f, **kw):
        got.append(kw)
    kw = {k: v for k, v in case['kw']}
    what, entry = case['what'], case['entry']
    if what == 'seqs':
        obj = mk_basket([{'id': 'a', 'data': 'ACGT'}])
        target, fmt = (ST, 'write_stockholm'), 'stockholm'
    else:
        obj = mk_fts([{'type': 'CDS', 'start': 0, 'stop': 5, 'strand': '+'}])
        target, fmt = (GF, 'write_fts_gff'), 'gff'
    one = obj[0]
    with mock.patch.object(target[0], target[1], rec):
        if entry == 'write':
            obj.write(fname=io.StringIO(), fmt=fmt, **kw)
        elif entry == 'tofmtstr':
            obj.tofmtstr(fmt, **kw)
        elif entry == 'objwrite':
            one.write(fname=io.StringIO(), fmt=fmt, **kw)
        else:
            one.tofmtstr(fmt, **kw)
    assert len(got) == 1, 'plugin writer called %d times' % len(got)
    return [[k, json.dumps(v)] for k, v in got[0].items()]


def _xsv_rows(case):
    """Field texts of the feature table, from first principles: start/stop of the feature range, len, strand, else metadata;
    missing values are empty."""
    rows = []
    for f in case['obj']:
        row = []
        for k in case['keys'].split():
            v = {'start': f['start'], 'stop': f['stop'], 'len': f['stop'] - f['start'], 'strand': f['strand']}.get(k, f.get(k))
            row.append('' if v is None else str(v))
        rows.append(row)
    return rows


def _fasta_recs(case):
    recs = []
    for s_ in case['obj']:
        hd = ''
        if 'header' in s_:
            rest = s_['header'][len(s_['id']):] if s_['header'].startswith(s_['id']) else s_['header']
            hd = (' ' + rest.lstrip()).rstrip()
        recs.append([s_['id'], hd, s_['data']])
    return recs


def impl_render(case):
    fmt = case['fmt']
    if fmt in ('tsv', 'csv'):
        return mk_fts(case['obj']).tofmtstr(fmt, keys=case['keys'])
    if fmt == 'fasta':
        return mk_basket(case['obj']).tofmtstr('fasta')
    if fmt == 'stockholm':
        return mk_basket(case['obj']).tofmtstr('stockholm')
    if fmt == 'gff':
        kw = {'header': case['header']} if case.get('header') else {}
        return mk_fts(case['obj']).tofmtstr('gff', **kw)
    if fmt == 'hits':
        # the synthetic hit-table renderer of this harness
        return ''.join(case['sep'].join(r) + '\n' for r in case['rows'])
    import sugar
    if fmt == 'mmseqs4':
        text = '\t'.join(case['names']) + '\n' + ''.join('\t'.join(r) + '\n' for r in case['rows'])
        n = len(case['rows'])
    elif fmt == 'blast7':
        text = ''.join(l + '\n' for l in ['# %s %s' % (case['prog'], case['ver'])] + case['comments']) + ''.join('\t'.join(r) + '\n' for r in case['rows'])
        n = len(case['rows'])
    else:
        text = ''.join(l + '\n' for l in [case['l0'], case['l1']] + case['lines'])
        n = len([l for l in case['lines'] if not l.startswith('#')])
    if case.get('parse'):
        # the real reader, format omitted, must find exactly the rendered hits
        fts = sugar.read_fts(io.StringIO(text))
        want = {'mmseqs4': 'mmseqs', 'blast7': 'blast', 'infernal': 'infernal'}[fmt]
        assert len(fts) == n and all(ft.meta._fmt == want for ft in fts), 'real reader: %d features, formats %r' % (len(fts), set(ft.meta._fmt for ft in fts))
    return text


def impl_plan(case):
    import sugar
    rd = sugar.read if case['what'] == 'seqs' else sugar.read_fts
    kw = {'sep': case['sep']} if case.get('sep') else {}
    f = _mk_handle(case['h'], case['content'])
    f.seek(case['offset'])
    objs = rd(f, case['fmt'], **kw)
    assert len(objs) > 0
    used = set(o.meta._fmt for o in objs)
    assert len(used) == 1, used
    used = used.pop()
    # the plugin must have read exactly the rest of the handle: same object as a fresh handle over the rest with that format
    ref = rd(_mk_handle('bytes', case['content'][case['offset']:]), used, **kw)
    return [used, case['offset'] if _cj(objs) == _cj(ref) else -1]



def impl_cli(case):
    """sugar.scripts.cli(['convert'|'convertf', <file>, -f, -o, -fo]) in a private directory (cwd, stdin, stdout isolated)."""
    import sugar
    from sugar.scripts import cli
    from unittest import mock
    what = case['what']
    cmd = 'convert' if what == 'seqs' else 'convertf'
    rd_name = 'read' if what == 'seqs' else 'read_fts'
    real_rd = getattr(sugar, rd_name)
    d = tempfile.mkdtemp(prefix='C03-cli-', dir='/tmp')
    cwd0 = os.getcwd()
    try:
        os.makedirs(os.path.join(d, 'in'))
        work = os.path.join(d, 'work')
        os.makedirs(os.path.join(work, 'dir.d'))
        inp = os.path.join(d, 'in', 'input.dat')
        with open(inp, 'wb') as f:
            f.write(case['content'].encode('latin-1'))
        args = [cmd, inp]
        if case['fmt'] is not None:
            args += ['-f', case['fmt']]
        out = case['out']
        if out is not None:
            args += ['-o', os.path.join(work, out) if case.get('abs') else out]
        if case['fmtout'] is not None:
            args += ['-fo', case['fmtout']]
        frs = []

        def rec(*a, **k):
            r = real_rd(*a, **k)
            frs.append(sorted(set(o.meta._fmt for o in r)))
            return r
        buf = io.StringIO()
        os.chdir(work)
        try:
            with mock.patch.object(sugar, rd_name, rec), mock.patch.object(sys, 'stdin', io.StringIO('')), contextlib.redirect_stdout(buf):
                try:
                    cli(args)
                except SystemExit as e:
                    return 'FAIL: SystemExit %r' % (e.code,)
        finally:
            os.chdir(cwd0)
        made = sorted(os.path.relpath(os.path.join(r_, x), work) for r_, _, fs in os.walk(work) for x in fs)
        assert os.listdir(os.path.join(d, 'in')) == ['input.dat'], 'files created next to the input'
        if frs:
            assert len(frs) == 1 and len(frs[0]) == 1, 'read called %d times / formats %r' % (len(frs), frs)
            fr = frs[0][0]
        else:       # the converter did not go through the patched attribute (a harmless refactoring): the read format is not observed
            fr = case['fmt'].lower() if case['fmt'] else case['true']
        text = buf.getvalue()
        if out is None:
            assert not made, 'files created without -o: %r' % made
            assert text.endswith('\n'), 'stdout does not end with a newline'
            body = text[:-1]
        else:
            assert text == '', 'output on stdout although -o was given'
            assert made == [os.path.normpath(out)], 'created %r, -o was %r' % (made, out)
            with open(os.path.join(work, out), 'rb') as f:
                body = f.read().decode('latin-1')
        # which format is the output in: compare with what the library writes for the library's reading of the same file
        hits = []
        for fw in sugar._io.util.FMTS_ALL[what]:
            try:
                ref = real_rd(inp, fr).tofmtstr(fw)
            except Exception:
                continue
            if ref == body:
                hits.append(fw)
        assert len(hits) == 1, 'the output equals the library output of %d formats %r' % (len(hits), hits)
        return ['stdout', fr, hits[0]] if out is None else ['file', out, fr, hits[0]]
    finally:
        os.chdir(cwd0)
        shutil.rmtree(d, ignore_errors=True)



@contextlib.contextmanager
def _open_kind(kind, text, d):
    """One file object of the given kind over the text (closed and removed afterwards)."""
    raw = text.encode('latin-1')
    if kind == 'bytes':
        yield io.BytesIO(raw)
    elif kind == 'str':
        yield io.StringIO(text, newline='')
    elif kind == 'spooled':
        with tempfile.SpooledTemporaryFile(max_size=50, dir=d) as f:      # rolls over to a real file beyond 50 bytes
            f.write(raw)
            f.seek(0)
            yield f
    elif kind == 'ntf':
        with tempfile.NamedTemporaryFile(dir=d) as f:
            f.write(raw)
            f.flush()
            f.seek(0)
            yield f
    else:
        p = os.path.join(d, 'session.dat' + ('.gz' if kind == 'gzip' else ''))
        with (gzip.open(p, 'wb') if kind == 'gzip' else open(p, 'wb')) as g:
            g.write(raw)
        f = gzip.open(p, 'rb') if kind == 'gzip' else open(p, 'rb') if kind == 'fileb' else open(p, 'r', newline='', encoding='latin-1')
        try:
            yield f
        finally:
            f.close()


def _sess_run(case, ops, d):
    import sugar
    from sugar._io import detect
    text = case['text']
    txt = lambda x: x.decode('latin-1') if isinstance(x, bytes) else x
    out = []
    with _open_kind(case['hkind'], text, d) as f:
        for st in ops:
            op = st['op']
            try:
                if op == 'seek':
                    a = f.seek(st['p'])
                elif op == 'read':
                    a = txt(f.read() if st['n'] is None else f.read(st['n']))
                elif op == 'readline':
                    a = txt(f.readline())
                elif op == 'tell':
                    a = f.tell()
                elif op == 'detect':
                    kw = {'sep': st['sep']} if st.get('sep') is not None else {}
                    before = f.tell()
                    fmt = detect(f, st['what'], **kw)
                    a = [fmt, f.tell()]
                    if f.tell() != before:
                        a = 'FAIL: detect moved the handle from %d to %d' % (before, f.tell())
                else:
                    rd = sugar.read if st['what'] == 'seqs' else sugar.read_fts
                    kw = {'sep': st['sep']} if st.get('sep') is not None else {}
                    before = f.tell()
                    try:
                        objs = rd(f, st['fmt'], **kw)
                    except OSError:
                        a = {'e': 'OSError'}
                        if f.tell() != before:
                            a = 'FAIL: failed read moved the handle from %d to %d' % (before, f.tell())
                    else:
                        after = f.tell()
                        used = sorted(set(o.meta._fmt for o in objs)) or [st['fmt'].lower() if st['fmt'] else '?']
                        a = [used[0], after]
                        ref = rd(io.BytesIO(text[before:after].encode('latin-1')), used[0], **kw)
                        if len(used) != 1 or _cj(objs) != _cj(ref):
                            a = 'FAIL: the objects read from the handle at %d differ from reading text[%d:%d] as %s' % (before, before, after, used)
                if f.closed:
                    a = 'FAIL: handle closed by %s' % op
            except Exception as e:
                a = {'e': type(e).__name__}
            out.append(a)
            if f.closed:
                break
        final = f.tell() if not f.closed else -1
    return out, final


def impl_sess(case):
    d = tempfile.mkdtemp(prefix='C03-sess-', dir='/tmp')
    try:
        answers, final = _sess_run(case, case['ops'], d)
        # the same history without its detect calls, on a fresh file object of the same kind
        answers2, final2 = _sess_run(case, [st for st in case['ops'] if st['op'] != 'detect'], d)
        return [answers, final, answers2, final2]
    finally:
        shutil.rmtree(d, ignore_errors=True)


def impl(case):
    k = case['kind']
    if k == 'wround':
        return impl_wround(case)
    if k == 'dispatch':
        return impl_dispatch(case)
    if k == 'tool':
        return impl_tool(case)
    if k == 'hkind':
        return impl_hkind(case)
    if k == 'rtree':
        return impl_rtree(case)
    if k == 'sess':
        return impl_sess(case)
    if k == 'cli':
        return impl_cli(case)
    if k == 'detect':
        if case.get('w') and _pristine(case):
            # the content in the case must be what the writer produces now
            now = write_content(case['w'])
            if not case['content'].endswith(now) or case['offset'] != len(case['content']) - len(now):
                return ['writer-output-changed', 0, False]
        return impl_detect(case)
    if k == 'ext':
        return impl_ext(case)
    if k == 'resolve':
        return impl_resolve(case)
    if k == 'extarg':
        return impl_extarg(case)
    if k == 'wresolve':
        return impl_wresolve(case)
    if k == 'kw':
        return impl_kw(case)
    if k == 'render':
        return impl_render(case)
    if k == 'hist':
        return impl_hist(case)
    if k == 'plan':
        return impl_plan(case)
    if k == 'writerfail':
        return {'e': case['err']}
    if k == 'transport':
        return 'relational check, see extra_checks'
    raise ValueError(k)


# ----------------------------------------------------------------------------- model terms

def _optbyte(c):
    return 'None' if c is None else '(Some x%02x)' % ord(c)


def model_term(case):
    k = case['kind']
    if k == 'detect' and case.get('binplugin'):
        return 'out (run_C03_detect_bin %s %s %s %s)' % (coq_N(WHAT[case['what']]), coq_bool(case['h'] in ('bytes', 'fileb', 'path', 'Path')),
                                                        coq_nat(case['offset']), coq_bs(case['content']))
    if k == 'detect':
        binary = case['h'] in ('bytes', 'fileb', 'path', 'Path')
        return 'out (run_C03_detect %s %s %s %s %s %s %s)' % (
            coq_N(WHAT[case['what']]), _optbyte(case.get('sep')), coq_opt(case.get('outfmt'), coq_bs), coq_bool(binary),
            coq_nat(case['offset']), coq_bs((case.get('origin') or '') if _pristine(case) else ''), coq_bs(case['content']))
    if k == 'ext':
        return 'out (run_C03_ext %s %s)' % (coq_N(WHAT[case['what']]), coq_bs(case['fname']))
    if k in ('resolve', 'extarg', 'wresolve'):
        from pathlib import PurePosixPath
        t = case['ft']
        f = {'bytes': 'FBytes', 'none': 'FNone', 'handle': 'FHandle'}.get(t)
        if t == 'str':
            f = '(FStr %s)' % coq_bs(case['name'])
        elif t == 'Path':
            f = '(FPath %s)' % coq_bs(str(PurePosixPath(case['name'])))
        if k == 'extarg':
            return 'out (run_C03_ext_arg %s %s)' % (coq_N(WHAT[case['what']]), f)
        a = case['archive']
        arch = 'ANone' if a is None else 'ATrue' if a is True else '(AStr %s)' % coq_bs(a)
        if k == 'wresolve':
            return 'out (run_C03_wresolve %s %s %s %s %s)' % (coq_N(WHAT[case['what']]), coq_bs(_first_archive()), f,
                                                             coq_opt(case['fmt'], coq_bs), arch)
        ex = FTS_EXAMPLE if case['entry'] == 'read_fts' else SEQ_EXAMPLE
        return 'out (run_C03_resolve %s %s %s %s %s)' % (coq_bs(_datadir()), coq_bs(ex), f, arch, coq_bool(case.get('glob') == 'empty'))
    if k == 'kw':
        kw = coq_list(['(%s, %s)' % (coq_bs(a), coq_bs(json.dumps(b))) for a, b in case['kw']])
        return 'out (run_C03_kw %s %s %s)' % (coq_N(WHAT[case['what']]), ENTRIES[case['entry']], kw)
    if k == 'hist':
        return 'out (run_C03_hist %s)' % coq_list(_hist_model_steps(case))
    if k == 'plan':
        return 'out (run_C03_plan %s %s %s %s %s %s)' % (coq_N(WHAT[case['what']]), _optbyte(case.get('sep')), coq_bool(case['h'] == 'bytes'),
                                                       coq_nat(case['offset']), coq_opt(case['fmt'], coq_bs), coq_bs(case['content']))
    if k == 'render':
        fmt = case['fmt']
        if fmt in ('tsv', 'csv'):
            return 'out (run_C03_render_xsv %s %s %s)' % ('x09' if fmt == 'tsv' else 'x2c', coq_list([coq_bs(x) for x in case['keys'].split()]),
                                                         coq_list([coq_list([coq_bs(x) for x in r]) for r in _xsv_rows(case)]))
        if fmt == 'fasta':
            return 'out (run_C03_render_fasta %s)' % coq_list(['(%s, %s, %s)' % tuple(coq_bs(x) for x in r) for r in _fasta_recs(case)])
        if fmt == 'stockholm':
            return 'out (run_C03_render_stockholm %s)' % coq_list([coq_bs('%s %s' % (s_['id'], s_['data'])) for s_ in case['obj']])
        if fmt == 'gff':
            text = impl_render(case)
            pre = '##gff-version 3\n' + (case.get('header') or '')
            body = text[len(pre):] if text.startswith(pre) else 'WRITER OUTPUT DOES NOT START WITH THE PRAGMA AND HEADER'
            return 'out (run_C03_render_gff %s %s)' % (coq_bs(case.get('header') or ''), coq_bs(body))
        rows_t = lambda rows: coq_list([coq_list([coq_bs(x) for x in r]) for r in rows])
        if fmt == 'mmseqs4':
            return 'out (run_C03_render_mmseqs4 %s %s)' % (coq_list([coq_bs(x) for x in case['names']]), rows_t(case['rows']))
        if fmt == 'blast7':
            return 'out (run_C03_render_blast7 %s %s %s %s)' % (coq_bs(case['prog']), coq_bs(case['ver']), coq_list([coq_bs(x) for x in case['comments']]),
                                                              rows_t(case['rows']))
        if fmt == 'infernal':
            return 'out (run_C03_render_infernal %s %s %s)' % (coq_bs(case['l0']), coq_bs(case['l1']), coq_list([coq_bs(x) for x in case['lines']]))
        return 'out (run_C03_render_hits %s %s)' % ('x%02x' % ord(case['sep']), rows_t(case['rows']))
    if k == 'tool':
        return 'out (run_C03_tool %s)' % coq_opt(case['tool'], coq_bs)
    if k == 'wround':
        return 'out (run_C03_wround %s %s)' % (coq_bs(case['name']), coq_bs(case['arch']))
    if k == 'dispatch':
        return 'out (run_C03_dispatch %s %s %s)' % (coq_N(DISPATCH_ENTRIES.index(case['entry'])), coq_bs(case['mode']),
                                                   ' '.join(coq_bool(x) for x in case['flags']))
    if k == 'hkind':
        with _hk_make(case['hk']) as f:
            facts = _hk_facts(f)
        return 'out (run_C03_hkind %s)' % ' '.join(coq_bool(x) for x in facts)
    if k == 'rtree':
        globs, dirs, unpacks, gunzips, gets, gzdecs = _rt_oracle(case)
        a = case['archive']
        arch = 'ANone' if a is None else 'ATrue' if a is True else '(AStr %s)' % coq_bs(a)
        return 'out (run_C03_rtree %s %s %s %s %s %s %s %s %s %s)' % (
            coq_nat(12),
            coq_list(['(%s, %s)' % (coq_bs(k_), coq_list([coq_bs(x) for x in v])) for k_, v in sorted(globs.items())]),
            coq_list([coq_bs(x) for x in dirs]),
            coq_list(['(%s, (%s, Some %s))' % (coq_bs(n), coq_opt(f, coq_bs), coq_bs(t)) for n, f, t in unpacks]),
            coq_list(['(%s, %s)' % (coq_bs(k_), coq_bs(v)) for k_, v in sorted(gunzips.items())]),
            coq_list(['(%s, %s)' % (coq_bs(k_), coq_bs(v)) for k_, v in sorted(gets.items())]),
            coq_list(['(%s, %s)' % (coq_bs(k_), coq_bs(v)) for k_, v in sorted(gzdecs.items())]),
            coq_bs('<dl>'), coq_bs(case['arg']), arch)
    if k == 'sess':
        ops = []
        for st in case['ops']:
            op = st['op']
            o = '{| o_sep := %s; o_outfmt := None |}' % _optbyte(st.get('sep'))
            if op == 'seek':
                ops.append('(SSeek %s)' % coq_nat(st['p']))
            elif op == 'read':
                ops.append('(SRead %s)' % coq_opt(st['n'], coq_nat))
            elif op == 'readline':
                ops.append('SReadline')
            elif op == 'tell':
                ops.append('STell')
            elif op == 'detect':
                ops.append('(SDetect %s %s)' % ('Seqs' if st['what'] == 'seqs' else 'Fts', o))
            else:
                ops.append('(SReadObj %s %s %s)' % ('Seqs' if st['what'] == 'seqs' else 'Fts', o, coq_opt(st['fmt'], coq_bs)))
        return 'out (run_C03_session %s %s %s)' % (coq_bool(SESS_BINARY[case['hkind']]), coq_bs(case['text']), coq_list(ops))
    if k == 'cli':
        return 'out (run_C03_cli %s %s %s %s %s %s)' % (coq_N(WHAT[case['what']]), coq_opt(case['true'], coq_bs), coq_nat(case['nobj']),
                                                       coq_opt(case['fmt'], coq_bs), coq_opt(case['out'], coq_bs), coq_opt(case['fmtout'], coq_bs))
    if k in ('writerfail', 'transport'):
        return 'out (VL [VB true; VNone])'
    raise ValueError(k)


def split_model(case, m):
    return bool(m[0]), m[1]


def agree(case, implval, modelval):
    if case['kind'] == 'sess':
        return isinstance(implval, list) and implval[:2] == modelval
    if case['kind'] == 'hkind':
        return isinstance(implval, list) and implval[0] == modelval
    if case['kind'] == 'rtree':
        if isinstance(modelval, dict):
            return isinstance(implval, dict) and modelval.get('e') == 'Error'      # any exception class; never OutOfFuel
        exp = [i for leaf in modelval for i in _rt_leaf_ids(case, leaf)]
        if any(i.startswith('<') for i in exp):          # the reader is handed a name that is no (plain) file: it must fail
            return isinstance(implval, dict)
        if isinstance(implval, list) and implval[:1] == ['<unordered>']:
            return implval[1:] == sorted(exp)
        return isinstance(implval, list) and implval == exp
    if case['kind'] == 'resolve':
        if implval == ['returned']:
            return False
        if isinstance(modelval, list) and modelval and modelval[0] == 'archive':
            # shutil.unpack_archive(name, tmpdir, format)
            return implval == modelval
    return implval == modelval


# ----------------------------------------------------------------------------- property-level oracle (independent of the model)

def _ext_table(what, fname):
    """first principles: the text after the last dot of the last path component decides"""
    name = fname.rsplit('/', 1)[-1]
    ext = name.rsplit('.', 1)[1] if '.' in name.lstrip('.') else None
    table = {'seqs': {'fasta': 'fasta', 'fa': 'fasta', 'stk': 'stockholm', 'sto': 'stockholm', 'stockholm': 'stockholm',
                      'gff': 'gff', 'sjson': 'sjson', 'json': 'sjson'},
             'fts': {'gff': 'gff', 'tsv': 'tsv', 'csv': 'csv'}}[what]
    return table.get(ext)


def spec(case, got):
    k = case['kind']
    if k == 'writerfail':
        return 'writer raised %s on an in-domain object' % case['err']
    if k == 'detect':
        if isinstance(got, dict):
            return 'detect raised %s' % got['e']
        fmt, pos, ok = got
        if not ok:
            return 'writer output is not reproducible'
        if pos != case['offset']:
            return 'handle position after detect is %r, was %r' % (pos, case['offset'])
        if case.get('expect') and _pristine(case) and fmt != case['expect']:
            return 'content written as %s is detected as %r' % (case['expect'], fmt)
        return None
    if k == 'hist':
        if isinstance(got, dict):
            return 'history raised %s' % got['e']
        for i, (st, r) in enumerate(zip(case['steps'], got)):
            if isinstance(r, str) and r.startswith('FAIL'):
                return 'step %d (%s): %s' % (i, st['op'], r)
            if st['op'] in ('detect', 'detect_fresh') and isinstance(r, list) and r[1] != st['offset']:
                return 'step %d: handle position after detect is %r, was %r' % (i, r[1], st['offset'])
        # equal calls give equal answers, whatever happened in between (handle content permitting)
        seen = {}
        cur = [h['t'] for h in case['handles']]
        for i, (st, r) in enumerate(zip(case['steps'], got)):
            if st['op'] == 'edit':
                cur[st['h']] = st['t']
            if st['op'] in ('detect', 'detect_fresh'):
                t = cur[st['h']] if st['op'] == 'detect' else st['t']
                key = json.dumps([case['texts'][t], st['what'], st.get('sep'), st.get('outfmt'), st['offset']])
            elif st['op'] == 'ext':
                key = json.dumps([st['fname'], st['what']])
            else:
                continue
            if key in seen and seen[key] != r:
                return 'step %d (%s) answers %r, the same call answered %r before' % (i, st['op'], r, seen[key])
            seen[key] = r
        return None
    if k == 'wround':
        if got is True:
            return None
        if isinstance(got, str) or isinstance(got, dict):
            return 'write %r with archive=%r: %r' % (case['name'], case['arch'], got)
        # hidden members are skipped by glob, members named like archives or gzip files are unpacked / decompressed again, names with
        # wildcard characters are patterns when read.  Everything else -- with or without a dot (F50) -- must come back.
        b = case['name'].rsplit('/', 1)[-1]
        import glob as _g
        excused = b.startswith('.') or b.endswith(('.gz', '.zip', '.tar', '.tgz', '.tbz2', '.txz', '.bz2', '.xz')) or _g.has_magic(case['name'])
        return None if excused else 'the archive written for %r (archive=%r) cannot be read back' % (case['name'], case['arch'])
    if k == 'hkind':
        if not isinstance(got, list):
            return 'file object %s: %r' % (case['hk'], got)
        if got[0] != got[1]:
            return '_is_binary_handle says %r for the %s, read(0) returns %s' % (got[0], case['hk'], 'bytes' if got[1] else 'str')
        return None
    if k == 'dispatch':
        if isinstance(got, str) and got.startswith('FAIL'):
            return got
        r_, i_, w_, a_ = case['flags']
        e = case['entry']
        # a plugin that offers a function for the job must not be refused
        able = {'read': r_ or i_, 'iter_': r_ or i_, 'read_fts': r_, 'write_fts': w_, 'write': w_ or (a_ and ('a' in case['mode'] or 'w' in case['mode']))}[e]
        if able and isinstance(got, dict):
            return '%s with plugin functions %r (mode %r) raised %s' % (e, case['flags'], case['mode'], got['e'])
        if not able and not isinstance(got, dict):
            return '%s with plugin functions %r (mode %r) called %r' % (e, case['flags'], case['mode'], got)
        return None
    if k == 'rtree':
        if isinstance(got, str):
            return got
        # first principles: the files the argument selects (fnmatch on the directory listing for the patterns generated here),
        # and everything reachable in them
        import fnmatch
        arg, tree = case['arg'], case['tree']
        dname, _, pat = arg.partition('/')
        if dname in tree and '/' not in pat and '**' not in pat:
            import glob as _g
            sel = sorted(fnmatch.filter(tree[dname], pat)) if _g.has_magic(pat) else [pat] if pat in tree[dname] else []
            nodes = [tree[dname][x] for x in sel]
            a = case['archive']
            ok_types = all(_rt_readable(x, n, a) for x, n in zip(sel, nodes))
            if sel and ok_types:
                exp = [i for n in nodes for i in _rt_all_ids(n)]
                if isinstance(got, dict):
                    return 'reading %r (archive=%r) raised %s, the selected files hold %r' % (arg, a, got['e'], exp)
                if sorted(x for x in got if x != '<unordered>') != sorted(exp):
                    return 'reading %r (archive=%r) gave %r, the selected files hold %r' % (arg, a, got, exp)
            if not sel and not isinstance(got, dict):
                return 'reading %r selects no file but returned %r' % (arg, got)
        return None
    if k == 'sess':
        if isinstance(got, dict):
            return 'session raised %s' % got['e']
        answers, final, answers2, final2 = got
        for st, a in zip(case['ops'], answers):
            if isinstance(a, str) and a.startswith('FAIL'):
                return '%s: %s' % (st['op'], a)
        # deleting the detect calls changes no other answer and not the final position
        others = [a for st, a in zip(case['ops'], answers) if st['op'] != 'detect']
        if others != answers2 or final != final2:
            return 'the history without its detect calls answers %r / ends at %r; with them %r / %r' % (answers2, final2, others, final)
        # a handle stands where its reads and seeks put it: tell answers agree with a plain simulation of the io calls
        pos, text = 0, case['text']
        for st, a in zip(case['ops'], answers):
            if st['op'] == 'seek':
                pos = st['p']
            elif st['op'] == 'read':
                exp = text[pos:] if st['n'] is None else text[pos:pos + st['n']]
                if a != exp:
                    return 'read(%r) at %d returned %r' % (st['n'], pos, a)
                pos = min(len(text), pos + len(exp)) if pos <= len(text) else pos
            elif st['op'] == 'readline':
                i = text.find('\n', pos)
                exp = text[pos:] if i < 0 else text[pos:i + 1]
                if a != exp:
                    return 'readline at %d returned %r' % (pos, a)
                pos += len(exp)
            elif st['op'] == 'tell' and a != pos:
                return 'tell answers %r, the handle should stand at %d' % (a, pos)
            elif st['op'] == 'detect' and isinstance(a, list) and a[1] != pos:
                return 'after detect the handle stands at %r, was at %d' % (a[1], pos)
            elif st['op'] == 'readobj' and isinstance(a, list):
                pos = a[1]
        return None
    if k == 'cli':
        if isinstance(got, str):
            return got
        if isinstance(got, dict):
            # a conversion that names only formats sugar can read / write, from a file that holds something, must not fail
            rdable = {'seqs': ['fasta', 'genbank', 'stockholm', 'gff', 'sjson'], 'fts': ['gff', 'genbank', 'infernal', 'mmseqs', 'blast', 'tsv', 'csv']}[case['what']]
            wrable = {'seqs': ['fasta', 'stockholm', 'gff', 'sjson'], 'fts': ['gff', 'tsv', 'csv']}[case['what']]
            f, fo, out = case['fmt'], case['fmtout'], case['out']
            wfmt = (fo or '').lower() or (_ext_table(case['what'], out) if out else ((f or '').lower() or case['true']))
            if case['nobj'] and case['true'] and (f is None or f.lower() == case['true']) and (fo is None or fo.lower() in wrable) and wfmt in wrable:
                return 'conversion %s -> %s raised %s' % (case['true'], wfmt, got['e'])
            return None
        # "read in the -f format else the detected one; write in the -fo format, else the one the extension of -o declares, else
        # the input format; to stdout without -o"
        fr, fw = got[-2], got[-1]
        f, fo, out = case['fmt'], case['fmtout'], case['out']
        exp_r = f.lower() if f else case['true']
        exp_w = fo.lower() if fo else (_ext_table(case['what'], out) if out else exp_r)
        if fr != exp_r:
            return 'input read as %r, expected %r' % (fr, exp_r)
        if fw != exp_w:
            return 'output written as %r, expected %r' % (fw, exp_w)
        if (got[0] == 'stdout') != (out is None):
            return 'output went to %s' % got[0]
        return None
    if k == 'ext':
        # first principles: the text after the last dot of the last path component decides
        exp = _ext_table(case['what'], case['fname'])
        ext = None
        if got != exp:
            return 'extension of %r should select %r, got %r' % (case['fname'], exp, got)
        return None
    if k == 'resolve' and case['ft'] in ('str', 'Path') and case['name']:
        # first principles: a plain local file name with an extension shutil.unpack_archive knows is unpacked as an archive
        import glob as _g
        from pathlib import PurePosixPath
        name = case['name'] if case['ft'] == 'str' else str(PurePosixPath(case['name']))
        known = set(['.zip', '.tar', '.tar.gz', '.tgz', '.tar.bz2', '.tbz2', '.tar.xz', '.txz']) | set(e for _, exts, _ in shutil.get_unpack_formats() for e in exts)
        plain = name != '-' and '://' not in name[:10] and not name.startswith('!data/') and not _g.has_magic(name)
        if plain and any(name.endswith(e) for e in known):
            if not (isinstance(got, list) and got[:2] == ['archive', name]):
                return 'file name %r has an archive extension but is handled as %r' % (name, got)
        return None
    if k == 'kw':
        if isinstance(got, dict):
            kws = dict(case['kw'])
            if case['entry'] in ('tofmtstr', 'objtofmtstr') and ('fname' in kws or 'fmt' in kws):
                return None
            return 'keyword call raised %s' % got['e']
        own = {'seqs': {'mode', 'tool', 'encoding', 'archive'}, 'fts': {'mode', 'archive'}}[case['what']]
        exp = [[a, json.dumps(b)] for a, b in case['kw'] if a not in own]
        if got != exp:
            return 'plugin received %r, caller passed %r' % (got, exp)
        return None
    return None


def nontrivial(case, got):
    k = case['kind']
    if k == 'detect':
        if isinstance(got, list) and got[0]:
            return 'detect:%s:%s:%s' % (case['what'], got[0], 'off' if case['offset'] else '0')
        return None
    if k == 'ext':
        return 'ext:%s' % got if got else None
    if k == 'resolve':
        return 'resolve:%s' % ':'.join(map(str, got[:2] if got[0] == 'url' else got[:1])) if isinstance(got, list) and got[0] != 'plain' else None
    if k == 'wresolve':
        return 'wresolve:%s' % (got[0] if isinstance(got, list) else got.get('e'))
    if k == 'extarg':
        return 'extarg:%s' % case['ft']
    if k == 'hist':
        return 'hist:' + ','.join(sorted(set(st['op'] for st in case['steps'])))
    if k == 'plan':
        return 'plan:%s:%s' % (case['fmt'], got[0] if isinstance(got, list) else 'exc')
    if k == 'render':
        return 'render:%s:%s' % (case['fmt'], 'long' if isinstance(got, str) and len(got) > 1000 else 'short')
    if k == 'dispatch':
        return 'dispatch:%s:%s:%s' % (case['entry'], case['mode'], got if isinstance(got, str) else 'error')
    if k == 'hkind':
        return 'hkind:' + case['hk']
    if k == 'tool':
        return 'tool:%s:%r' % (case['entry'], case['tool'])
    if k == 'wround':
        return 'wround:%s:%s' % (case['name'], got)
    if k == 'rtree':
        return 'rtree:%s:%s:%s' % (case['arg'], case['archive'], case['entry'])
    if k == 'sess':
        return 'sess:%s:%s' % (case['hkind'], ','.join(sorted(set(st['op'] for st in case['ops']))))
    if k == 'cli':
        return 'cli:%s:%s:%s:%s' % (case['what'], 'f' if case['fmt'] is not None else '-', 'fo' if case['fmtout'] is not None else '-',
                                    '/'.join(map(str, got[:1] + got[-2:])) if isinstance(got, list) else got.get('e') if isinstance(got, dict) else 'fail')
    if k == 'kw':
        return 'kw' if any(a in ('mode', 'tool', 'encoding', 'archive', 'fname', 'fmt') for a, _ in case['kw']) else None
    return None


def histkey(case, got):
    k = case['kind']
    keys = ['kind=' + k]
    if k == 'detect':
        keys.append('detect->%s' % (got[0] if isinstance(got, list) else 'exc'))
        keys.append('handle=' + case['h'])
        keys.append('origin=' + (case.get('origin') or 'mutated/adversarial'))
        n = len(case['content'])
        keys.append('len=' + ('0' if n == 0 else '<50' if n < 50 else '<1000' if n < 1000 else '>=1000'))
        if case['offset']:
            keys.append('offset>0')
    elif k == 'resolve':
        keys.append('resolve->%s' % ('/'.join(map(str, got[:2] if got[0] == 'url' else got[:1])) if isinstance(got, list) and got else 'exc'))
    elif k == 'hist':
        keys += ['hist-step=' + st['op'] for st in case['steps']]
    elif k == 'wresolve':
        keys.append('wresolve->%s' % (got[0] if isinstance(got, list) and got else 'exc'))
    elif k == 'kw':
        keys.append('entry=' + case['entry'])
    elif k == 'rtree':
        keys.append('rtree->%s' % ('error' if isinstance(got, dict) else 'n=%d' % min(len(got), 6) if isinstance(got, list) else 'fail'))
    elif k == 'sess':
        keys += ['sess-kind=' + case['hkind']] + ['sess-op=' + st['op'] for st in case['ops']]
    elif k == 'cli':
        keys.append('cli->%s' % (got[0] if isinstance(got, list) else got.get('e') if isinstance(got, dict) else 'fail'))
    return keys


def python_snippet(case):
    k = case['kind']
    if k == 'detect':
        kw = {a: case[a] for a in ('sep', 'outfmt') if case.get(a) is not None}
        if case['h'] in ('str', 'filet'):
            mk = 'io.StringIO(%r)' % case['content']
        else:
            mk = 'io.BytesIO(%r)' % case['content'].encode('latin-1')
        return ('import io; from sugar._io import detect; f=%s; f.seek(%d); print(detect(f, %r, **%r), f.tell())'
                % (mk, case['offset'], case['what'], kw))
    if k == 'ext':
        return 'from sugar._io import detect_ext; print(detect_ext(%r, %r))' % (case['fname'], case['what'])
    if k == 'cli':
        args = (['-f', case['fmt']] if case['fmt'] is not None else []) + (['-o', case['out']] if case['out'] is not None else []) + \
               (['-fo', case['fmtout']] if case['fmtout'] is not None else [])
        return ('import os; from sugar.scripts import cli; open("input.dat", "w").write(%r); os.makedirs("dir.d", exist_ok=True); '
                'cli([%r, "input.dat"] + %r)' % (case['content'], 'convert' if case['what'] == 'seqs' else 'convertf', args))
    if k == 'kw':
        return ('# keyword options through %s (%s): %r -- see tools/props/c03.py:impl_kw for the recording plugin'
                % (case['entry'], case['what'], case['kw']))
    return '# see tools/props/c03.py:impl_resolve; case=%r' % (case,)


# ----------------------------------------------------------------------------- transport independence (relational, partial)

def _canon(o):
    from sugar.core.fts import Feature, FeatureList, Location
    from sugar import BioSeq, BioBasket
    if isinstance(o, BioBasket):
        return {'seqs': [_canon(s) for s in o], 'meta': _canon(o.meta)}
    if isinstance(o, BioSeq):
        return {'id': o.id, 'data': o.data, 'type': getattr(o, 'type', None), 'meta': _canon(o.meta)}
    if isinstance(o, FeatureList):
        return [_canon(x) for x in o]
    if isinstance(o, Feature):
        return {'locs': [_canon(l) for l in o.locs], 'meta': _canon(o.meta)}
    if isinstance(o, Location):
        return [o.start, o.stop, str(o.strand), int(getattr(o.defect, 'value', o.defect)), _canon(o._meta) if o._meta else None]
    if isinstance(o, dict) or hasattr(o, 'items') and hasattr(o, 'keys'):
        return {str(k): _canon(v) for k, v in sorted(o.items(), key=lambda kv: str(kv[0]))}
    if isinstance(o, (list, tuple)):
        return [_canon(x) for x in o]
    if isinstance(o, float):
        return 'nan' if o != o else repr(o)
    if isinstance(o, (str, int, bool)) or o is None:
        return o
    if hasattr(o, 'item'):          # numpy scalar from pandas
        return _canon(o.item())
    return repr(o)


def _cj(o):
    return json.dumps(_canon(o), sort_keys=True)


EXT = {'fasta': 'fasta', 'stockholm': 'stk', 'gff': 'gff', 'sjson': 'sjson', 'tsv': 'tsv', 'csv': 'csv', 'genbank': 'gb',
       'blast': 'blastn', 'mmseqs': 'm8', 'infernal': 'tbl'}


def transports(content, what, fmt, rkw, d, cov):
    """Yield (name, canonical result) for every way of supplying `content`; d is a fresh temp dir."""
    import sugar
    from sugar import BioBasket
    from sugar.scripts import cli
    from pathlib import Path
    rd = sugar.read if what == 'seqs' else sugar.read_fts
    raw = content.encode('latin-1')
    ext = EXT[fmt]
    p = os.path.join(d, 'one', 'f.' + ext)
    os.makedirs(os.path.dirname(p))
    with open(p, 'wb') as f:
        f.write(raw)
    yield 'bytesio', _cj(rd(io.BytesIO(raw), **rkw))
    yield 'bytesio+fmt', _cj(rd(io.BytesIO(raw), fmt, **rkw))
    yield 'stringio', _cj(rd(io.StringIO(content), **rkw))
    yield 'path', _cj(rd(p, **rkw))
    yield 'path+fmt', _cj(rd(p, fmt, **rkw))
    yield 'Path', _cj(rd(Path(p), **rkw))
    with open(p, 'r') as f:
        yield 'text handle', _cj(rd(f, **rkw))
    with open(p, 'rb') as f:
        yield 'binary handle', _cj(rd(f, **rkw))
        assert not f.closed
    with open(p, 'rb') as f:          # handle behind a junk prefix is not applicable to files; BytesIO at an offset instead
        pass
    b = io.BytesIO(b'JUNK\n' + raw)
    b.seek(5)
    yield 'bytesio at offset', _cj(rd(b, **rkw))
    pgz = os.path.join(d, 'f.' + ext + '.gz')
    with gzip.open(pgz, 'wb') as f:
        f.write(raw)
    yield 'gzip file', _cj(rd(pgz, **rkw))
    pgz2 = os.path.join(d, 'plainname')
    shutil.copy(pgz, pgz2)
    yield 'gzip via archive=gz', _cj(rd(pgz2, archive='gz', **rkw))
    # every extension shutil.unpack_archive knows: the fixed literal list and, independently, what shutil reports at run time
    literal = ['.zip', '.tar', '.tar.gz', '.tgz', '.tar.bz2', '.tbz2', '.tar.xz', '.txz']
    runtime = {e: name for name, exts, _ in shutil.get_unpack_formats() for e in exts}
    assert set(literal) <= set(runtime), 'this Python cannot unpack %r' % sorted(set(literal) - set(runtime))
    made = {}
    for aext in sorted(set(literal) | set(runtime), key=lambda e: (e not in literal, e)):
        afmt = runtime[aext]
        if afmt not in made:
            made[afmt] = shutil.make_archive(os.path.join(d, 'arch_' + afmt), afmt, os.path.join(d, 'one'))
        named = os.path.join(d, 'named_' + afmt + aext)          # the same archive under each of its extensions
        shutil.copy(made[afmt], named)
        yield 'archive *' + aext, _cj(rd(named, **rkw))
        if what == 'seqs':      # F42 (fixed): the lazy generator must not outlive the unpacked temporary directory
            yield 'iter_ archive *' + aext, _cj(BioBasket(list(sugar.iter_(named, **rkw))))
        cov.setdefault('archive_extensions_read', {}).setdefault(what, set()).add(aext)
    # a gzip file made of two members (cat a.gz b.gz)
    cut = content.find('\n', len(content) // 2) + 1
    pmm = os.path.join(d, 'multi.' + ext + '.gz')
    with open(pmm, 'wb') as f:
        f.write(gzip.compress(raw[:cut]) + gzip.compress(raw[cut:]))
    yield 'gzip file with two members', _cj(rd(pmm, **rkw))
    # stdin: '-' reads sys.stdin.buffer
    from unittest import mock
    import types
    with mock.patch.object(sys, 'stdin', types.SimpleNamespace(buffer=io.BytesIO(raw))):
        yield 'stdin (-)', _cj(rd('-', **rkw))
    # downloads (requests.get stubbed): plain, gzip and archive payloads
    import requests

    def fake_get(payload):
        class R:
            content = payload

            def raise_for_status(self):
                pass
        return lambda url, *a, **k: R()
    with mock.patch.object(requests, 'get', fake_get(raw)):
        yield 'url', _cj(rd('http://host.example/dir/f.' + ext + '?x=1#frag', **rkw))
    with mock.patch.object(requests, 'get', fake_get(gzip.compress(raw))):
        yield 'url *.gz', _cj(rd('https://host.example/f.' + ext + '.gz', **rkw))
        yield 'url archive=gz', _cj(rd('https://host.example/download', archive='gz', **rkw))
    before = set(os.listdir(tempfile.gettempdir()))
    with open(made['zip'], 'rb') as f, mock.patch.object(requests, 'get', fake_get(f.read())):
        yield 'url *.zip', _cj(rd('ftp://host.example/a/arch.zip', **rkw))
    left = set(os.listdir(tempfile.gettempdir())) - before
    for x in left:
        if x.endswith('arch.zip'):
            os.remove(os.path.join(tempfile.gettempdir(), x))      # main.py:199 keeps the download (delete=False): not a property matter
    # a relative name below a directory called ~ (no user-directory expansion), with a decoy in $HOME
    home = os.path.join(d, 'home')
    os.makedirs(os.path.join(home))
    os.makedirs(os.path.join(d, 'cwd', '~'))
    shutil.copy(p, os.path.join(d, 'cwd', '~', 'f.' + ext))
    with open(os.path.join(home, 'f.' + ext), 'w') as f:
        f.write('decoy\n')
    cwd0, home0 = os.getcwd(), os.environ.get('HOME')
    try:
        os.chdir(os.path.join(d, 'cwd'))
        os.environ['HOME'] = home
        yield 'relative name ~/f', _cj(rd('~/f.' + ext, **rkw))
        yield 'relative pattern ~/*', _cj(rd('~/*.' + ext, **rkw))
    finally:
        os.chdir(cwd0)
        if home0 is None:
            os.environ.pop('HOME', None)
        else:
            os.environ['HOME'] = home0
    # streams at a non-zero offset, read twice
    t = io.StringIO('JUNK\n' + content)
    for i in (1, 2):
        t.seek(5)
        yield 'stringio at offset, read #%d' % i, _cj(rd(t, **rkw))
    with open(p, 'rb') as f:
        for i in (1, 2):
            f.seek(0)
            yield 'binary file handle, read #%d' % i, _cj(rd(f, **rkw))
    with tempfile.NamedTemporaryFile(dir=d) as f:
        f.write(b'JUNK\n' + raw)
        f.flush()
        f.seek(5)
        yield 'NamedTemporaryFile at offset', _cj(rd(f, **rkw))
    for afmt in ('zip', 'gztar', 'tar'):
        noext = os.path.join(d, 'noext_' + afmt)
        shutil.copy(made[afmt], noext)
        yield 'archive=%s' % afmt, _cj(rd(noext, archive=afmt, **rkw))
    yield 'glob', _cj(rd(os.path.join(d, 'one', '*.' + ext), **rkw))
    yield 'glob ?', _cj(rd(os.path.join(d, 'o?e', 'f.*'), **rkw))
    # two files behind one pattern: the results are concatenated
    os.makedirs(os.path.join(d, 'two'))
    for nm in ('a.', 'b.'):
        shutil.copy(p, os.path.join(d, 'two', nm + ext))
    both = _canon(rd(os.path.join(d, 'two', '*.' + ext), **rkw))
    one = _canon(rd(io.BytesIO(raw), **rkw))
    if what == 'seqs':
        ok2 = both['seqs'] == one['seqs'] * 2
        both['seqs'] = one['seqs'] if ok2 else ['NOT THE CONCATENATION OF BOTH FILES'] + both['seqs']
    else:
        both = one if both == one * 2 else ['NOT THE CONCATENATION OF BOTH FILES'] + both
    yield 'glob over two files', json.dumps(both, sort_keys=True)
    if what == 'seqs':
        yield 'iter_', _cj(BioBasket(list(sugar.iter_(p, **rkw))))
        yield 'iter_ bytesio', _cj(BioBasket(list(sugar.iter_(io.BytesIO(raw), **rkw))))
        yield 'iter_ gz', _cj(BioBasket(list(sugar.iter_(pgz, **rkw))))
        yield 'iter_ glob', _cj(BioBasket(list(sugar.iter_(os.path.join(d, 'one', '*.' + ext), **rkw))))
        two = list(sugar.iter_(os.path.join(d, 'two', '?.' + ext), **rkw))
        yield 'iter_ glob over two files', _cj(BioBasket(two[:len(two) // 2])) if _cj(BioBasket(two[:len(two) // 2])) == _cj(BioBasket(two[len(two) // 2:])) else 'NOT TWICE THE FILE'
        yield 'fromfmtstr str', _cj(BioBasket.fromfmtstr(content, **rkw))
        yield 'fromfmtstr bytes', _cj(BioBasket.fromfmtstr(raw, **rkw))
    cov['transport_reads'] = cov.get('transport_reads', 0) + 1


def _cli(args):
    from sugar.scripts import cli
    buf = io.StringIO()
    with contextlib.redirect_stdout(buf):
        cli(args)
    return buf.getvalue()


def write_transports(w, d, cov):
    """Relations between the ways of writing one object; yields (name, ok, detail)."""
    import sugar
    from pathlib import Path
    what, fmt, kw = w['what'], w['fmt'], dict(w.get('kw') or {})
    obj = mk_basket(w['obj']) if what == 'seqs' else mk_fts(w['obj'])
    rd = sugar.read if what == 'seqs' else sugar.read_fts
    ref = obj.tofmtstr(fmt, **kw)
    ext = EXT[fmt]
    # write through a path: format from the extension
    p = os.path.join(d, 'w.' + ext)
    obj.write(p, **kw)
    yield 'write(path) == tofmtstr', open(p).read() == ref, p
    p2 = os.path.join(d, 'w2.' + ext)
    obj.write(Path(p2), **kw)
    yield 'write(Path) == tofmtstr', open(p2).read() == ref, p2
    s = io.StringIO()
    obj.write(s, fmt, **kw)
    yield 'write(StringIO) == tofmtstr', s.getvalue() == ref, ''
    bio = io.BytesIO()
    obj.write(bio, fmt, **kw)
    yield 'write(BytesIO) == tofmtstr', bio.getvalue().decode('latin-1') == ref and not bio.closed, ''
    with open(os.path.join(d, 'w3.dat'), 'w') as f:
        obj.write(f, fmt, **kw)
    yield 'write(text handle) == tofmtstr', open(os.path.join(d, 'w3.dat')).read() == ref, ''
    # object-level shortcuts on single elements
    if len(obj) == 1:
        one = obj[0]
        s = io.StringIO()
        one.write(s, fmt, **kw)
        yield 'element.write == container.write', s.getvalue() == ref, ''
        if what == 'seqs':
            yield 'BioSeq.tofmtstr == BioBasket.tofmtstr', one.tofmtstr(fmt, **kw) == ref, ''
    # archives
    for afmt, aext in (('zip', '.zip'), ('gztar', '.tar.gz')):
        pa = os.path.join(d, 'wa_%s.%s' % (afmt, ext))
        obj.write(pa, archive=afmt, **kw)
        back = rd(pa + aext)
        yield 'write(archive=%s) then read' % afmt, _cj(back) == _cj(rd(io.StringIO(ref))), pa
    # command line converter
    cmd = 'convert' if what == 'seqs' else 'convertf'
    if fmt not in ('tsv', 'csv') or not kw:
        out = _cli([cmd, p])
        back = rd(io.StringIO(out))
        yield 'cli %s to stdout' % cmd, _cj(back) == _cj(rd(p)), out[:200]
        po = os.path.join(d, 'cli_out.' + ext)
        _cli([cmd, p, '-o', po])
        yield 'cli %s -o' % cmd, _cj(rd(po)) == _cj(rd(p)), po
        target = {'seqs': 'sjson', 'fts': 'gff'}[what]
        po2 = os.path.join(d, 'cli_out2.' + EXT[target])
        _cli([cmd, p, '-o', po2, '-f', fmt])
        a = rd(po2)
        b = rd(io.StringIO(rd(p).tofmtstr(target)))
        yield 'cli %s -f %s -o *.%s' % (cmd, fmt, EXT[target]), _cj(a) == _cj(b), po2
        # load / loadf hand the library's objects (whole object graph) to the IPython session; print / printf print their tostr()
        import sugar.scripts as SC
        from unittest import mock
        got = []
        with mock.patch.object(SC, '_start_ipy', got.append):
            _cli(['load' if what == 'seqs' else 'loadf', p])
            _cli(['load' if what == 'seqs' else 'loadf', p, '-f', fmt.upper()])
        yield 'cli load == read', len(got) == 2 and all(_cj(g) == _cj(rd(p)) for g in got), ''
        yield 'cli print == tostr', _cli(['print' if what == 'seqs' else 'printf', p]) == rd(p).tostr() + '\n', ''
    # appending: the FASTA plugin appends record by record, a second write(mode='a') doubles the file
    if fmt == 'fasta':
        pa = os.path.join(d, 'app.fasta')
        obj.write(pa)
        obj.write(pa, mode='a')
        yield 'write then write(mode=a)', open(pa).read() == ref * 2 and _cj(rd(pa)) == _cj(rd(io.StringIO(ref * 2))), pa
    # stdin of a child process: a real pipe, and a file redirected to stdin (private cwd, inherited interpreter and sugar path)
    if cov.get('child_processes', 0) < (40 if cov.get('_tier') == 'thorough' else 3) and (fmt not in ('tsv', 'csv') or not kw):
        import subprocess
        cov['child_processes'] = cov.get('child_processes', 0) + 1
        target = {'seqs': 'sjson', 'fts': 'gff'}[what]
        code = 'from sugar.scripts import cli; cli([%r, "-", "-fo", %r])' % (cmd, target)
        exp = rd(io.StringIO(ref)).tofmtstr(target) + '\n'
        cwd = os.path.join(d, 'child')
        os.makedirs(cwd)
        r1 = subprocess.run([sys.executable, '-W', 'ignore', '-c', code], input=ref.encode('latin-1'), capture_output=True, cwd=cwd, timeout=120)
        yield 'child process: cli %s - (pipe)' % cmd, r1.returncode == 0 and r1.stdout.decode('latin-1') == exp, (r1.stderr[-300:], r1.stdout[:200])
        with open(p, 'rb') as fin:
            r2 = subprocess.run([sys.executable, '-W', 'ignore', '-c', code], stdin=fin, capture_output=True, cwd=cwd, timeout=120)
        yield 'child process: cli %s - (redirected file)' % cmd, r2.returncode == 0 and r2.stdout.decode('latin-1') == exp, (r2.stderr[-300:], r2.stdout[:200])
        yield 'child process leaves its directory empty', os.listdir(cwd) == [], os.listdir(cwd)
    cov['transport_writes'] = cov.get('transport_writes', 0) + 1


def _viol(case, implval, why):
    # all keys the framework may look at for a record that has no model side
    return {'case': case, 'impl': implval, 'model': None, 'wf': True, 'evaluated': False, 'noshrink': True, 'spec': why}


NO_SHRINK_KEYS = ('name', 'arch', 'hk', 'flags', 'mode', 'tree', 'arg', 'archive', 'hkind', 'ops', 'text', 'true', 'nobj', 'w', 'origin', 'expect', 'h', 'what', 'kind', 'entry', 'ft', 'fmt', 'texts', 'handles', 'op', 't', 'kws', 'rkw', 'arch')


def extra_checks(rng, tier, cov):
    cov['_tier'] = tier
    n = 400 if tier == 'thorough' else 36
    rng2 = __import__('random').Random(rng.random())
    for i in range(n):
        if rng2.random() < 0.6:
            w = r_writer_case(rng2)
            content = write_content(w)
            what, fmt = w['what'], w['fmt']
            case = {'kind': 'transport', 'w': w}
        elif rng2.random() < 0.35:
            t = synth_sub(rng2, drop_coord=False, bad_strand=False)
            content, what, fmt, w, kind = t['content'], 'fts', t['tool'], None, 'subset'
            case = {'kind': 'transport', 'synthetic': 'column subset', 'content': content, 'what': what, 'sep': t['sep'], 'outfmt': t['outfmt']}
        else:
            kind = rng2.choice([k for k in SYNTH if k != 'blast6low'])
            content = synth(rng2, kind)
            what, fmt, w = ('seqs' if kind == 'genbank' and rng2.random() < 0.5 else 'fts'), SYNTH_FMT[kind], None
            case = {'kind': 'transport', 'synthetic': kind, 'content': content, 'what': what}
        rkw = {'sep': ','} if w is None and kind == 'blast10' else {}
        if w is None and kind == 'subset':
            rkw = {'sep': t['sep'], 'outfmt': t['outfmt']}
        d = tempfile.mkdtemp(prefix='C03-tr-', dir='/tmp')
        try:
            ref = None
            try:
                for name, val in transports(content, what, fmt, rkw, d, cov):
                    if ref is None:
                        ref = val
                        # the reference itself must carry the detected format
                        if ('"_fmt": "%s"' % fmt) not in val:
                            yield _viol(dict(case, transport=name), val[:300], 'content written as %s was read as another format' % fmt)
                    elif val != ref:
                        yield _viol(dict(case, transport=name), val[:300],
                                    'transport %s delivers a different object than BytesIO: %s vs %s' % (name, val[:200], ref[:200]))
                if w is not None:
                    for name, ok, detail in write_transports(w, d, cov):
                        if not ok:
                            yield _viol(dict(case, transport=name), detail, 'relation violated: ' + name)
            except Exception as e:
                import traceback
                yield _viol(case, {'e': type(e).__name__}, 'transport raised %s: %s' % (type(e).__name__, traceback.format_exc()[-600:]))
        finally:
            shutil.rmtree(d, ignore_errors=True)
    if 'archive_extensions_read' in cov:
        cov['archive_extensions_read'] = {k: sorted(v) for k, v in cov['archive_extensions_read'].items()}
        for what_ in ('seqs', 'fts'):
            missing = set(['.zip', '.tar', '.tar.gz', '.tgz', '.tar.bz2', '.tbz2', '.tar.xz', '.txz']) - set(cov['archive_extensions_read'].get(what_, []))
            if missing:
                yield _viol({'kind': 'transport', 'what': what_}, sorted(missing), 'archive extensions never exercised for %s: %s' % (what_, sorted(missing)))
    cov.pop('_tier', None)
    cov['transport_note'] = 'transport independence is relational testing only (partial)'


LEVEL_TEXT = ('Machine-checked Coq theorems (66, no axioms) over an executable model of sugar._io and of the command-line converter: detect() restores the position of any '
              'handle and equals "first accepting sniffer of the regenerated FMTS_ALL chain" on the remaining content for text and '
              'binary handles; WHOLE-CHAIN detection soundness detect(render_d x) = d, with rejection lemmas for every earlier sniffer, '
              'for FASTA / Stockholm / GFF3 (writer models), SJSON / GenBank (first-line shapes), TSV / CSV of any length incl. beyond '
              'the 1000-character window (writer model compared with pandas output), BLAST outfmt 6 / 10 and MMseqs2 fmtmode 0 (with the '
              'documented identity discriminator as hypothesis, exact float() rounding thresholds), MMseqs2 fmtmode 4 (name row), BLAST '
              'outfmt 7 (comment lines) and Infernal tblout 1/2/3 (header + ruler); every declared filename extension selects its own '
              'format; the regenerated ARCHIVE_EXTS holds every extension shutil.unpack_archive knows, so such names are unpacked;  the write-side decision (archive / to-string / handle / file, fmt option or extension, the three error cases) '
              'equals a declarative table, fmt= wins, writing by extension selects the declared format also for Path and archives; '
              'reading with fmt omitted hands the same handle state and options to the same plugin as reading with the detected fmt '
              'given, and fails exactly when nothing is detected; keyword options reach the plugin unchanged and identically through '
              'write, tofmtstr and the object methods; the _resolve_fname decision (glob > archive > gzip > plain) is specified.  Round 7: the '
              'command-line converter (sugar convert / convertf) equals the decision table "read in the -f format else the detected one; '
              'write in the -fo format, else the one the extension of -o declares, else the -f / input format; to stdout without -o" with '
              'its error rows KeyError / OSError / RuntimeError / IndexError (cli_decision_table, cli_fmtout_wins, cli_by_extension, '
              'cli_default_is_input_format, cli_fmt_is_output_format, cli_read_format, cli_errors, cli_case_insensitive), tied to '
              'sugar.scripts.cli on real files in a private directory (cli stream: which file is created, what goes to stdout, in which '
              'format, error class); sessions on one handle as a state machine over (kind, content, offset): detect returns the identical '
              'handle state (detect_keeps_handle), detect calls can be deleted from ANY history of seek / read / readline / tell / '
              'read-an-object calls without changing another answer or the final state (session_detect_transparent), a detect after any '
              'history answers the verdict on the rest of the content (session_detect_value), binary and text handles answer alike '
              '(session_kind_irrelevant); a Stockholm read consumes exactly one alignment and never runs past the content, so the handle '
              'stands at the next alignment (stockholm_read_consumes_one_alignment, stockholm_read_stays_inside); tied by the sess stream: '
              'histories on BytesIO / StringIO / binary and text files / NamedTemporaryFile / SpooledTemporaryFile / GzipFile, every answer '
              'and the final position compared with the model, the same history re-run without its detect calls; the recursion of '
              '_resolve_fname (pattern -> files that are no directories, archive -> <tmpdir>/**/*, gzip, plain, download) over a file-system oracle: fuel monotone '
              '(resolve_run_fuel), the four branches with the scope of the archive option (resolve_run_branches), concatenation in glob '
              'order (resolve_run_glob_concat), every member of a flat archive read exactly once (resolve_run_flat_archive), equivalence '
              'with the declarative reading for any nesting depth (resolve_run_sound, resolve_run_complete, resolves_deterministic), the '
              'name decision as a first-match table stdin > URL > pattern > archive > gzip > plain (resolve_is_table, resolve_url_first), '
              'a name found by a pattern is never expanded again (matched_name_never_globbed), downloads as part of the recursion '
              '(resolve_run_url, url_saved_archive); tied by the rtree stream (requests.get stubbed for the URL cases): real directory '
              'trees with gzip files, wildcard characters in file names, nested archives, read / iter_ with every archive option; which plugin '
              'function read / iter_ / read_fts / write(mode=) / write_fts call as tables over the functions a plugin offers '
              '(dispatch_support over the regenerated SUPPORT tables, read_dispatch_spec, write_dispatch_spec, write_default_mode), tied '
              'by stub plugins offering every subset of functions; which file objects get a text layer (is_binary_handle_spec), tied by '
              'the hkind stream over 23 kinds of file objects (io, tempfile, gzip/bz2/lzma, codecs, zip/tar members, duck-typed, a pipe); '
              'what sugar writes into an archive sugar reads back, with or without a dot in the target name, under a boolean guard '
              '(archive_roundtrip_partial, archive_roundtrip_nodot; archive_roundtrip_refuted for hidden names), wround stream; the tool option '
              '(tool_choice_spec). Model '
              'and code are tied on every run by differential testing of every modelled function (all reachable statements executed in '
              'the quick tier), renderer models against the real writers / readers, and histories of calls on shared state. Transport '
              'independence is relational testing only.')
LEVEL_NOTE = ('PARTIAL / TESTED ONLY: (1) transport independence (path, Path, handles incl. NamedTemporaryFile and streams at non-zero '
              'offsets read twice, gzip incl. two-member files, every archive extension, glob, stubbed URL downloads (plain / gzip / '
              'archive payloads), stdin patched in-process and as a real pipe / a redirected file of a child process, relative names below '
              'a directory called ~ with a decoy in $HOME, iter_/read, fromfmtstr, CLI convert/convertf/print/printf/load/loadf compared '
              'with the library calls on the whole object graph, write variants incl. mode=a) -- gzip/shutil/glob/tempfile/TextIOWrapper/argparse are trusted CPython; '
              'only the name decision, the write decision and the handle-state equivalence are proved at model level; (2) what the plugins '
              'do with the content after dispatch (the readers/writers themselves belong to C01/C02/C10/C11/C14/C15); (3) guards spelled in '
              'the wf predicates: TSV and MMseqs2-4 need >= 4 columns, xsv excludes exactly-12-column headers and a first column named '
              'locus*, hit fields are blank-free with digit-only integer columns, BLAST-7 needs >= 100 characters of comment lines, '
              'Infernal header >= 100 characters; outside them detection is covered by the correspondence only; (4) SJSON / GenBank '
              'soundness is over first-line shape predicates checked against the real writer / renderer each run; (5) sniffers called with '
              'an outfmt= option (column selections) are modelled and differential-tested, the soundness theorems are for outfmt omitted. '
              'Domain: printable ASCII + tab + newline contents, sep absent or one character, non-empty collections, outfmt 10 with '
              'sep=",". URL download branch exercised with a stubbed requests.get only. Statement coverage of the modelled functions: only '
              'def/decorator lines (executed at import) are never hit; main.py:67 is reached with a stub binary plugin; '
              'sugar/_io/tab/core.py is modelled but not an anchored file; scripts.py: the two `except BrokenPipeError: pass` lines of '
              'convert / convertf are not reached. (6) the command-line model takes the detected input format and the number of objects '
              'in the file as inputs (tied by the detect streams); which plugin functions exist (read_/iter_/write_/append_) comes from '
              'the regenerated SUPPORT tables; -f naming a format the file is not in is outside the domain. (8) _is_binary_handle is modelled as a function of three facts read off the object by introspection (instance '
              'of the io classes for binary files, has an encoding attribute, b in the mode text); that these are what decides is tied by '
              'the hkind stream, whose oracle is "read(0) returns bytes". (7) the recursion model takes what '
              'glob / unpack_archive / gzip answer as an oracle; the rtree stream asks the real functions on a copy of the generated tree '
              'and sorts glob results; downloads are answered by a stub serving the files of the tree. Found in this round and FIXED in /repo since: archdir (F49, 934e7a7: a directory matched by a pattern or unpacked from an '
              'archive was read as a file) and archnodot (F50, 3c0a521: an archive written for a target name without a dot could not be '
              'read back); the model follows the repaired code, the former failing calls are in corpus/C03/fixed_round7.json and in the '
              'rtree / wround streams. Still refuted (archive_roundtrip_refuted): a HIDDEN target name (.x.fasta -- glob skips hidden '
              'members) and a target named like a gzip file or an archive. '
              'All theorems closed under the global context (no axioms).')
TECHNIQUE = 'Coq proof over an executable model + regenerated tables + differential correspondence + relational transport testing'
