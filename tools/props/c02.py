"""C02 -- feature files round-trip (GFF3, TSV/CSV): cases, implementation driver, model terms, property oracle."""
import io, os, re, tempfile
from framework import coq_bs, coq_z, coq_list, coq_opt, coq_nat

ID = 'C02'
COQ_IMPORTS = ['G_gff', 'C02_Model']
GENERATORS = ['gen_gff']
RULE = ('nine streams and a relational transport check (the same list through file name, Path, handles, BytesIO, gzip, archive=, glob, Feature.write, write_fts() and through streams at their current position - StringIO / text file handle / BytesIO / binary file handle x fmt given / detected x offset 0 / behind an earlier table written into the same stream / behind a title line skipped with readline() -: text and features must equal those of the string transport); about 30 % of the obj, text and xsvw cases are written and read through such a stream as well and compared with the model and the oracle like every other case: (disp) write_fts / read_fts with fmt in any spelling or taken from the extension (right, wrong-case and unknown extensions, unknown format names, fmt against extension), via string and file, meta._fmt observed; (xsvw) FeatureLists -> TSV/CSV text -> records for any list of column names (subsets, repetitions, defect, foreign metadata columns), keys as list / tuple / one string with arbitrary white space, fourteen separators, ftype naming a column or a literal, via str / file / detection: the written text is compared byte for byte with the model, the records or the KeyError with the model and the oracle; (xsvr) tables written by other programs (columns by name anywhere, contradicting len, negative coordinates, blank lines, empty ranges, unknown strands, missing columns); (seqgff) BioBaskets whose sequences carry features (some without seqid, some naming another or no sequence) '
        'through write(fmt=gff) / read(fmt=gff or detected); TSV/CSV selections with extra metadata columns named like MMseqs2/BLAST '
        'columns, read back with fmt= and with auto-detection; (hist) histories on the same live FeatureLists / texts: repeated GFF cycles and TSV/CSV writes with different '
        'column selections in any order, in-place edits (aliases, _gff entries, locations) in between, mutation of every returned '
        'object, features sharing Location objects, a second list / text colliding on ids, lengths and coordinates; every step is '
        'compared with the pure model on the current abstract value; (edit) features read from generated GFF text and then edited through ft.name / ft.id / ft.seqid / ft.type / '
        'ft.meta.score / phase / evalue before the write-read-write cycles; (obj) abstract FeatureLists (1-4 features, 1-4 locations on any strand given in any order, attribute keys '
        'and values over printable ASCII + tab including tab ; = , % & space, list values, per-location attributes, optional '
        'score/phase/source/seqid/Name/ID at the _gff level and/or as Feature.meta aliases) written by sugar, read back, written '
        'again (3 writes); (text) GFF3 text rendered by an independent renderer (shuffled attribute order, locations of a split '
        'feature ascending/descending/interleaved, lower-case and superfluous percent escapes, blanks around keys/values, comments, '
        '##FASTA tail) plus byte-level mutations of it, read by sugar and cycled; (xsv) FeatureLists (single, split, nested and overlapping locations) through the real pandas '
        'to_csv/read_csv for every selection/permutation of type,start,stop,len,strand and five separators. The Coq model decides '
        'domain membership (wf_C02); non-trivial = distinct case with a split feature, minus strand, reserved character, '
        'list value, per-location attribute or score/phase')
TRUSTED = ['urllib.parse.quote/unquote (modelled on ASCII, compared on every case; the always-safe set is regenerated from urllib)',
           'pandas DataFrame/to_csv/read_csv text layer and dtype inference (only column choice and start/stop/len arithmetic are modelled)',
           'CPython float()/repr() (scores are kept as decimal literals; domain = literals that repr(float()) reproduces)',
           'CPython str.split/strip/int(), dict insertion order, sorted() stability (modelled, compared on every case)',
           'modelled: read_fts_gff (gff.py:40-103), write_fts_gff (gff.py:118-164), LocationTuple.__new__ (fts.py:163-189), '
           'LocationTuple.range, FeatureList.tolists/topandas/frompandas (fts.py:423-455, 573-629), xsv.py:82-96, read_fts/write_fts/detect_ext name resolution (main.py:104-121, 364-394, 444-478)']
ASSUMPTIONS = ['Python str restricted to ASCII (code points < 128) in every field; raw text without carriage returns',
               'attribute keys non-empty, not starting with "_", not a public method name of Attr (open finding F20), not one of '
               'seqid/source/score/phase/type unless they hold the column value',
               'round-trip theorems additionally assume: the first 5\'->3\' location of a feature has no attributes of its own '
               '(open finding F39 firstloc_overrides: such lists are generated, checked by the oracle and reported as KNOWN-FINDING), '
               'no location-level seqid/type/ID, and neighbouring features do not share (ID, type, seqid)',
               'score literals of the shapes repr() gives: [-]d+.d+ or [-]d[.d+]e-XX / e+XX, <= 15 significant digits, no redundant zeros (so that repr(float(tok)) == tok)']

MODELLED_FUNCS = {'sugar/_io/main.py': ['read_fts', 'write_fts', 'detect_ext'],
                  'sugar/_io/gff.py': ['read_fts_gff', 'write_fts_gff', 'read_gff', 'write_gff'],
                  'sugar/core/fts.py': ['LocationTuple.__new__', 'LocationTuple.range', 'Location.__init__', 'Feature.__init__',
                                        'FeatureList.tolists', 'FeatureList.topandas', 'FeatureList.frompandas'],
                  'sugar/_io/tab/xsv.py': ['_read_fts_xsv', '_write_fts_xsv', 'read_fts_tsv', 'read_fts_csv', 'write_fts_tsv', 'write_fts_csv']}
RESERVED_CHARS = '\t;=,%& '
SEPS5 = ['tab', 'comma', 'semi', 'pipe', 'space']
SEPS = {'tab': '\t', 'comma': ',', 'semi': ';', 'pipe': '|', 'space': ' ', 'colon': ':', 'bang': '!', 'tilde': '~', 'caret': '^',
        'at': '@', 'x': 'x', 'slash': '/', 'amp': '&', 'underscore': '_'}
XKEYS = ['type', 'start', 'stop', 'len', 'strand']
ATTR_RESERVED = {'clear', 'copy', 'get', 'items', 'keys', 'pop', 'popitem', 'setdefault', 'update', 'values'}
COLKEYS = ('seqid', 'source', 'score', 'phase', 'type')


# ----------------------------------------------------------------------------- encoding of values

def enc(v):
    if isinstance(v, bool):
        return [9, repr(v)]
    if isinstance(v, str):
        return [0, v]
    if isinstance(v, (list, tuple)):
        return [1, [x if isinstance(x, str) else repr(x) for x in v]]
    if isinstance(v, float):
        return [2, repr(v)]
    if isinstance(v, int):
        return [3, v]
    return [8, repr(v)]


def dec(e):
    t, v = e
    return {0: lambda: v, 1: lambda: list(v), 2: lambda: float(v), 3: lambda: v}[t]()


def obs_items(d):
    return [[k, enc(d[k])] for k in d]


def obs_fts(fts):
    out = []
    for ft in fts:
        meta = [[k, enc(ft.meta[k])] for k in ft.meta if k not in ('_gff', '_fmt')]
        gff = obs_items(ft.meta['_gff']) if '_gff' in ft.meta else None
        locs = []
        for l in ft.locs:
            lg = None
            if l._meta is not None and '_gff' in l._meta:
                lg = obs_items(l._meta['_gff'])
            locs.append([l.start, l.stop, str(l.strand), lg])
        out.append([meta, gff, locs])
    return out


def build_fts(spec_fts):
    from sugar.core.fts import Feature, FeatureList, Location
    fts = []
    built = []
    for f in spec_fts:
        locs = []
        sh = f.get('_share')
        if sh is not None and sh < len(built) and spec_fts[sh]['locs'] == f['locs']:
            locs = list(built[sh])                     # the very same Location objects in two features
        else:
            for a, b, sd, lg in f['locs']:
                m = None if lg is None else {'_gff': {k: dec(v) for k, v in lg}}
                locs.append(Location(a, b, strand=sd, meta=m))
        built.append(list(locs))
        meta = {k: dec(v) for k, v in f['meta']}
        if f['gff'] is not None:
            meta['_gff'] = {k: dec(v) for k, v in f['gff']}
        ctor = f.get('_ctor')
        plain = all(l[3] is None for l in f['locs']) and sh is None
        if ctor == 'kw' and plain and len(f['locs']) == 1:
            a, b, sd, _ = f['locs'][0]
            fts.append(Feature(start=a, stop=b, strand=sd, meta=meta))            # start/stop/strand keywords
        elif ctor == 'tuple' and plain:
            fts.append(Feature(locs=[(a, b, sd) for a, b, sd, _ in f['locs']], meta=meta))   # locations given as tuples
        elif ctor == 'type' and list(meta) == ['type']:
            fts.append(Feature(meta['type'], locs=locs))                           # type positional, no meta
        else:
            fts.append(Feature(locs=locs, meta=meta))
    return FeatureList(fts)


# ----------------------------------------------------------------------------- implementation driver

STREAMS = ('sio', 'tfh', 'bio', 'bfh')        # io.StringIO, file opened in text mode, io.BytesIO, file opened in binary mode
TITLES = ['exported by some tool; the table starts in the next line\n', '# a comment line\n', 'start,stop,len\n', 'start\tstop\tstrand\n',
          '##gff-version 2\n', '\n', 'chr1\t.\tgene\t1\t9\t.\t+\t.\tID=title\n', 'title with \u00e4 in it\n']
_PRE_KEYS = 'type start stop strand'


def _pre_text(via, fmt, kw):
    """what the stream holds in front of the table: nothing, an earlier table written by sugar in the same format, a title line"""
    pre = via.get('pre')
    if not pre:
        return ''
    if pre[0] == 'title':
        return pre[1]
    return build_fts(pre[1]).tofmtstr(fmt, **({} if fmt == 'gff' else dict({k: v for k, v in kw.items() if k == 'sep'}, keys=_PRE_KEYS)))


def _stream_read(text, fmt, kw, via, det):
    """read_fts from the CURRENT position of a stream that holds the table behind earlier content: the position is where the
    earlier table ended (seek to the offset tell() gave) or behind a title line the caller skipped with readline()"""
    from sugar import read_fts
    pre = _pre_text(via, fmt, kw)
    content = pre + text
    w = via['w']
    fn = None
    try:
        if w in ('tfh', 'bfh'):
            fd, fn = tempfile.mkstemp(suffix='.dat', prefix='C02-', dir='/tmp')
            with os.fdopen(fd, 'w', newline='', encoding='utf-8') as f:
                f.write(content)
            f = open(fn, newline='', encoding='utf-8') if w == 'tfh' else open(fn, 'rb')
        else:
            f = io.StringIO(content) if w == 'sio' else io.BytesIO(content.encode('utf-8'))
        try:
            if via.get('at0') and pre and via['pre'][0] == 'table':
                pass                                     # two tables in one stream, read from the start
            elif pre and via['pre'][0] == 'title':
                for _ in range(pre.count('\n')):
                    f.readline()
            elif pre:
                f.seek(len(pre) if w == 'sio' else len(pre.encode('utf-8')))
            return read_fts(f, **kw) if det else read_fts(f, fmt, **kw)
        finally:
            f.close()
    finally:
        if fn is not None:
            os.remove(fn)


def _stream_write(fts, fmt, kw, via):
    """FeatureList.write into a stream that already holds earlier content; returns what was written behind it"""
    pre = _pre_text(via, fmt, {k: v for k, v in kw.items() if k == 'sep'})
    w = via['w']
    fn = None
    try:
        if w in ('tfh', 'bfh'):
            fd, fn = tempfile.mkstemp(suffix='.dat', prefix='C02-', dir='/tmp')
            os.close(fd)
            f = open(fn, 'w', newline='', encoding='utf-8') if w == 'tfh' else open(fn, 'wb')
        else:
            f = io.StringIO() if w == 'sio' else io.BytesIO()
        try:
            f.write(pre if w in ('sio', 'tfh') else pre.encode('utf-8'))
            pos = f.tell()
            fts.write(f, fmt, **kw)
            assert not f.closed, 'the writer closed the stream it was given'
            if fn is None:
                content = f.getvalue()
        finally:
            f.close()
        if fn is not None:
            with open(fn, 'rb') as g:
                content = g.read()
        if isinstance(content, bytes):
            content = content.decode('utf-8')
        assert content.startswith(pre), 'earlier content of the stream changed by the writer'
        return content[len(pre):]
    finally:
        if fn is not None:
            os.remove(fn)


def _read(text, via):
    from sugar import read_fts
    if isinstance(via, dict):
        # detection is asked for when the text announces itself as GFF3 (the version pragma the specification requires)
        return _stream_read(text, 'gff', {}, via, bool(via.get('det')) and text.startswith('##gff-version 3'))
    if via == 'file':
        fd, fn = tempfile.mkstemp(suffix='.gff', prefix='C02-', dir='/tmp')
        try:
            with os.fdopen(fd, 'w', newline='') as f:
                f.write(text)
            return read_fts(fn)                       # format detected from the content
        finally:
            os.remove(fn)
    return read_fts(io.StringIO(text), fmt='gff')


def _write(fts, via):
    if isinstance(via, dict):
        return _stream_write(fts, 'gff', {}, via)
    if via == 'file':
        fd, fn = tempfile.mkstemp(suffix='.gff', prefix='C02-', dir='/tmp')
        os.close(fd)
        try:
            fts.write(fn)                             # format detected from the extension
            with open(fn, newline='') as f:
                return f.read()
        finally:
            os.remove(fn)
    return fts.tofmtstr('gff')


def _has_id(f):
    return any(k == 'id' for k, _ in f[0]) or any(k == 'ID' for k, _ in (f[1] or []))


def _invented_ids(o0, w1):
    """the ID the writer invents for the i-th feature (split, without ID) -> canonical '~id<i>' (DESIGN 3.2: random GFF IDs)"""
    mapping = {}
    lines = [ln for ln in w1.split('\n')[1:-1] if not ln.startswith('#')]
    pos = 0
    for i, f in enumerate(o0):
        n = len(f[2])
        if n > 1 and not _has_id(f) and pos < len(lines):
            cols = lines[pos].split('\t')
            m = re.search(r'(?:^|;)ID=([a-z]{10})(?:;|$)', cols[8]) if len(cols) == 9 else None
            if m:
                mapping.setdefault(m.group(1), '~id%d' % i)
        pos += n
    return mapping


def _subst(v, mapping):
    if isinstance(v, str):
        for a, b in mapping.items():
            v = v.replace(a, b)
        return v
    if isinstance(v, list):
        return [_subst(x, mapping) for x in v]
    return v


def _cycle(x, via):
    o0 = obs_fts(x)
    w1 = _write(x, via)
    assert obs_fts(x) == o0, 'writing changed the FeatureList'
    x1 = _read(w1, via)
    o1 = obs_fts(x1)
    w2 = _write(x1, 'str')
    w3 = _write(_read(w2, 'str'), 'str')
    mp = _invented_ids(o0, w1)
    return [o0, _subst(w1, mp), _subst(o1, mp), _subst(w2, mp), _subst(w3, mp)] if mp else [o0, w1, o1, w2, w3]


def impl(case):
    k = case['_k']
    if k == 'text':
        via = case.get('_via', 'str')
        # at0: the stream holding an earlier table and this text is read from its START (the joined list); the cycles go on behind the table
        return _cycle(_read(case['t'], via), {k: v for k, v in via.items() if k != 'at0'} if isinstance(via, dict) else via)
    if k == 'obj':
        return _cycle(build_fts(case['fts']), case.get('_via', 'str'))
    if k == 'edit':
        x = _read(case['t'], 'str')
        for idx, key, val in case['edits']:
            if len(x):
                ft = x[idx % len(x)]
                v = dec(val)
                if key in ('name', 'id', 'seqid', 'type'):
                    setattr(ft, key, v)               # the documented aliases ft.name, ft.id, ft.seqid, ft.type
                else:
                    ft.meta[key] = v
        return _cycle(x, 'str')
    if k == 'hist':
        return impl_hist(case)
    if k == 'opt':
        from sugar import read_fts
        comments = []
        kw = {}
        if case.get('filt') is not None:
            kw['filt'] = case['filt']
        if case.get('fast') is not None:
            kw['filt_fast'] = case['fast']
        if case.get('default') is not None:
            kw['default_ftype'] = case['default']
        x = read_fts(io.StringIO(case['t']), fmt='gff', comments=comments, **kw)
        o0 = obs_fts(x)
        w = x.tofmtstr('gff', header=case['header']) if case.get('header') is not None else x.tofmtstr('gff')
        assert w == x.tofmtstr('gff', **({'header': case['header']} if case.get('header') is not None else {})) or _invented_ids(o0, w)
        v3 = '##gff-version 3\n'
        mp = _invented_ids(o0, v3 + w[len(v3 + (case.get('header') or '')):])
        try:
            back = obs_fts(read_fts(io.StringIO(w), fmt='gff'))      # header included: a header that is no comment is data
        except ValueError:
            back = {'e': 'ValueError'}
        return [o0, [c.rstrip('\n') for c in comments], _subst(w, mp) if mp else w, _subst(back, mp) if mp and isinstance(back, list) else back]
    if k == 'xsv':
        return _xsv(build_fts(case['fts']), case.get('allkeys') or case['keys'], case['_sep'], case['_fmt'], case.get('_keystr'),
                    case.get('ftype'), case.get('_auto'))
    if k == 'seqgff':
        return impl_seqgff(case)
    if k == 'xsvw':
        return _xsvw(build_fts(case['fts']), case['names'], case.get('keystr'), case['_sep'], case['_fmt'], case.get('ft'), case.get('_auto'),
                     case.get('_via', 'str'))
    if k == 'xsvr':
        return _xsv_read(case['t'], case['_sep'], case['_fmt'], case.get('ft'), case.get('_via', 'str'))
    if k == 'disp':
        return impl_disp(case)
    raise ValueError(k)


def impl_seqgff(case):
    from sugar import BioBasket, BioSeq, read
    seqs = []
    for sid, data, fspecs in case['seqs']:
        sq = BioSeq(data, id=sid)
        sq.fts = build_fts(fspecs)
        seqs.append(sq)
    b = BioBasket(seqs)
    o0 = obs_fts(b.fts)
    if case.get('_via') == 'file':
        fd, fn = tempfile.mkstemp(suffix='.gff', prefix='C02-', dir='/tmp')
        os.close(fd)
        try:
            b.write(fn)
            with open(fn, newline='') as f:
                w = f.read()
            b2 = read(fn)                              # format detected from the content
        finally:
            os.remove(fn)
    else:
        w = b.tofmtstr('gff')
        b2 = read(io.StringIO(w), fmt='gff')
    assert obs_fts(b.fts) == o0, 'writing changed the features of the basket'
    assert '##FASTA\n' in w, 'no ##FASTA section'
    gffpart, fasta = w.split('##FASTA\n', 1)
    assert [sq.id for sq in b2] == [c[0] for c in case['seqs']] and [str(sq) for sq in b2] == [c[1] for c in case['seqs']], 'sequences changed'
    mp = _invented_ids(o0, gffpart)
    return [_subst(gffpart, mp), _subst(obs_fts(b2.fts), mp)]


def _xsv(fts, keys, sepname, fmt, keystr, ftype=None, auto=False):
    if True:
        from sugar import read_fts
        sep = SEPS[sepname]
        allkeys = list(keys)
        keys = [k for k in allkeys if k in XKEYS]
        kw = {}
        if (fmt, sep) not in (('tsv', '\t'), ('csv', ',')):
            kw['sep'] = sep
        text = fts.tofmtstr(fmt, keys=' '.join(allkeys) if keystr else list(allkeys), **kw)
        lines = text.split('\n')
        assert lines[-1] == '' and lines[0].split(sep) == allkeys, 'header %r' % lines[0]
        rows = []
        for ln, ft in zip(lines[1:-1], fts):
            cells = ln.split(sep)
            assert len(cells) == len(allkeys)
            row = []
            for kk, c in zip(allkeys, cells):
                if kk not in XKEYS:
                    # a metadata column that was selected as well (possibly named like a column of another tabular format)
                    assert c == str(ft.meta.get(kk, '')), 'metadata column %s: %r' % (kk, c)
                    continue
                row.append(int(c) if kk in ('start', 'stop', 'len') else (None if c == '' and kk == 'type' else c))
            rows.append(row)
        assert [list(r) for r in fts.tolists(' '.join(keys))] == [list(r) for r in fts.tolists(tuple(keys))], 'tolists: keys as str / tuple'
        if ftype is not None:
            kw['ftype'] = 'strand' if ftype[0] == 'col' else ftype[1]
        back = read_fts(io.StringIO(text), fmt=fmt, **kw)
        res = []
        for ft in back:
            assert len(ft.locs) == 1
            l = ft.loc
            t = ft.type
            assert t is None or isinstance(t, str), 'type read back as %r' % (t,)
            assert type(l.start) is int and type(l.stop) is int
            res.append([t, l.start, l.stop, str(l.strand)])
        if auto and (fmt, sep) in (('tsv', '\t'), ('csv', ',')) and ftype is None:
            # the same file read with format auto-detection, as sugar's own table tests do
            fd, fn = tempfile.mkstemp(suffix='.txt', prefix='C02-', dir='/tmp')
            try:
                with os.fdopen(fd, 'w', newline='') as f:
                    f.write(text)
                back2 = read_fts(fn)
            finally:
                os.remove(fn)
            res2 = [[ft.type, ft.loc.start, ft.loc.stop, str(ft.loc.strand)] for ft in back2]
            assert res2 == res, 'read with auto-detection differs: %r' % (res2,)
            assert all(ft.meta.get('_fmt') == fmt for ft in back2), 'detected as %r' % ([ft.meta.get('_fmt') for ft in back2][:1],)
        return [rows, res]


def _obs_rec(ft):
    t = ft.type
    if t is not None and not isinstance(t, str):
        t = 'not-str:%r' % (t,)
    l = ft.loc
    a, b = l.start, l.stop
    if type(a) is not int or type(b) is not int:
        a, b = 'not-int:%r' % (a,), 'not-int:%r' % (b,)
    assert len(ft.locs) == 1
    return [t, a, b, str(l.strand)]


def _xsv_kw(sepname, fmt):
    sep = SEPS[sepname]
    return sep, ({} if (fmt, sep) in (('tsv', '\t'), ('csv', ',')) else {'sep': sep})


def _read_records(text, fmt, kw, via='str', det=False):
    """read a table; the exception classes frompandas / read_csv are specified to raise are part of the observation"""
    from sugar import read_fts
    try:
        if isinstance(via, dict):
            back = _stream_read(text, fmt, kw, via, det)
        elif via == 'file':
            fd, fn = tempfile.mkstemp(suffix='.' + fmt, prefix='C02-', dir='/tmp')
            try:
                with os.fdopen(fd, 'w', newline='') as f:
                    f.write(text)
                back = read_fts(fn, fmt, **kw)
            finally:
                os.remove(fn)
        else:
            back = read_fts(io.StringIO(text), fmt=fmt, **kw)
    except (KeyError, ValueError) as e:
        n = type(e).__name__
        return {'e': n if n in ('KeyError', 'ValueError', 'EmptyDataError') else 'ValueError'}
    assert all(ft.meta.get('_fmt') == fmt for ft in back), 'meta._fmt is %r' % ([ft.meta.get('_fmt') for ft in back][:1],)
    return [_obs_rec(ft) for ft in back]


def _xsvw(fts, names, keystr, sepname, fmt, ft, auto, via='str'):
    """FeatureList -> table text (any list of column names, given as a list/tuple or as one string) -> records"""
    sep, kw = _xsv_kw(sepname, fmt)
    keys = keystr if keystr is not None else (list(names) if len(names) % 2 else tuple(names))
    before = obs_fts(fts)
    if isinstance(via, dict):
        text = _stream_write(fts, fmt, dict(kw, keys=keys), via)
    elif via == 'file':
        fd, fn = tempfile.mkstemp(suffix='.' + fmt, prefix='C02-', dir='/tmp')
        os.close(fd)
        try:
            fts.write(fn, keys=keys, **kw)                  # format from the extension
            with open(fn, newline='') as f:
                text = f.read()
        finally:
            os.remove(fn)
    else:
        text = fts.tofmtstr(fmt, keys=keys, **kw)
    assert obs_fts(fts) == before, 'operand changed by the table writer'
    # FeatureList.tolists() called directly with the same keys: the rows are the cells of the written table
    cells = [['' if v is None else str(int(v)) if isinstance(v, int) else str(v) for v in r] for r in fts.tolists(keys)]
    if all(sep not in c and '"' not in c and '\n' not in c and '\r' not in c for r in cells for c in r):
        assert cells == [ln.split(sep) for ln in text.split('\n')[1:-1]] or not cells or not cells[0], 'tolists(%r) gives %r' % (keys, cells[:2])
    rkw = dict(kw)
    if ft is not None:
        rkw['ftype'] = ft
    res = _read_records(text, fmt, rkw, via)
    if isinstance(via, dict) and via.get('det') and not kw and ft is None and isinstance(res, list):
        # the same stream read from the same position with format auto-detection (default separator: the sniffers know no other)
        res2 = _read_records(text, fmt, rkw, via, det=True)
        assert res2 == res, 'stream %s at the offset of the table, format detected: %r' % (via['w'], res2)
    if auto and not kw and ft is None and isinstance(res, list) and via == 'str':
        # the same file read with format auto-detection, as sugar's own table tests do
        from sugar import read_fts
        fd, fn = tempfile.mkstemp(suffix='.txt', prefix='C02-', dir='/tmp')
        try:
            with os.fdopen(fd, 'w', newline='') as f:
                f.write(text)
            back2 = read_fts(fn)
        finally:
            os.remove(fn)
        res2 = [_obs_rec(f2) for f2 in back2]
        assert res2 == res, 'read with auto-detection differs: %r' % (res2,)
        assert all(f2.meta.get('_fmt') == fmt for f2 in back2), 'detected as %r' % ([f2.meta.get('_fmt') for f2 in back2][:1],)
    return [text, res]


def _xsv_read(text, sepname, fmt, ft, via='str'):
    sep, kw = _xsv_kw(sepname, fmt)
    if ft is not None:
        kw['ftype'] = ft
    return _read_records(text, fmt, kw, via if isinstance(via, dict) else 'str')     # a foreign table need not be detectable: fmt given


def impl_disp(case):
    """write_fts / read_fts dispatch: fmt in any spelling or taken from the extension of the file name; meta._fmt after reading"""
    from sugar import read_fts
    fts = build_fts(case['fts'])
    target = (case['fmt'] if case['fmt'] is not None else case['ext']).lower()
    wkw = {}
    if target in ('tsv', 'csv'):
        wkw['keys'] = list(case['names'])
        if case['_sep'] is not None:
            wkw['sep'] = SEPS[case['_sep']]
    if case['fmt'] is None or case.get('_wfile'):
        d = tempfile.mkdtemp(prefix='C02-', dir='/tmp')
        fn = os.path.join(d, 'a.b.' + case['ext'] if case['ext'] else 'noext')
        try:
            if case['fmt'] is None:
                fts.write(fn, **wkw)                      # format from the extension
            else:
                fts.write(fn, case['fmt'], **wkw)         # fmt wins over the extension
            with open(fn, newline='') as f:
                text = f.read()
        finally:
            import shutil
            shutil.rmtree(d, ignore_errors=True)
    else:
        text = fts.tofmtstr(case['fmt'], **wkw)
    rkw = {}
    if case['rfmt'].lower() in ('tsv', 'csv') and case['_sep'] is not None:
        rkw['sep'] = SEPS[case['_sep']]
    try:
        back = read_fts(io.StringIO(text), case['rfmt'], **rkw)
    except (KeyError, ValueError) as e:
        n = type(e).__name__
        return [text, {'e': n if n in ('KeyError', 'ValueError', 'EmptyDataError') else 'ValueError'}]
    fm = sorted(set(ft.meta.get('_fmt') for ft in back))
    assert len(fm) <= 1, 'features of one read with different _fmt: %r' % (fm,)
    if case['rfmt'].lower() == 'gff':
        return [text, [fm[0] if fm else None, obs_fts(back)]]
    return [text, [fm[0] if fm else None, [_obs_rec(ft) for ft in back]]]


def spec_disp(case, got):
    """fmt is case-insensitive, the extension is not; an unknown name is a KeyError, an unknown extension an OSError; what is read
    carries the lower-case format name in meta._fmt and is what the format's own round trip gives"""
    fmt, ext, rfmt = case['fmt'], case['ext'], case['rfmt']
    if fmt is not None:
        f = fmt.lower() if fmt.lower() in ('gff', 'tsv', 'csv') else None
        werr = 'KeyError'
    else:
        f = ext if ext in ('gff', 'tsv', 'csv') else None
        werr = 'OSError'
    if f is None:
        return None                  # which exception an unknown name / extension raises is not part of the property
    if isinstance(got, dict):
        return 'raised %s on an input of the domain' % got['e']
    text, rd = got
    sepname = case['_sep'] if case['_sep'] is not None else {'tsv': 'tab', 'csv': 'comma'}.get(f)
    if f == 'gff':
        if not text.startswith('##gff-version 3\n') or len(text.split('\n')) != 2 + sum(len(x['locs']) for x in case['fts']):
            return 'not the GFF text of the list'
    rf = rfmt.lower()
    if rf not in ('gff', 'tsv', 'csv'):
        return None
    if rf != f and not (f != 'gff' and rf != 'gff' and case['_sep'] is not None):
        return None
    if f == 'gff':
        if isinstance(rd, dict) or rd[0] != 'gff':
            return 'meta._fmt %r after reading with fmt=%r' % (rd, rfmt)
        want = [sorted(expected_order([l[:3] for l in x['locs']])) for x in case['fts']]
        have = [sorted(l[:3] for l in o[2]) for o in rd[1]]
        return None if want == have else 'locations %r read back as %r' % (want, have)
    sub = {'_k': 'xsvw', 'names': case['names'], 'keystr': None, '_sep': sepname, 'fts': case['fts'], 'ft': None}
    if isinstance(rd, dict):
        return spec_xsvw(sub, [text, rd])
    if rd[0] != rf:
        return 'meta._fmt %r after reading with fmt=%r' % (rd[0], rfmt)
    return spec_xsvw(sub, [text, rd[1]])


def gen_disp(rng):
    base = gen_xsvw(rng)
    fts = base['fts']
    for i, f in enumerate(fts):
        f.pop('_ctor', None)
        if len(f['locs']) > 1 and not any(k == 'id' for k, _ in f['meta']):
            f['meta'].append(['id', [0, 'm%d' % i]])
        if not any(k == 'type' for k, _ in f['meta']):
            f['meta'].append(['type', [0, rng.choice(TYPES)]])
    def spell(name):
        r = rng.random()
        return name if r < 0.35 else name.upper() if r < 0.55 else name.capitalize() if r < 0.7 else ''.join(ch.upper() if rng.random() < 0.5 else ch for ch in name)
    f = rng.choice(['gff', 'tsv', 'csv'])
    c = {'_k': 'disp', 'fmt': None, 'ext': f, 'rfmt': spell(f), '_sep': None, 'names': base['names'], 'fts': fts, '_wfile': rng.random() < 0.3}
    r = rng.random()
    if r < 0.5:
        c['fmt'] = spell(f)
        c['ext'] = rng.choice(['gff', 'tsv', 'csv', 'txt', '', 'dat'])         # fmt wins over the extension
    elif r < 0.62:
        c['ext'] = rng.choice([f.upper(), f.capitalize(), 'gff3', 'txt', '', f + 'x', 'tab', 'gtf', 'gb', 'xsv'])   # extensions are compared as they are
    if rng.random() < 0.06:
        c['fmt'] = rng.choice(['xyz', '', 'gff3', 'g f f', 'tsv ', 'GFF3'])
    if rng.random() < 0.06:
        c['rfmt'] = rng.choice(['xyz', 'gff3', 'tsv ', spell(rng.choice(['gff', 'tsv', 'csv']))])
    if f != 'gff' and rng.random() < 0.3:
        c['_sep'] = rng.choice(list(SEPS))
    return c


# ---- histories (state independence): several calls on the same live objects / texts, edits in between; the model is pure, so
# ---- every step is compared with the model applied to the CURRENT abstract value

def _spec_set(d, k, v):
    for kv in d:
        if kv[0] == k:
            kv[1] = v
            return
    d.append([k, v])


def hist_apply(lists, step):
    """effect of an editing step on the abstract lists (mirrors the in-place edit of the live objects)"""
    op = step[0]
    if op in ('edit', 'gffattr', 'relocs'):
        fts = lists[step[1]]
        if not fts:
            return
        f = fts[step[2] % len(fts)]
        if op == 'edit':
            _spec_set(f['meta'], step[3], step[4])
        elif op == 'gffattr':
            if f['gff'] is None:
                f['gff'] = []
            _spec_set(f['gff'], step[3], step[4])
        else:
            f['locs'] = [[a, b, sd, None] for a, b, sd in step[3]]


def hist_trace(case):
    """[(step, abstract value at that step)] for the steps that produce output"""
    import copy
    lists = copy.deepcopy(case['lists'])
    out = []
    for st in case['steps']:
        if st[0] == 'gff':
            out.append((st, copy.deepcopy(lists[st[1]])))
        elif st[0] == 'xsv':
            out.append((st, copy.deepcopy(lists[st[1]])))
        elif st[0] == 'rtext':
            out.append((st, case['texts'][st[1]]))
        else:
            hist_apply(lists, st)
    return out


def impl_hist(case):
    from sugar.core.fts import Location
    live = [build_fts(l) for l in case['lists']]
    res = []
    for st in case['steps']:
        op = st[0]
        if op == 'gff':
            x = live[st[1]]
            before = obs_fts(x)
            r = _cycle(x, st[2])
            # mutate everything that was returned / read on the way: the operand and a repeat must not notice
            y = _read(_write(x, 'str'), 'str')
            for ft in y:
                ft.name = 'mutated'
                ft.meta._gff['mutated'] = 'yes'
                ft.locs = [Location(1, 2, strand=str(ft.loc.strand))]
            assert obs_fts(x) == before, 'operand changed by write/read of its text'
            r2 = _cycle(x, 'str')
            assert r2[1:] == _cycle(x, 'str')[1:], 'two identical calls differ'
            if st[2] == 'str':
                assert r2 == r, 'repeat of the cycle differs after mutating an earlier result'
            res.append(r)
        elif op == 'xsv':
            x = live[st[1]]
            before = obs_fts(x)
            r = _xsv(x, st[2], st[3], st[4], st[5])
            assert obs_fts(x) == before, 'operand changed by the table writer'
            assert _xsv(x, st[2], st[3], st[4], not st[5]) == r, 'keys as str / list differ'
            res.append(r)
        elif op == 'rtext':
            t = case['texts'][st[1]]
            y = _read(t, 'str')
            first = obs_fts(y)
            for ft in y:
                ft.name = 'mutated'
                ft.meta._gff['ID'] = 'mutated'
                ft.locs = [Location(1, 2, strand=str(ft.loc.strand))]
            z = _read(t, 'str')
            assert obs_fts(z) == first, 'second read of the same text differs after mutating the first result'
            res.append(_cycle(z, 'str'))
        elif op in ('edit', 'gffattr', 'relocs'):
            x = live[st[1]]
            if len(x):
                ft = x[st[2] % len(x)]
                if op == 'edit':
                    v = dec(st[4])
                    if st[3] in ('name', 'id', 'seqid', 'type'):
                        setattr(ft, st[3], v)
                    else:
                        ft.meta[st[3]] = v
                elif op == 'gffattr':
                    if '_gff' not in ft.meta:
                        ft.meta._gff = {}
                    ft.meta._gff[st[3]] = dec(st[4])
                else:
                    ft.locs = [Location(a, b, strand=sd) for a, b, sd in st[3]]
        else:
            raise ValueError(op)
    return res


# ----------------------------------------------------------------------------- model terms

def coq_aval(e):
    t, v = e
    if t == 0:
        return '(AS %s)' % coq_bs(v)
    if t == 1:
        return '(AL %s)' % coq_list([coq_bs(x) for x in v])
    if t == 2:
        return '(AF %s)' % coq_bs(v)
    return '(AI %s)' % coq_z(v)


def coq_adict(d):
    return coq_list(['(%s, %s)' % (coq_bs(k), coq_aval(v)) for k, v in d])


def coq_feat(f):
    locs = coq_list(['(mkLoc %s %s x%02x %s)' % (coq_z(a), coq_z(b), ord(sd), coq_opt(lg, coq_adict)) for a, b, sd, lg in f['locs']])
    return '(mkFeat %s %s %s)' % (coq_adict(f['meta']), coq_opt(f['gff'], coq_adict), locs)


def model_term(case):
    try:
        return _model_term(case)
    except Exception:
        return 'out (VL [VB false; VB false; VE (bs "BadCase"%bs)])'


def _coq_stream(case, fmt, kw):
    """(position, content) of the stream the implementation reads: the very content and the very seek / readline calls"""
    via = case['_via']
    pre = _pre_text(via, fmt, kw)
    pos = '(PLines %s)' % coq_nat(pre.count('\n')) if pre and via['pre'][0] == 'title' else '(PSeek %s)' % coq_nat(len(pre))
    if via.get('at0') and pre and via['pre'][0] == 'table':
        pos = '(PSeek %s)' % coq_nat(0)
    return '%s %s' % (pos, coq_bs(pre + case['t']))


def _model_term(case):
    k = case['_k']
    if k == 'text' and isinstance(case.get('_via'), dict):
        return 'out (run_C02_text_at %s)' % _coq_stream(case, 'gff', {})
    if k == 'xsvr' and isinstance(case.get('_via'), dict):
        return 'out (run_C02_xsvr_at x%02x %s %s)' % (ord(SEPS[case['_sep']]), coq_opt(case.get('ft'), coq_bs), _coq_stream(case, case['_fmt'], _xsv_kw(case['_sep'], case['_fmt'])[1]))
    if k == 'text':
        return 'out (run_C02_text %s)' % coq_bs(case['t'])
    if k == 'obj':
        return 'out (run_C02_obj %s)' % coq_list([coq_feat(f) for f in case['fts']])
    if k == 'hist':
        parts = []
        for st, val in hist_trace(case):
            if st[0] == 'gff':
                parts.append('run_C02_obj %s' % coq_list([coq_feat(f) for f in val]))
            elif st[0] == 'xsv':
                parts.append('run_C02_xsv %s %s' % (_coq_keys(st[2]), coq_list([coq_feat(f) for f in val])))
            else:
                parts.append('run_C02_text %s' % coq_bs(val))
        # a step whose model term repeats an earlier step's term (the model is pure) is evaluated and printed once: VI <index>
        first = {}
        outp = []
        for i, t in enumerate(parts):
            if t in first:
                outp.append('VI %d' % first[t])
            else:
                first[t] = i
                outp.append(t)
        return 'out (VL %s)' % coq_list(outp)
    if k == 'seqgff':
        return 'out (run_C02_seqgff %s %s)' % (coq_list([coq_bs(c[0]) for c in case['seqs']]),
                                               coq_list([coq_feat(f) for c in case['seqs'] for f in c[2]]))
    if k == 'opt':
        o = '(mkRopts %s %s %s)' % (coq_opt(case.get('filt'), lambda l: coq_list([coq_bs(x) for x in l])), coq_opt(case.get('fast'), coq_bs),
                                    coq_opt(case.get('default'), coq_bs))
        return 'out (run_C02_opt %s %s %s)' % (coq_bs(case['t']), o, coq_bs(case.get('header') or ''))
    if k == 'xsv' and case.get('ftype') is not None:
        ft = 'FStrand' if case['ftype'][0] == 'col' else '(FLit %s)' % coq_bs(case['ftype'][1])
        return 'out (run_C02_xsv_t %s %s %s)' % (ft, _coq_keys(case['keys']), coq_list([coq_feat(f) for f in case['fts']]))
    if k == 'xsvw':
        ka = '(KStr %s)' % coq_bs(case['keystr']) if case.get('keystr') is not None else '(KList %s)' % coq_list([coq_bs(n) for n in case['names']])
        return 'out (run_C02_xsvw x%02x %s %s %s)' % (ord(SEPS[case['_sep']]), coq_opt(case.get('ft'), coq_bs), ka,
                                                     coq_list([coq_feat(f) for f in case['fts']]))
    if k == 'disp':
        return 'out (run_C02_disp %s %s %s %s %s %s)' % (coq_opt(case['fmt'], coq_bs), coq_bs(case['ext']), coq_bs(case['rfmt']),
                                                         coq_opt(case['_sep'], lambda n: 'x%02x' % ord(SEPS[n])),
                                                         coq_list([coq_bs(n) for n in case['names']]), coq_list([coq_feat(f) for f in case['fts']]))
    if k == 'xsvr':
        return 'out (run_C02_xsvr x%02x %s %s)' % (ord(SEPS[case['_sep']]), coq_opt(case.get('ft'), coq_bs), coq_bs(case['t']))
    if k == 'edit':
        eds = coq_list(['(%d%%nat, %s, %s)' % (i, coq_bs(key), coq_aval(v)) for i, key, v in case['edits']])
        return 'out (run_C02_edit %s %s)' % (coq_bs(case['t']), eds)
    return 'out (run_C02_xsv %s %s)' % (_coq_keys(case['keys']), coq_list([coq_feat(f) for f in case['fts']]))


def _coq_keys(keys):
    return coq_list([{'type': 'KType', 'start': 'KStart', 'stop': 'KStop', 'len': 'KLen', 'strand': 'KStrand'}[x] for x in keys])


def _xsv_wf(fts, keys):
    # pandas reads a column back as text only if it does not look like numbers/booleans/NA markers (trusted layer)
    for f in fts:
        t = dict((k, v) for k, v in f['meta']).get('type')
        if t is None or t[1].lower() in PANDAS_WORDS:
            return False
    return len(set(keys)) == len(keys)


def split_model(case, m):
    if case['_k'] == 'hist':
        try:
            tr = hist_trace(case)
        except Exception:
            return False, m                  # a shrinking candidate that is no history any more
        if isinstance(m, list):
            m = [m[x] if isinstance(x, int) and not isinstance(x, bool) and 0 <= x < len(m) else x for x in m]     # back references
        if not isinstance(m, list) or len(m) != len(tr) or any(not isinstance(x, list) or len(x) != 3 for x in m):
            return False, m
        wf = all(bool(x[0]) for x in m) and all(_xsv_wf(val, st[2]) for st, val in tr if st[0] == 'xsv')
        return wf, [x[2] for x in m]
    if not isinstance(m, list) or len(m) != 3:
        return False, m
    wf = bool(m[0])
    if case['_k'] == 'xsv' and wf:
        wf = _xsv_wf(case['fts'], case['keys'])
        if case.get('ftype') is not None and case['ftype'][0] == 'lit' and case['ftype'][1].lower() in PANDAS_WORDS:
            wf = False
    return wf, m[2]


PANDAS_WORDS = {'na', 'n/a', 'nan', 'null', 'none', 'true', 'false', 'inf', 'infinity', '-inf', 'nat'}


_DISAGREED = set()


def _ckey(case):
    import json
    return json.dumps(case, sort_keys=True, default=str)


def _abbrev_cycle(v):
    """[x, w1, x1, w2, w3] with a text that repeats the text before it replaced by None, as the model prints it"""
    if isinstance(v, list) and len(v) == 5 and all(isinstance(v[i], str) for i in (1, 3, 4)):
        return [v[0], v[1], v[2], None if v[3] == v[1] else v[3], None if v[4] == v[3] else v[4]]
    return v


def _abbrev(case, implval):
    k = case['_k']
    if k in ('obj', 'text', 'edit'):
        return _abbrev_cycle(implval)
    if k == 'hist' and isinstance(implval, list):
        try:
            tr = hist_trace(case)
        except Exception:
            return implval
        if len(tr) == len(implval):
            return [_abbrev_cycle(v) if st[0] in ('gff', 'rtext') else v for (st, _), v in zip(tr, implval)]
    return implval


def agree(case, implval, modelval):
    implval = _abbrev(case, implval)
    if isinstance(implval, dict) or isinstance(modelval, dict):
        ok = isinstance(implval, dict) and isinstance(modelval, dict) and implval.get('e') == modelval.get('e')
    else:
        ok = implval == modelval
    if not ok:
        _DISAGREED.add(_ckey(case))          # features() must not file a case under a known finding when the model differs too
    return ok


# ----------------------------------------------------------------------------- property oracle (independent of sugar and of the model)

_PCT = re.compile('%([0-9A-Fa-f]{2})')


def pct_decode(s):
    return _PCT.sub(lambda m: chr(int(m.group(1), 16)), s)


def _val(e):
    return tuple(e) if e[0] != 1 else (1, tuple(e[1]))


ALIAS = {'name': 'Name', 'id': 'ID', 'score': 'score', 'evalue': 'evalue', 'seqid': 'seqid', 'phase': 'phase', 'type': 'type'}


def eff_feature(f):
    """meaning of a feature: attributes (Feature.meta aliases take precedence over _gff), then per location overrides"""
    meta, gff, locs = f
    base = {k: _val(v) for k, v in (gff or [])}
    for k, v in meta:
        if k in ALIAS:
            base[ALIAS[k]] = _val(v)
    out = []
    for a, b, sd, lg in locs:
        d = dict(base)
        for k, v in (lg or []):
            d[k] = _val(v)
        out.append((a, b, sd, d))
    return out


def expected_order(locs):
    # 5'->3': ascending start, or descending stop on the minus strand; ties keep their order
    if locs and locs[0][2] == '-':
        return sorted(locs, key=lambda l: -l[1])
    return sorted(locs, key=lambda l: l[0])


def gid(f):
    e = eff_feature(f)[0][3]
    if 'ID' not in e:
        return None
    return (e['ID'], e.get('type'), e.get('seqid'))


def spec(case, got):
    return _spec(case, got, False)


def _spec_hist(case, got, skip_firstloc):
    if isinstance(got, dict):
        return 'history raised %s' % got['e']
    tr = hist_trace(case)
    if len(got) != len(tr):
        return 'history produced %d results for %d steps' % (len(got), len(tr))
    for n, ((st, val), g) in enumerate(zip(tr, got)):
        if st[0] == 'gff':
            sub = {'_k': 'obj', 'fts': val}
        elif st[0] == 'xsv':
            sub = {'_k': 'xsv', 'fts': val, 'keys': st[2], '_sep': st[3], '_fmt': st[4]}
        else:
            sub = {'_k': 'text', 't': val}
        r = _spec(sub, g, skip_firstloc)
        if r:
            return 'step %d (%s): %s' % (n, st[0], r)
    return None


def _spec_opt(case, got):
    if isinstance(got, dict):
        return 'raised %s on an input of the domain' % got['e']
    o0, comments, w, back = got
    lines = []
    for ln in case['t'].split('\n'):
        if ln.startswith('##FASTA'):
            break
        lines.append(ln)
    if case['t'].endswith('\n') and lines and lines[-1] == '' and not case['t'].split('\n')[-2:-1] == ['##FASTA']:
        lines = lines[:-1] if len(lines) == len(case['t'].split('\n')) else lines
    fast = case.get('fast')
    keep = [ln for ln in lines if fast is None or fast.lower() in (ln + '\n').lower()]
    want_c = [ln for ln in keep if ln.startswith('#') or not ln.strip()]
    if comments != want_c:
        return 'comments %r, expected %r' % (comments, want_c)
    data = [ln.strip().split('\t') for ln in keep if not (ln.startswith('#') or not ln.strip())]
    filt = case.get('filt')
    types = [(c[2] if c[2] != '.' else case.get('default')) for c in data]
    if filt:
        data = [c for c, t in zip(data, types) if t in filt]
        types = [t for t in types if t in filt]
    have = sorted((l[0], l[1], l[2]) for f in o0 for l in f[2])
    want = sorted((int(c[3]) - 1, int(c[4]), c[6]) for c in data)
    if have != want:
        return 'locations read %r, selected lines have %r' % (have, want)
    got_types = set(dict((k, tuple(v)) for k, v in f[0]).get('type', (0, None))[1] for f in o0)
    if got_types - set(types):
        return 'types %r read, selected lines have %r' % (got_types, set(types))
    hdr = case.get('header') or ''
    if not w.startswith('##gff-version 3\n' + hdr):
        return 'header not written after the version line'
    if len([ln for ln in w[len('##gff-version 3\n' + hdr):].split('\n') if ln]) != len(have):
        return 'number of data lines'
    if all(ln.startswith('#') or not ln.strip() for ln in hdr.split('\n')) and (hdr == '' or hdr.endswith('\n')) and '##FASTA' not in hdr:
        # a header of comment lines: what is read back has the locations that were written
        if isinstance(back, dict):
            return 'written text with a comment header cannot be read: %s' % back['e']
        if sorted((l[0], l[1], l[2]) for f in back for l in f[2]) != have:
            return 'locations read back from the text with header differ'
    return None


def _spec_seqgff(case, got):
    if isinstance(got, dict):
        return 'raised %s on an input of the domain' % got['e']
    w, o1 = got
    ids = [c[0] for c in case['seqs']]
    feats = [f for c in case['seqs'] for f in c[2]]
    def sid(f):
        m = dict((k, v) for k, v in f['meta'])
        g = dict((k, v) for k, v in (f['gff'] or []))
        v = m.get('seqid', g.get('seqid'))
        return None if v is None else v[1]
    def fid(f):
        m = dict((k, v) for k, v in f['meta'])
        g = dict((k, v) for k, v in (f['gff'] or []))
        v = m.get('id', g.get('ID'))
        return None if v is None else (tuple(v[1]) if v[0] == 1 else v[1], dict((k, v) for k, v in f['meta']).get('type', [0, None])[1], sid(f))
    fids = [fid(f) for f in feats]
    if any(a is not None and a == b for a, b in zip(fids, fids[1:])):
        return None                      # neighbouring lines of one (ID, type, seqid) are one feature to the reader
    want = []
    for i in ids:
        for f in feats:
            if sid(f) == i:
                t = dict((k, v) for k, v in f['meta']).get('type')
                want.append((None if t is None else t[1], expected_order([l[:3] for l in f['locs']])))
    have = [(dict((k, tuple(v)) for k, v in f[0]).get('type', (0, None))[1], [l[:3] for l in f[2]]) for f in o1]
    if have != want:
        return 'features naming a sequence: read back %r, written %r' % (have, want)
    return None


def _spec(case, got, skip_firstloc):
    if case['_k'] == 'seqgff':
        return _spec_seqgff(case, got)
    if case['_k'] == 'opt':
        return _spec_opt(case, got)
    if case['_k'] == 'hist':
        return _spec_hist(case, got, skip_firstloc)
    if case['_k'] == 'xsv':
        return spec_xsv(case, got)
    if case['_k'] == 'xsvw':
        return spec_xsvw(case, got)
    if case['_k'] == 'xsvr':
        return spec_xsvr(case, got)
    if case['_k'] == 'disp':
        return spec_disp(case, got)
    if isinstance(got, dict):
        return 'raised %s on an input of the domain' % got['e']
    o0, w1, o1, w2, w3 = got
    for o in (o0, o1):
        for f in o:
            locs = [l[:3] for l in f[2]]
            if locs != expected_order(locs):
                return 'locations not in 5\'->3\' order: %r' % (locs,)
    # file layout: one line per location, 1-based inclusive coordinates, separators never raw inside a field
    lines = w1.split('\n')
    if lines[0] != '##gff-version 3' or lines[-1] != '':
        return 'missing version line / final newline'
    data = [ln.split('\t') for ln in lines[1:-1]]
    flat = [(f, l) for f in o0 for l in f[2]]
    if len(data) != len(flat):
        return '%d data lines for %d locations' % (len(data), len(flat))
    for cols, (f, l) in zip(data, flat):
        if len(cols) != 9:
            return 'line with %d columns: %r' % (len(cols), cols)
        if cols[3] != str(l[0] + 1) or cols[4] != str(l[1]) or cols[6] != l[2]:
            return 'coordinates %r for location %r' % (cols[3:7], l[:3])
        if re.search(r'[\s&]', cols[8]) or re.search(r'[\s;=,&]', cols[0] + cols[1]):
            return 'raw reserved character in %r' % (cols,)
    if case['_k'] in ('text', 'edit'):
        # the coordinates read are those of the file, shifted to 0-based half-open
        want = []
        for ln in case['t'].split('\n'):
            if ln.startswith('##FASTA'):
                break
            if ln.startswith('#') or not ln.strip():
                continue
            c = ln.strip().split('\t')
            try:
                want.append((int(pct_decode(c[3])) - 1, int(pct_decode(c[4])), c[6]))     # the reader unquotes every column (mutated texts)
            except (ValueError, IndexError):
                want = have = None               # a mutated line the reader was lenient about: the property is silent
                break
        via = case.get('_via')
        if want is not None and case['_k'] == 'text' and isinstance(via, dict) and via.get('at0') and via.get('pre') and via['pre'][0] == 'table':
            want += [(a, b, sd) for f in via['pre'][1] for a, b, sd, _ in f['locs']]      # the earlier table of the stream is read as well
        have = [tuple(l[:3]) for f in o0 for l in f[2]] if want is not None else None
        if want is not None and sorted(want) != sorted(have):
            return 'locations read %r, file has %r' % (have, want)
    normalised = all(f[2][0][3] is None for f in o0)
    ids = [gid(f) for f in o0]
    distinct = all(not (a is not None and a == b) for a, b in zip(ids, ids[1:]))
    if distinct and w3 != w2:
        # neighbouring features with one (ID, type, seqid) are one feature to the reader; otherwise what was read back is
        # normalised and the text is stable from the second write on
        return 'third write differs from the second'
    nocols = all(k not in ('seqid', 'type', 'ID') for f in o0 for l in f[2] for k, _ in (l[3] or []))
    # open finding F39 (firstloc_overrides): a first 5'->3' location with attributes of its own is inside the property's
    # quantifier, so it is checked like every other list; features() files a case under F39 only if these clauses are
    # the only ones that fail on it
    if distinct and nocols and (normalised or not skip_firstloc):
        if w2 != w1:
            return 'second write differs from the first' + ('' if normalised else ' (first location has attributes of its own)')
        if len(o1) != len(o0):
            return '%d features read back, %d written' % (len(o1), len(o0))
        if len(set(i for i in (gid(f) for f in o1) if i is not None and str(i[0][1]).startswith('~id'))) != \
                sum(1 for f in o0 if len(f[2]) > 1 and not _has_id(f)):
            return 'invented IDs of split features without ID are not distinct'
        for f0, f1 in zip(o0, o1):
            e0, e1 = eff_feature(f0), eff_feature(f1)
            invented = len(f0[2]) > 1 and not _has_id(f0)
            if invented:
                # the writer had to invent an ID for this split feature: it is read back with that ID and nothing else changes
                for (_, _, _, d) in e1:
                    d.pop('ID', None)
            if e0 != e1:
                return 'feature changed by write/read: %r -> %r' % (e0, e1)
            # aliases of the feature read back
            m1 = dict((k, _val(v)) for k, v in f1[0])
            base = e1[0][3] if f1[2][0][3] is None else None
            if base is not None:
                for mk, gk in ALIAS.items():
                    if invented and mk == 'id':
                        continue
                    if (gk in base) != (mk in m1) or (gk in base and base[gk] != m1[mk]):
                        return 'alias %s of the feature read back is %r, attribute %s is %r' % (mk, m1.get(mk), gk, base.get(gk))
    return None


def _sel_ok(names):
    return ('start' in names and 'stop' in names) or ('len' in names and ('start' in names or 'stop' in names))


def spec_xsvw(case, got):
    """TSV/CSV: the selected columns are written in the selected order with the selected separator, one line per feature, and are
    read back (type, 0-based start, half-open stop, strand) exactly when the selection holds start and stop, or len and one of them"""
    if isinstance(got, dict):
        return 'raised %s on an input of the domain' % got['e']
    text, res = got
    names = case['keystr'].split() if case.get('keystr') is not None else list(case['names'])
    sep = SEPS[case['_sep']]
    lines = text.split('\n')
    if lines[-1] != '' or lines[0].split(sep) != names:
        return 'header line %r for columns %r' % (lines[0], names)
    if len(lines) - 2 != len(case['fts']):
        return '%d lines for %d features' % (len(lines) - 2, len(case['fts']))
    want = []
    for f, ln in zip(case['fts'], lines[1:-1]):
        meta = dict((k, v) for k, v in f['meta'])
        locs = expected_order([l[:3] for l in f['locs']])
        a, b = min(l[0] for l in locs), max(l[1] for l in locs)
        vals = {'start': str(a), 'stop': str(b), 'len': str(b - a), 'strand': locs[0][2], 'defect': '0'}
        cells = [vals[n] if n in vals else (meta[n][1] if n in meta else '') for n in names]
        if ln.split(sep) != cells:
            return 'line %r for cells %r' % (ln, cells)
        ft = case.get('ft')
        if 'type' in names:
            t = meta['type'][1] if 'type' in meta else None
        elif ft is None:
            t = None
        elif ft in names:
            t = cells[names.index(ft)]
        else:
            t = ft
        want.append([t, a, b, locs[0][2] if 'strand' in names else '?'])
    if not _sel_ok(names):
        want = {'e': 'KeyError'} if want else []
    if res != want:
        return 'read back %r, expected %r' % (res, want)
    return None


def spec_xsvr(case, got):
    """a table from elsewhere: the columns are found by name wherever they stand; start and stop win over len, else
    stop = start + len / start = stop - len; KeyError when neither pair is there, ValueError for an empty range or a bad strand"""
    sep = SEPS[case['_sep']]
    lines = [ln for ln in case['t'].split('\n') if ln != '']
    if not lines:
        want = {'e': 'EmptyDataError'}
    else:
        names = lines[0].split(sep)
        want = []
        for ln in lines[1:]:
            row = {}
            for n, c in zip(names, ln.split(sep)):
                row.setdefault(n, c)
            try:
                if 'start' in row and 'stop' in row:
                    a, b = int(row['start']), int(row['stop'])
                elif 'len' in row and 'start' in row:
                    a = int(row['start']); b = a + int(row['len'])
                elif 'len' in row and 'stop' in row:
                    b = int(row['stop']); a = b - int(row['len'])
                else:
                    want = {'e': 'KeyError'}
                    break
            except ValueError:
                return 'a start/stop/len cell is no integer although the model places the table in its domain'
            sd = row.get('strand', '?')
            if not a < b or sd not in ('+', '-', '.', '?'):
                want = {'e': 'ValueError'}
                break
            ft = case.get('ft')
            t = row['type'] if 'type' in row else (None if ft is None else row.get(ft, ft))
            want.append([t, a, b, sd])
    if got != want:
        return 'read %r, expected %r' % (got, want)
    return None


def spec_xsv(case, got):
    if isinstance(got, dict):
        return 'raised %s on an input of the domain' % got['e']
    rows, res = got
    keys = case['keys']
    nk = sum(k in keys for k in ('start', 'stop', 'len'))
    if len(res) != len(case['fts']):
        return '%d features read back, %d written' % (len(res), len(case['fts']))
    for f, r in zip(case['fts'], res):
        t = dict((k, v) for k, v in f['meta']).get('type')
        t = None if t is None else t[1]
        locs = expected_order([l[:3] for l in f['locs']])
        a, b = min(l[0] for l in locs), max(l[1] for l in locs)
        if 'type' in keys and r[0] != t:
            return 'type %r read back as %r' % (t, r[0])
        if nk >= 2 and (r[1], r[2]) != (a, b):
            return 'range (%d, %d) read back as (%d, %d)' % (a, b, r[1], r[2])
        if 'strand' in keys and r[3] != locs[0][2]:
            return 'strand %r read back as %r' % (locs[0][2], r[3])
    return None


# ----------------------------------------------------------------------------- generators

TYPES = ['CDS', 'gene', 'mRNA', 'exon', 'cDNA_match', 'five_prime_UTR', 'SO:0000704', 'a.b-c', 'x', 'Region9']
WORDS = ['a', 'b', 'Note', 'gene', 'product', 'Dbxref', 'Parent', 'Alias', 'k e y', 'x;y', 'p=q', 'm,n', '100%', 'R&D', 'tab\there',
         'Target', 'Gap', 'locus_tag', 'Z', 'kk', 'evalue', 'Name2', 'id', 'name', 'Is_circular', 'caf\xe9']
VCHARS = 'abcXYZ019 _.-~/' + RESERVED_CHARS + ':+()[]"\'<>#!?*@^`{}|\\$'
SCORES = ['0.0', '1.0', '0.5', '12.25', '100.0', '-3.5', '0.001', '0.0001', '99.125', '1234567.5', '-0.25', '7.0', '0.123456789',
          '1e-05', '2.5e-07', '1e+16', '-1.5e+20', '1.234e-05', '1e+100', '-3e-10', '9.99e-05', '1e-300']
SCORES_OUT = ['5', '-0.0', '1e-5', '0.50', '1e3', '1e-04', '1E-05', '1.0e-05', '1e+15', '1e16', '.5', '00.5', '1.', '0.00001', '12345678901234567.0', 'nan', 'inf', '1_0.5']


def rstr(rng, maxlen=8, chars=VCHARS, minlen=0):
    n = rng.randint(minlen, maxlen)
    if rng.random() < 0.08:
        return rng.choice(['', ' ', '%', '%41', '%zz', ',', ';', '=', '\t', ' a ', 'a=b=c', '%2', '.', '..', '#', '##FASTA'])
    v = ''.join(rng.choice(chars) for _ in range(n))
    if rng.random() < 0.12:
        v = rng.choice([' ', '\t', '  ', '\n', '']) + v + rng.choice([' ', '\t', ' \t', '\n', ''])    # leading / trailing white space
    return v


def rkey(rng, out_rate=0.01):
    r = rng.random()
    if r < out_rate:
        return rng.choice(['items', 'get', 'update', '_x', 'keys', 'copy', 'seqid', 'phase', 'type', '', 'source', 'score'])
    if r < 0.6:
        return rng.choice(WORDS[:-1])
    k = rstr(rng, 6, minlen=1)
    if not k or k[0] == '_' or k in ATTR_RESERVED or k in COLKEYS:
        k = 'K' + k
    return k


def rval(rng):
    r = rng.random()
    if r < 0.25:
        return [1, [rstr(rng, 5) for _ in range(rng.choice([2, 2, 3, 4]))]]
    if r < 0.27:
        return [1, [rstr(rng, 5) for _ in range(rng.choice([0, 1]))]]          # outside the domain
    if r < 0.5:
        return [0, rng.choice(WORDS)]
    return [0, rstr(rng, 10)]


def rscore(rng):
    return [2, rng.choice(SCORES)]


def rgff(rng, nmax=4, cols=True, out_rate=0.01):
    d = {}
    for _ in range(rng.choice([0, 1, 1, 2, 2, 3, nmax])):
        d[rkey(rng, out_rate)] = rval(rng)
    if cols:
        if rng.random() < 0.5:
            d['seqid'] = [0, rng.choice(['chr1', 'NC_0001.1', 'seq 2', 'a;b', 'c=d,e', '%41', 'ctg|7', '#s'])]
        if rng.random() < 0.3:
            d['source'] = [0, rng.choice(['RefSeq', 'sugar', 'my tool', 'x\ty', '.a'])]
    if rng.random() < (0.35 if cols else 0.3):
        d['score'] = rscore(rng)
    if rng.random() < (0.35 if cols else 0.4):
        d['phase'] = [3, rng.choice([0, 1, 2])]
    items = list(d.items())
    rng.shuffle(items)
    return [[k, v] for k, v in items]


def rlocs(rng, n, strand=None):
    sd = strand or rng.choice('++--.?')
    locs = []
    pos = rng.choice([0, 0, 1, 5, 99, 1000, 123456])
    for _ in range(n):
        gap = rng.choice([0, 0, 1, 3, 10, 50])
        ln = rng.choice([1, 1, 2, 3, 10, 100])
        locs.append([pos + gap, pos + gap + ln, sd])
        pos = pos + gap + ln if rng.random() < 0.85 else pos      # sometimes overlapping / equal starts
    order = rng.choice(['asc', 'desc', 'shuffle'])
    if order == 'desc':
        locs.reverse()
    elif order == 'shuffle':
        rng.shuffle(locs)
    return locs


def rfeature(rng, idx, in_domain=True):
    nloc = rng.choice([1, 1, 1, 2, 2, 3, 4])
    out_rate = 0.0 if in_domain else 0.05
    gff = rgff(rng, out_rate=out_rate) if rng.random() < 0.9 else None
    meta = []
    if rng.random() < 0.85:
        meta.append(['type', [0, rng.choice(TYPES)]])
    for mk in ('name', 'id', 'evalue', 'seqid', 'score', 'phase'):
        if rng.random() < 0.12:
            v = {'name': lambda: rval(rng), 'id': lambda: [0, 'm%d' % idx], 'evalue': lambda: [0, '1e-5'],
                 'seqid': lambda: [0, rng.choice(['chrM', 's 1'])], 'score': lambda: rscore(rng),
                 'phase': lambda: [3, rng.choice([0, 1, 2])]}[mk]()
            meta.append([mk, v])
    rng.shuffle(meta)
    has_id = any(k == 'id' for k, _ in meta) or (gff is not None and any(k == 'ID' for k, _ in gff))
    if (nloc > 1 or rng.random() < 0.4) and not has_id and rng.random() < 0.85:
        if gff is None:
            gff = []
        idv = rng.choice(['cds%d' % idx, 'id %d;x' % idx, 'f%d' % idx, 'dup'])
        gff.insert(rng.randint(0, len(gff)), ['ID', [0, idv]])
    if rng.random() < 0.3:
        if gff is None:
            gff = []
        if not any(k == 'Name' for k, _ in gff):
            gff.append(['Name', rval(rng)])
    locs = rlocs(rng, nloc)
    first = None
    if nloc > 1:
        srt = sorted(locs, key=(lambda l: -l[1]) if locs[0][2] == '-' else (lambda l: l[0]))
        first = srt[0]
    out = []
    for l in locs:
        lg = None
        if nloc > 1 and rng.random() < 0.45:
            lg = rgff(rng, nmax=2, cols=False, out_rate=out_rate) or None
            if lg and gff and rng.random() < 0.5:               # override an existing key / repeat the feature's value
                k0, v0 = rng.choice(gff)
                if k0 not in ('ID', 'seqid', 'source') and not any(k == k0 for k, _ in lg):
                    lg.append([k0, v0 if rng.random() < 0.3 else (rval(rng) if v0[0] in (0, 1) else v0)])
        if lg is not None and l is first and rng.random() < 0.8:
            lg = None                                           # mostly normalised features
        out.append(l + [lg])
    return {'meta': meta, 'gff': gff, 'locs': out}


def _pre_feat(rng, i):
    a = rng.choice([0, 3, 17, 1000])
    locs = [[a, a + rng.choice([1, 9, 300]), rng.choice('+-'), None]]
    if rng.random() < 0.3:
        locs.append([locs[0][1] + 5, locs[0][1] + 25, locs[0][2], None])
    return {'meta': [['type', [0, rng.choice(['gene', 'exon', 'CDS'])]], ['id', [0, 'pre%d' % i]], ['seqid', [0, 'chr0']]], 'gff': None, 'locs': locs}


def gen_via(rng, p=0.3):
    """the transport of a case: the string / file name transports of the earlier rounds, or (p) a stream that is read and written
    at its current position: {StringIO, text file handle, BytesIO, binary file handle} x {fmt given, fmt detected} x
    {offset 0, behind an earlier table written into the same stream, behind a title line skipped with readline()}"""
    if rng.random() >= p:
        return 'file' if rng.random() < 0.1 else 'str'
    pre = rng.choice([None, 'table', 'table', 'title', 'title'])
    if pre == 'table':
        pre = ['table', [_pre_feat(rng, i) for i in range(rng.choice([1, 2, 3]))]]
    elif pre == 'title':
        pre = ['title', rng.choice(TITLES)]
    return {'w': rng.choice(STREAMS), 'det': rng.random() < 0.65, 'pre': pre}


def gen_obj(rng, in_domain=True):
    n = rng.choice([1, 1, 2, 2, 3, 4])
    fts = [rfeature(rng, i, in_domain) for i in range(n)]
    if rng.random() < 0.08:
        # neighbouring split features without ID on one sequence, same type: the writer has to invent distinct IDs
        for f in fts:
            f['meta'] = [kv for kv in f['meta'] if kv[0] not in ('id', 'type', 'seqid')] + [['type', [0, 'CDS']], ['seqid', [0, 'chr1']]]
            f['gff'] = [kv for kv in (f['gff'] or []) if kv[0] not in ('ID', 'seqid')] or None
            if len(f['locs']) < 2:
                a, b, sd, _ = f['locs'][0]
                f['locs'].append([b + 5, b + 9, sd, None])
    for f in fts:
        if rng.random() < 0.15:
            f['_ctor'] = rng.choice(['kw', 'tuple', 'type'])
    return {'_k': 'obj', 'fts': fts, '_via': gen_via(rng)}


def q_indep(rng, s, style):
    """independent percent-encoder for the text stream: encodes what GFF3 requires, optionally more / lower case"""
    out = []
    for ch in s:
        must = ch in '\t\n\r%;=&,' or ord(ch) < 32 or ord(ch) == 127
        if style == 'min':
            e = must
        elif style == 'all':
            e = not ch.isalnum()
        else:
            e = must or (not ch.isalnum() and rng.random() < 0.5) or rng.random() < 0.05
        if ch == ' ' and style != 'all' and rng.random() < 0.5:
            e = False
        if e:
            h = '%%%02X' % ord(ch)
            out.append(h.lower() if rng.random() < 0.3 else h)
        else:
            out.append(ch)
    return ''.join(out)


def render_text(rng, fts):
    """GFF3 text of abstract features (dict per line attrs), lines of one feature contiguous, free order"""
    lines = ['##gff-version 3']
    style = rng.choice(['min', 'mix', 'all'])
    for f in fts:
        for (a, b, sd, attrs, score, phase) in f['lines']:
            items = []
            for k, v in attrs:
                pad = ' ' if rng.random() < 0.05 else ''
                if v[0] == 1:
                    vs = ','.join(q_indep(rng, x, style) for x in v[1])
                else:
                    vs = q_indep(rng, v[1], style)
                items.append(pad + q_indep(rng, k, style) + pad + '=' + pad + vs)
            col9 = ';'.join(items) if items else '.'
            cols = [q_indep(rng, f['seqid'], style) if f['seqid'] else '.', q_indep(rng, f['source'], style) if f['source'] else '.',
                    f['type'] or '.', str(a + 1), str(b), score or '.', sd, '.' if phase is None else str(phase), col9]
            lines.append('\t'.join(cols))
            if rng.random() < 0.04:
                lines.append(rng.choice(['# comment', '', '   ', '#\tx\ty', '###']))
    text = '\n'.join(lines) + '\n'
    if rng.random() < 0.1:
        text += rng.choice(['##FASTA', '##FASTA', '##FASTA ']) + '\n>chr1\nACGT\n'
    if rng.random() < 0.03:
        text = text[:-1] if not text.endswith('ACGT\n') else text
    return text


def gen_text(rng, in_domain=True):
    fts = []
    for i in range(rng.choice([1, 1, 2, 3, 4])):
        nloc = rng.choice([1, 1, 2, 2, 3, 4])
        base = [[k, v] for k, v in rgff(rng, cols=False, out_rate=0.0 if in_domain else 0.05) if k not in ('score', 'phase')]
        if nloc > 1 or rng.random() < 0.5:
            base.insert(rng.randint(0, len(base)), ['ID', [0, rng.choice(['cds%d' % i, 'x y%d' % i, 'dup'])]])
        if rng.random() < 0.3:
            base.append(['Name', rval(rng)])
        lines = []
        for a, b, sd in rlocs(rng, nloc):
            attrs = [list(kv) for kv in base]
            r = rng.random()
            if nloc > 1 and r < 0.35:
                # per-line differences: changed value, extra key, dropped key
                if attrs and rng.random() < 0.5:
                    j = rng.randrange(len(attrs))
                    if attrs[j][0] != 'ID':
                        attrs[j] = [attrs[j][0], rval(rng)]
                if rng.random() < 0.5:
                    k = rkey(rng, 0.0)
                    if not any(k == kk for kk, _ in attrs):
                        attrs.append([k, rval(rng)])
                if attrs and rng.random() < 0.2:
                    j = rng.randrange(len(attrs))
                    if attrs[j][0] != 'ID':
                        del attrs[j]
            if rng.random() < 0.3:
                rng.shuffle(attrs)
            score = rng.choice(SCORES) if rng.random() < 0.3 else None
            if not in_domain and rng.random() < 0.3:
                score = rng.choice(SCORES_OUT)
            phase = rng.choice([0, 1, 2]) if rng.random() < 0.4 else None
            lines.append((a, b, sd, attrs, score, phase))
        fts.append({'seqid': rng.choice(['chr1', 'chr1', 'NC 1', 'a;b=c', None]), 'source': rng.choice([None, 'RefSeq', 'my tool']),
                    'type': rng.choice(TYPES + [None]), 'lines': lines})
    via = gen_via(rng)
    if isinstance(via, dict) and via['pre'] and via['pre'][0] == 'table' and rng.random() < 0.35:
        via['at0'] = True                        # the stream with both tables is read from its start
    return {'_k': 'text', 't': render_text(rng, fts), '_via': via}


def gen_edit(rng):
    """features read from GFF text, then edited through the Feature aliases before they are written"""
    base = gen_text(rng, in_domain=True)
    edits = []
    for _ in range(rng.choice([1, 1, 2, 3])):
        key = rng.choice(['name', 'id', 'seqid', 'score', 'phase', 'evalue', 'type', 'name', 'score'])
        val = {'name': lambda: rval(rng), 'id': lambda: [0, 'edited%d' % rng.randrange(3)], 'seqid': lambda: [0, rng.choice(['chrE', 'e 2;x'])],
               'score': lambda: rscore(rng), 'phase': lambda: [3, rng.choice([0, 1, 2])], 'evalue': lambda: [0, rng.choice(['1e-9', '0.5'])],
               'type': lambda: [0, rng.choice(TYPES)]}[key]()
        edits.append([rng.randrange(4), key, val])
    return {'_k': 'edit', 't': base['t'], 'edits': edits}


def gen_opt(rng):
    """reader options filt / filt_fast / default_ftype / comments and the writer's header"""
    base = gen_text(rng, in_domain=True)
    t = base['t']
    if rng.random() < 0.7:
        ls = t.split('\n')
        for _ in range(rng.choice([1, 2, 3])):
            ls.insert(rng.randrange(1, len(ls)), rng.choice(['# a comment', '', '  ', '#!genome-build x', '###', '#\tCDS\tx']))
        t = '\n'.join(ls)
    # the options are drawn from what the text holds, so that most cases keep some lines and drop others
    def datalines(tt):
        return [ln.split('\t') for ln in tt.split('\n') if len(ln.split('\t')) == 9 and not ln.startswith('#')]
    if rng.random() < 0.35 and datalines(t):
        # the features of one type lose their type: '.' in column 3 (default_ftype stands in for it)
        ty = rng.choice(datalines(t))[2]
        t = '\n'.join('\t'.join(c[:2] + ['.'] + c[3:]) if len(c) == 9 and not ln.startswith('#') and c[2] == ty else ln
                      for ln, c in ((ln, ln.split('\t')) for ln in t.split('\n')))
    present = sorted(set(c[2] for c in datalines(t)))
    c = {'_k': 'opt', 't': t, 'filt': None, 'fast': None, 'default': None, 'header': None}
    if rng.random() < 0.45:
        c['default'] = rng.choice(['dflt', 'gene', 'CDS'] + [p for p in present if p != '.'][:1])
    if rng.random() < 0.4:
        pool = [p for p in present if p != '.']
        fl = rng.sample(pool, rng.randint(1, len(pool))) if pool and rng.random() < 0.85 else []
        if rng.random() < 0.3:
            fl.append(rng.choice(TYPES))
        if c['default'] is not None and rng.random() < 0.5:
            fl.append(c['default'])
        if rng.random() < 0.1:
            fl.append('.')
        rng.shuffle(fl)
        c['filt'] = fl
    if rng.random() < 0.3:
        ls = [ln for ln in t.split('\n') if ln]
        r = rng.random()
        if r < 0.6 and ls:
            ln = rng.choice(ls)
            a = rng.randrange(len(ln))
            frag = ln[a:a + rng.choice([1, 2, 3, 5])]
            c['fast'] = frag if rng.random() < 0.5 else (frag.upper() if rng.random() < 0.5 else frag.lower())
        elif r < 0.85:
            c['fast'] = rng.choice(['cds', 'CDS', 'gene', 'chr1', 'RefSeq', 'ID=', 'mrna', '\t+\t', 'comment', '#', '\n', '9\n', '##gff'])
        else:
            c['fast'] = rng.choice(['absent-word', 'x', '', ' '])
    if rng.random() < 0.6:
        c['header'] = rng.choice(['#made by sugar\n', '##sequence-region chr1 1 1000\n#second line\n', '', '#a\n\n  \n#b\n', '#!genome-build x\n',
                                  # headers that are no comment lines: data to the reader, glued to the first line, or the end of the features
                                  'chrH\t.\tgene\t1\t9\t.\t+\t.\tID=hdr\n', '#no newline', 'free text\n', '##FASTA\n', 'chrH\t.\tgene\t5\t2\t.\t+\t.\t.\n'])
    return c


def gen_hist(rng):
    """history of calls on the same live FeatureLists / texts with edits in between (state independence)"""
    import copy
    base = [rfeature(rng, i, True) for i in range(rng.choice([1, 2, 2, 3]))]
    for f in base:
        if not any(k == 'type' for k, _ in f['meta']):
            f['meta'].append(['type', [0, rng.choice(TYPES)]])
    if len(base) > 1 and rng.random() < 0.4:
        # two features built from the very same Location objects
        j = rng.randrange(1, len(base))
        base[j]['locs'] = copy.deepcopy(base[0]['locs'])
        base[j]['_share'] = 0
        if len(base[j]['locs']) > 1 and not (any(k == 'id' for k, _ in base[j]['meta']) or any(k == 'ID' for k, _ in (base[j]['gff'] or []))):
            base[j]['meta'].append(['id', [0, 'shared%d' % j]])
    lists = [base]
    if rng.random() < 0.6:
        # a second list that collides with the first on ids, lengths and coordinates but differs in content
        other = copy.deepcopy(base)
        for f in other:
            f.pop('_share', None)
            r = rng.random()
            if r < 0.4 and f['gff']:
                kv = rng.choice(f['gff'])
                if kv[0] not in ('ID', 'seqid', 'source', 'score', 'phase'):
                    kv[1] = rval(rng)
            elif r < 0.7:
                _spec_set(f['meta'], 'name', rval(rng))
            else:
                _spec_set(f['meta'], 'score', rscore(rng))
        lists.append(other)
    t = gen_text(rng, True)['t']
    texts = [t]
    if rng.random() < 0.5:
        # same length, same first lines, one digit changed
        idx = [i for i, ch in enumerate(t) if ch in '123456' and i > 20]
        if idx:
            i = rng.choice(idx)
            texts.append(t[:i] + '7' + t[i + 1:])
    steps = []
    def keysel():
        ks = [k for k in XKEYS if rng.random() < 0.8]
        if 'type' not in ks:
            ks.append('type')
        while sum(k in ks for k in ('start', 'stop', 'len')) < 2:
            ks.append(rng.choice([k for k in ('start', 'stop', 'len') if k not in ks]))
        rng.shuffle(ks)
        return ks
    for _ in range(rng.choice([4, 5, 6, 8])):
        li = rng.randrange(len(lists))
        r = rng.random()
        if r < 0.3:
            steps.append(['gff', li, 'file' if rng.random() < 0.15 else 'str'])
        elif r < 0.5:
            fmt = rng.choice(['tsv', 'csv'])
            steps.append(['xsv', li, keysel(), {'tsv': 'tab', 'csv': 'comma'}[fmt] if rng.random() < 0.6 else rng.choice(SEPS5), fmt, rng.random() < 0.5])
        elif r < 0.62:
            steps.append(['rtext', rng.randrange(len(texts))])
        elif r < 0.8:
            key = rng.choice(['name', 'id', 'seqid', 'score', 'phase', 'type'])
            val = {'name': lambda: rval(rng), 'id': lambda: [0, 'h%d' % rng.randrange(3)], 'seqid': lambda: [0, rng.choice(['chrH', 'h 2;x'])],
                   'score': lambda: rscore(rng), 'phase': lambda: [3, rng.choice([0, 1, 2])], 'type': lambda: [0, rng.choice(TYPES)]}[key]()
            steps.append(['edit', li, rng.randrange(3), key, val])
        elif r < 0.9:
            k = rkey(rng, 0.0)
            steps.append(['gffattr', li, rng.randrange(3), k if k not in ('ID', 'Name') else 'Note', rval(rng)])
        else:
            steps.append(['relocs', li, rng.randrange(3), rlocs(rng, rng.choice([1, 2, 3]))])
    # every history ends with the same call twice on every list, in both formats
    for li in range(len(lists)):
        steps.append(['gff', li, 'str'])
        steps.append(['xsv', li, keysel(), 'tab', 'tsv', False])
        steps.append(['gff', li, 'str'])
    return {'_k': 'hist', 'lists': lists, 'texts': texts, 'steps': steps}


def mutate_text(rng, case):
    t = case['t']
    if len(t) < 20:
        return case
    for _ in range(rng.choice([1, 1, 2])):
        i = rng.randrange(16, len(t))
        r = rng.random()
        ch = rng.choice('\t;=,%. -+?0129aZ\n#')
        if r < 0.4:
            t = t[:i] + ch + t[i + 1:]
        elif r < 0.7:
            t = t[:i] + ch + t[i:]
        else:
            t = t[:i] + t[i + 1:]
    return {'_k': 'text', 't': t, '_via': 'str'}


def gen_xsv(rng):
    n = rng.choice([1, 2, 3, 5])
    fts = []
    for i in range(n):
        f = rfeature(rng, i)
        f['meta'] = [['type', [0, rng.choice(TYPES)]]] if rng.random() < 0.95 else []
        f['gff'] = None
        locs = rlocs(rng, 1 if rng.random() < 0.6 else rng.choice([2, 3]))
        if len(locs) > 1 and rng.random() < 0.6:
            # nested / overlapping parts: the extent is not given by the first and last location
            a, b, sd = locs[0]
            outer = [a - rng.choice([0, 5]), max(l[1] for l in locs) + rng.choice([1, 50]), sd]
            locs.insert(rng.randrange(len(locs) + 1), outer)
            if rng.random() < 0.5:
                locs.append([outer[0] + 1, outer[0] + 2, sd])
        if rng.random() < 0.2:
            locs = [[a - 200, b - 200, s] for a, b, s in locs]
        f['locs'] = [l + [None] for l in locs]
        fts.append(f)
    keys = [k for k in XKEYS if rng.random() < 0.75]
    if rng.random() < 0.9:
        if 'type' not in keys:
            keys.append('type')
        while sum(k in keys for k in ('start', 'stop', 'len')) < 2:
            keys.append(rng.choice([k for k in ('start', 'stop', 'len') if k not in keys]))
    rng.shuffle(keys)
    if not keys:
        keys = ['type', 'start', 'stop', 'strand']
    fmt = rng.choice(['tsv', 'csv'])
    sep = {'tsv': 'tab', 'csv': 'comma'}[fmt] if rng.random() < 0.6 else rng.choice(SEPS5)
    c = {'_k': 'xsv', 'keys': keys, '_sep': sep, '_fmt': fmt, 'fts': fts, '_keystr': rng.random() < 0.5}
    if rng.random() < 0.3:
        if 'type' in keys and rng.random() < 0.7:
            keys.remove('type')
        if sum(k in keys for k in ('start', 'stop', 'len')) >= 2:
            c['ftype'] = ['col', 'strand'] if rng.random() < 0.4 else ['lit', rng.choice(TYPES)]
    for f in fts:
        if rng.random() < 0.3:
            f['_ctor'] = rng.choice(['kw', 'tuple', 'type'])
    if rng.random() < 0.5:
        # metadata columns selected as well, named like columns of other tabular formats (MMseqs2, BLAST) or like the aliases
        extra = rng.sample(OTHER_COLS, rng.choice([1, 1, 2, 3]))
        for f in fts:
            f['_ctor'] = None
            for e in extra:
                f['meta'].append([e, [0, rng.choice(['v1', 'x7', 'abc', 'q_9'])]])
        allkeys = list(c['keys']) + extra
        rng.shuffle(allkeys)
        c['keys'] = [k for k in allkeys if k in XKEYS]
        c['allkeys'] = allkeys
    c['_auto'] = rng.random() < 0.7
    return c


XTEXT = ['v1', 'x7', 'abc', 'q_9', 'Gene:1', 'a.b-c', 'k', 'val(2)', 'A B', 'mi|x', 'p;q', 'r:s', 'u~v', 'w^z', 'e@f', 'g/h', 'R&D', 'i_j', 'l!m']
XTEXT_OUT = ['12', '1.5', 'NA', 'nan', 'True', '', ' lead', 'trail ', 'say "hi"', '-', '+x', 'None', '1e5', 'two\nlines']


def gen_xsvw(rng):
    """FeatureList -> TSV/CSV text -> features, for ANY list of column names: any subset / order of type,start,stop,len,strand,
    repeated names, defect, metadata columns (also named like columns of other tabular formats), keys as list, tuple or one string
    with arbitrary white space, fourteen separators, ftype naming a column / a literal, via str and via file"""
    base = gen_xsv(rng)
    fts = base['fts']
    for f in fts:
        f['meta'] = [kv for kv in f['meta'] if kv[0] == 'type']
        f.pop('_ctor', None)
    names = [k for k in XKEYS if rng.random() < 0.7]
    r = rng.random()
    if r < 0.8:
        while not _sel_ok(names):
            names.append(rng.choice([k for k in ('start', 'stop', 'len') if k not in names]))
    if rng.random() < 0.75 and 'type' not in names:
        names.append('type')
    extra = []
    if rng.random() < 0.45:
        extra = rng.sample(OTHER_COLS + ['my col', 'a.b', 'x-1', 'Type', 'START', 'Len', 'strand2', 'types'], rng.choice([1, 1, 2, 3]))
    if rng.random() < 0.06:
        extra.append('defect')
    names += extra
    if rng.random() < 0.12 and names:
        names.append(rng.choice(names))                     # a repeated column
    rng.shuffle(names)
    if not names and rng.random() < 0.8:
        names = ['start', 'len']
    for f in fts:
        for e in extra:
            if e != 'defect' and not any(k == e for k, _ in f['meta']):
                v = rng.choice(XTEXT) if rng.random() < 0.96 else rng.choice(XTEXT_OUT)
                if rng.random() < 0.97:
                    f['meta'].append([e, [0, v]])
        if rng.random() < 0.03:
            f['meta'] = [kv for kv in f['meta'] if kv[0] != 'type']     # no type: the cell is empty (outside the domain)
    fmt = rng.choice(['tsv', 'csv'])
    sep = {'tsv': 'tab', 'csv': 'comma'}[fmt] if rng.random() < 0.45 else rng.choice(list(SEPS))
    c = {'_k': 'xsvw', 'names': names, 'keystr': None, '_sep': sep, '_fmt': fmt, 'fts': fts, 'ft': None,
         '_auto': rng.random() < 0.5, '_via': gen_via(rng)}
    if rng.random() < 0.45 and all(n and not any(ch.isspace() for ch in n) for n in names):
        gaps = [rng.choice([' ', ' ', '  ', '\t', ' \t ', '\n', '\x0b ', '\r\n']) for _ in names]
        ks = ''.join(n + g for n, g in zip(names, gaps))[:-len(gaps[-1])] if names else ''
        if rng.random() < 0.25:
            ks = rng.choice([' ', '\t', '  ']) + ks + rng.choice(['', ' ', '\n'])
        c['keystr'] = ks
    if rng.random() < 0.3:
        if 'type' in names and rng.random() < 0.75:
            c['names'] = names = [n for n in names if n != 'type']
            if c['keystr'] is not None:
                c['keystr'] = ' '.join(names)
        r = rng.random()
        c['ft'] = 'strand' if r < 0.3 else (rng.choice(extra) if extra and r < 0.5 else (rng.choice(TYPES + ['my type']) if r < 0.93 else rng.choice(['start', 'len', 'nan', '7'])))
    for f in fts:
        if rng.random() < 0.2 and [k for k, _ in f['meta']] == ['type']:
            f['_ctor'] = rng.choice(['kw', 'tuple', 'type'])
    return c


def gen_xsvr(rng):
    """a table written by another program: columns found by name in any order among foreign columns, len contradicting start/stop,
    negative coordinates, blank lines, missing final newline, empty ranges, unknown strands, missing columns, ftype"""
    names = [k for k in XKEYS if rng.random() < 0.7]
    if rng.random() < 0.85:
        while not _sel_ok(names):
            names.append(rng.choice([k for k in ('start', 'stop', 'len') if k not in names]))
    extra = rng.sample(OTHER_COLS + ['a.b', 'Type', 'START', 'comment'], rng.choice([0, 0, 1, 2]))
    names += extra
    if rng.random() < 0.1 and names:
        names.append(rng.choice(names))
    rng.shuffle(names)
    if not names:
        names = ['stop', 'len']
    sepname = rng.choice(['tab', 'comma', 'tab', 'comma'] + list(SEPS))
    sep = SEPS[sepname]
    fmt = {'tab': 'tsv', 'comma': 'csv'}.get(sepname, rng.choice(['tsv', 'csv']))
    lines = [sep.join(names)]
    for _ in range(rng.choice([0, 1, 1, 2, 3, 4])):
        a = rng.choice([0, 1, 5, 99, 1000, 123456, -3, -200])
        ln = rng.choice([1, 2, 3, 10, 100, 4245])
        b = a + ln
        if rng.random() < 0.5 and 'start' in names and 'stop' in names:
            ln = rng.choice([0, 7, -1, 99999])              # a len column that contradicts start/stop is not looked at
        if rng.random() < 0.04:
            b = a - rng.choice([0, 1, 10])
            ln = b - a
        vals = {'start': str(a), 'stop': str(b), 'len': str(ln), 'strand': rng.choice('++--.?'), 'type': rng.choice(TYPES)}
        if rng.random() < 0.04:
            vals['strand'] = rng.choice(['x', '++', '', '*', '1'])
        if rng.random() < 0.04:
            k = rng.choice(['start', 'stop', 'len'])
            vals[k] = rng.choice([' ' + vals[k], '+' + vals[k].lstrip('-'), '0' + vals[k].lstrip('-'), vals[k] + '.0', 'x'])
        cells = [vals[n] if n in vals else (rng.choice(XTEXT) if rng.random() < 0.97 else rng.choice(XTEXT_OUT[:-1])) for n in names]
        if rng.random() < 0.03:
            cells = cells[:-1] if rng.random() < 0.5 else cells + ['9']
        lines.append(sep.join(cells))
        if rng.random() < 0.1:
            lines.append('')
    if rng.random() < 0.05:
        lines.insert(0, '')
    t = '\n'.join(lines) + ('\n' if rng.random() < 0.9 else '')
    if rng.random() < 0.02:
        t = rng.choice(['', '\n', '\n\n'])
    c = {'_k': 'xsvr', 't': t, '_sep': sepname, '_fmt': fmt, 'ft': None, '_via': gen_via(rng)}
    if c['_via'] == 'file':
        c['_via'] = 'str'
    if rng.random() < 0.3:
        if 'type' in names and rng.random() < 0.75:
            # drop the type column from the text
            idx = [i for i, n in enumerate(names) if n != 'type']
            ls = []
            for ln in t.split('\n'):
                cs = ln.split(sep)
                ls.append(sep.join(cs[i] for i in idx if i < len(cs)) if ln else ln)
            c['t'] = '\n'.join(ls)
            names = [names[i] for i in idx]
        r = rng.random()
        c['ft'] = 'strand' if r < 0.3 else (rng.choice(extra) if extra and r < 0.5 else (rng.choice(TYPES + ['my type']) if r < 0.95 else rng.choice(['start', 'nan'])))
    return c


OTHER_COLS = ['evalue', 'pident', 'bits', 'qstart', 'qend', 'mismatch', 'gapopen', 'taxid', 'score', 'seqid', 'name', 'id', 'fident',
              'query', 'target', 'alnlen', 'tstart', 'tend', 'bitscore', 'sseqid', 'qseqid']


def gen_seqgff(rng):
    """sequences with their features through the sequence GFF writer/reader; some features name no (existing) sequence"""
    ids = rng.sample(['s1', 's2', 'chrA', 'NC_1.1', 'seq-3'], rng.choice([1, 2, 2, 3]))
    seqs = []
    n = 0
    for sid in ids:
        fs = []
        for _ in range(rng.choice([0, 1, 2, 3])):
            f = rfeature(rng, n, True)
            n += 1
            f['meta'] = [kv for kv in f['meta'] if kv[0] != 'seqid']
            f['gff'] = [kv for kv in (f['gff'] or []) if kv[0] != 'seqid'] or None
            r = rng.random()
            if r < 0.6:
                f['meta'].append(['seqid', [0, sid]])
            elif r < 0.7:
                f['meta'].append(['seqid', [0, rng.choice(ids)]])         # names another sequence of the basket
            elif r < 0.8:
                f['meta'].append(['seqid', [0, 'unknown']])
            # else: no seqid at all, written as '.'
            fs.append(f)
        seqs.append([sid, ''.join(rng.choice('ACGT') for _ in range(rng.choice([4, 10, 70]))), fs])
    return {'_k': 'seqgff', 'seqs': seqs, '_via': 'file' if rng.random() < 0.3 else 'str'}


def gen_cases(rng, tier):
    nobj, ntext, nmut, nxsv = (500, 350, 80, 150) if tier != 'thorough' else (6000, 4500, 800, 1000)
    nedit = 200 if tier != 'thorough' else 1500
    nhist = 170 if tier != 'thorough' else 800
    nopt = 120 if tier != 'thorough' else 1500
    nseq = 120 if tier != 'thorough' else 1500
    nxsvr = 120 if tier != 'thorough' else 2000
    ndisp = 90 if tier != 'thorough' else 1500
    cases = []
    for _ in range(nobj):
        cases.append(gen_obj(rng, in_domain=rng.random() < 0.9))
    texts = []
    for _ in range(ntext):
        texts.append(gen_text(rng, in_domain=rng.random() < 0.9))
    cases += texts
    for _ in range(nmut):
        cases.append(mutate_text(rng, rng.choice(texts)))
    for _ in range(nedit):
        cases.append(gen_edit(rng))
    for _ in range(nhist):
        cases.append(gen_hist(rng))
    for _ in range(nopt):
        cases.append(gen_opt(rng))
    for _ in range(nseq):
        cases.append(gen_seqgff(rng))
    if tier == 'thorough':
        # every permutation of every admissible column selection, both formats
        import itertools
        for r in range(1, 6):
            for ks in itertools.permutations(XKEYS, r):
                c = gen_xsv(rng)
                extra = [k for k in c.get('allkeys', []) if k not in XKEYS]
                c['keys'] = list(ks)
                c.pop('ftype', None)
                if extra:
                    allkeys = list(ks) + extra
                    rng.shuffle(allkeys)
                    c['allkeys'] = allkeys
                    c['keys'] = [k for k in allkeys if k in XKEYS]
                else:
                    c.pop('allkeys', None)
                c2 = gen_xsvw(rng)
                ex = [n for n in c2['names'] if n not in XKEYS]
                nm = list(ks) + ex
                rng.shuffle(nm)
                c2.update({'names': nm, 'keystr': None if c2['keystr'] is None else ' '.join(nm), 'ft': None})
                cases.append(c2)
    for _ in range(nxsv):
        cases.append(gen_xsvw(rng))
    for _ in range(nxsvr):
        cases.append(gen_xsvr(rng))
    for _ in range(ndisp):
        cases.append(gen_disp(rng))
    rng.shuffle(cases)            # heavy and light streams interleaved: the shards of the model evaluation take equally long
    return cases


# ----------------------------------------------------------------------------- bookkeeping

def _case_feats(case, got):
    if isinstance(got, list) and case['_k'] != 'xsv':
        return got[0]
    return None


def nontrivial(case, got):
    if case['_k'] == 'disp':
        return 'disp:%r:%r:%r:%r' % (case['fmt'], case['ext'], case['rfmt'], case['_sep'])
    if isinstance(got, dict):
        return ('xsvr:' + got['e']) if case['_k'] == 'xsvr' else None
    if case['_k'] == 'hist':
        return 'hist:' + ','.join(st[0] for st in case['steps'])
    if case['_k'] == 'seqgff':
        return 'seqgff:%d:%d' % (len(case['seqs']), len(got[1]))
    if case['_k'] == 'xsv':
        return 'xsv:' + ','.join(case['keys']) + ':' + case['_sep']
    if case['_k'] == 'xsvw':
        return 'xsvw:%r:%s:%r:%s' % (case['keystr'] if case.get('keystr') is not None else case['names'], case['_sep'], case.get('ft'),
                                    'err' if isinstance(got[1], dict) else 'ok')
    if case['_k'] == 'xsvr':
        return 'xsvr:%s:%s:%r' % (case['t'].split('\n')[0], case['_sep'], case.get('ft'))
    marks = set()
    for meta, gff, locs in got[0]:
        if len(locs) > 1:
            marks.add('split')
        if locs[0][2] == '-':
            marks.add('minus')
            if len(locs) > 1:
                marks.add('minus-split')
        if any(l[3] for l in locs):
            marks.add('locattr')
        if locs[0][3]:
            marks.add('firstloc-attr')
        for k, v in (gff or []):
            if v[0] == 1:
                marks.add('list')
            if k in ('score', 'phase'):
                marks.add(k)
            s = k + (''.join(v[1]) if v[0] == 1 else str(v[1]))
            if any(ch in s for ch in RESERVED_CHARS):
                marks.add('reserved-char')
    return sorted(marks) or None


def histkey(case, got):
    ks = ['kind=' + case['_k'], 'result=' + ('error:' + got['e'] if isinstance(got, dict) else 'ok')]
    v = case.get('_via')
    if isinstance(v, dict):
        ks.append('stream=%s,%s,%s' % (v['w'], 'fmt detected' if v.get('det') else 'fmt given', 'offset 0' if not v.get('pre') else 'two tables from the start' if v.get('at0') and case['_k'] == 'text' and v['pre'][0] == 'table' else 'behind a ' + v['pre'][0]))
    if case['_k'] == 'seqgff':
        if isinstance(got, list):
            ks.append('seqgff-kept=%d' % len(got[1]))
            ks.append('seqgff-dropped=%d' % (sum(len(c[2]) for c in case['seqs']) - len(got[1])))
    elif case['_k'] == 'hist':
        ks.append('hist-steps=%d' % len(case['steps']))
        for st in case['steps']:
            ks.append('hist-op=' + st[0])
    elif case['_k'] == 'xsv':
        ks.append('xsv-sep=' + case['_sep'])
        ks.append('xsv-ncols=%d' % len(case['keys']))
    elif case['_k'] == 'disp':
        ks.append('disp-by=' + ('fmt' if case['fmt'] is not None else 'extension'))
        if isinstance(got, list):
            ks.append('disp-read=' + (got[1]['e'] if isinstance(got[1], dict) else str(got[1][0])))
    elif case['_k'] in ('xsvw', 'xsvr'):
        ks.append('xsv-sep=' + case['_sep'])
        r = got[1] if case['_k'] == 'xsvw' and isinstance(got, list) else got
        ks.append(case['_k'] + '-read=' + (r['e'] if isinstance(r, dict) else 'ok'))
        if case['_k'] == 'xsvw':
            ks.append('xsvw-keys=' + ('str' if case.get('keystr') is not None else 'list'))
            ks.append('xsvw-ncols=%d' % len(case['names']))
        if case.get('ft') is not None:
            ks.append(case['_k'] + '-ftype')
    elif isinstance(got, list):
        ks.append('features=%d' % len(got[0]))
        ks.append('maxlocs=%d' % max([len(f[2]) for f in got[0]] or [0]))
        for m in nontrivial(case, got) or []:
            ks.append('has=' + m)
    return ks


def features(case, got):
    keys = set()
    if case['_k'] == 'obj':
        for f in case['fts']:
            for k, _ in (f['gff'] or []):
                keys.add(k)
            for l in f['locs']:
                for k, _ in (l[3] or []):
                    keys.add(k)
    elif case['_k'] in ('text', 'edit'):
        for m in re.finditer(r'[\t;]\s*([^=;\t\n]*?)\s*=', case['t']):
            keys.add(pct_decode(m.group(1)))
    firstloc = False
    if case['_k'] in ('obj', 'text', 'edit', 'hist') and isinstance(got, list) and _ckey(case) not in _DISAGREED:
        try:
            cyc = [g for (st, _), g in zip(hist_trace(case), got) if st[0] != 'xsv'] if case['_k'] == 'hist' else [got]
            nonnorm = any(f[2][0][3] is not None for g in cyc for f in g[0])
            firstloc = bool(nonnorm and _spec(case, got, False) is not None and _spec(case, got, True) is None)
        except Exception:
            firstloc = False
    return {'key_in_reserved_set': bool(keys & ATTR_RESERVED), 'kind': case['_k'], 'firstloc_overrides': firstloc}


def _transport_checks(rng, tier, cov):
    """the same FeatureList through every documented transport of write_fts / read_fts: file name, Path, text handle, handle and
    stream at an offset, BytesIO, gzip, archive=, a glob with one match, Feature.write, the write_fts function, reads with and
    without fmt - text and features must be those of the plain string transport"""
    import gzip, pathlib, shutil
    from sugar import read_fts
    try:
        from sugar._io import write_fts
    except ImportError:                                # a private import path: the function is reached through FeatureList.write anyway
        write_fts = None
    n = 0
    for it in range(8 if tier != 'thorough' else 60):
        if it % 2:
            c = gen_obj(rng, True)
            for i, f in enumerate(c['fts']):
                if len(f['locs']) > 1 and not (any(k == 'id' for k, _ in f['meta']) or any(k == 'ID' for k, _ in (f['gff'] or []))):
                    f['meta'].append(['id', [0, 'tr%d' % i]])
            fmt, kw, rkw, obs = 'gff', {}, {}, obs_fts
        else:
            c = gen_xsvw(rng)
            fmt = c['_fmt']
            kw = {'keys': list(c['names'])}
            rkw = {}
            if c['_sep'] not in ('tab', 'comma') and rng.random() < 0.5:
                kw['sep'] = rkw['sep'] = SEPS[c['_sep']]
            obs = lambda x: [_obs_rec(ft) for ft in x]
        case = {'_k': 'transport', 'fmt': fmt, 'fts': c['fts'], 'kw': {k: v for k, v in kw.items()}}
        try:
            fts = build_fts(c['fts'])
            base = fts.tofmtstr(fmt, **kw)
            want = obs(read_fts(io.StringIO(base), fmt, **rkw))
        except Exception:
            continue                                   # not a list / selection the formats accept: nothing to compare
        d = tempfile.mkdtemp(prefix='C02-', dir='/tmp')
        results = {}
        def rd(name, fn):
            try:
                results[name] = obs(fn())
            except Exception as e:
                results[name] = 'raised ' + type(e).__name__
        def wr(name, fn):
            try:
                results[name] = fn()
            except Exception as e:
                results[name] = 'raised ' + type(e).__name__
        try:
            ext = '.' + fmt
            p1 = os.path.join(d, 'a' + ext)
            def w_name():
                fts.write(p1, **kw)
                return open(p1, newline='').read()
            wr('write: file name', w_name)
            def w_path():
                p = pathlib.Path(d) / ('b' + ext)
                fts.write(p, **kw)
                return open(p, newline='').read()
            wr('write: Path', w_path)
            def w_func():
                p = os.path.join(d, 'c.dat')
                write_fts(fts, p, fmt, **kw)
                return open(p, newline='').read()
            if write_fts is not None:
                wr('write: write_fts(fts, name, fmt)', w_func)
            def w_handle():
                p = os.path.join(d, 'd.txt')
                with open(p, 'w', newline='') as f:
                    f.write('# prefix\n')
                    fts.write(f, fmt, **kw)
                t = open(p, newline='').read()
                return t[len('# prefix\n'):] if t.startswith('# prefix\n') else t
            wr('write: text handle at an offset', w_handle)
            def w_sio():
                f = io.StringIO()
                fts.write(f, fmt.upper(), **kw)
                return f.getvalue()
            wr('write: StringIO, fmt upper case', w_sio)
            if len(fts) == 1:
                wr('write: Feature.write', lambda: fts[0].tofmtstr(fmt, **kw) if hasattr(fts[0], 'tofmtstr') else (lambda f: (fts[0].write(f, fmt, **kw), f.getvalue())[1])(io.StringIO()))
            with open(p1, 'w', newline='') as f:
                f.write(base)
            if fmt == 'gff':
                rd('read: file name, fmt detected', lambda: read_fts(p1, **rkw))     # detection of tables: the xsvw stream and C03
            rd('read: file name, fmt given', lambda: read_fts(p1, fmt, **rkw))
            rd('read: Path', lambda: read_fts(pathlib.Path(p1), fmt, **rkw))
            def r_handle():
                with open(p1, newline='') as f:
                    return read_fts(f, fmt, **rkw)
            rd('read: text handle', r_handle)
            # streams read from their current position: every stream kind x fmt given / detected x what lies in front of the table
            sepd = {'tsv': '\t', 'csv': ','}.get(fmt)
            rows = [ln.split(sepd) for ln in base.split('\n')[:-1]] if fmt != 'gff' else []
            detectable = fmt == 'gff' or (not rkw and len(rows) >= 2 and '"' not in base and all(len(r) == len(rows[0]) for r in rows)
                                          and sum(k in rows[0] for k in ('start', 'stop', 'len')) >= 2)
            pres = [None, ['table', [_pre_feat(rng, i) for i in range(rng.choice([1, 2, 3]))]], ['title', rng.choice(TITLES)]]
            for w in STREAMS:
                for det in ((False, True) if detectable else (False,)):
                    for pre in pres:
                        via = {'w': w, 'det': det, 'pre': pre}
                        rd('read: %s, %s, %s' % ({'sio': 'StringIO', 'tfh': 'text file handle', 'bio': 'BytesIO', 'bfh': 'binary file handle'}[w],
                                                 'fmt detected' if det else 'fmt given',
                                                 'offset 0' if pre is None else 'from the offset behind an earlier table' if pre[0] == 'table'
                                                 else 'behind a title line skipped with readline()'),
                           lambda via=via, det=det: _stream_read(base, fmt, rkw, via, det))
            for w in STREAMS:
                for pre in pres[1:]:
                    wr('write: %s behind %s' % (w, 'an earlier table' if pre[0] == 'table' else 'a title line'),
                       lambda w=w, pre=pre: _stream_write(fts, fmt, kw, {'w': w, 'pre': pre}))
            rd('read: BytesIO', lambda: read_fts(io.BytesIO(base.encode()), fmt, **rkw))
            def r_gz():
                p = p1 + '.gz'
                with gzip.open(p, 'wt', newline='') as f:
                    f.write(base)
                return read_fts(p, fmt, **rkw)
            rd('read: gzip file', r_gz)
            def r_glob():
                os.makedirs(os.path.join(d, 'g'))
                shutil.copy(p1, os.path.join(d, 'g', 'only' + ext))
                return read_fts(os.path.join(d, 'g', '*' + ext), fmt, **rkw)
            rd('read: glob with one match', r_glob)
            def r_archive():
                p = os.path.join(d, 'arch' + ext)
                fts.write(p, archive='zip', **kw)
                return read_fts(p + '.zip', fmt, **rkw)
            rd('write + read: archive=zip', r_archive)
        finally:
            shutil.rmtree(d, ignore_errors=True)
        for name, got in results.items():
            n += 1
            exp = base if name.startswith('write:') else want
            if got != exp:
                yield {'case': dict(case, transport=name), 'impl': got if isinstance(got, str) else repr(got)[:300],
                       'spec': 'transport "%s" gives %s, the string transport %s' % (name, (repr(got)[:120]), repr(exp)[:120]), 'noshrink': True}
    cov['transport_comparisons'] = n
    # the error exits of the dispatch (which exception class they raise is not part of the property; they must raise)
    from sugar.core.fts import Feature, FeatureList
    one = FeatureList([Feature('CDS', start=1, stop=5)])
    for name, fn in (('read_fts(text of no format)', lambda: read_fts(io.StringIO('this is no feature file\n'))),
                     ('FeatureList.write(handle) without fmt', lambda: one.write(io.StringIO())),
                     ('tofmtstr(format without feature writer)', lambda: one.tofmtstr('genbank'))):
        try:
            fn()
            yield {'case': {'_k': 'ctor', 'call': name}, 'impl': 'no error', 'spec': name + ' must raise', 'noshrink': True}
        except Exception:
            pass


def extra_checks(rng, tier, cov):
    """error paths of LocationTuple / Feature construction (no model needed); transports of feature files"""
    for v in _transport_checks(rng, tier, cov):
        yield v
    from sugar.core.fts import LocationTuple, Location, Feature
    tests = [('LocationTuple()', lambda: LocationTuple(), ValueError),
             ('LocationTuple([])', lambda: LocationTuple([]), ValueError),
             ('LocationTuple(locs, start=1)', lambda: LocationTuple([Location(1, 2)], start=1), ValueError),
             ('LocationTuple([(5, 1)])', lambda: LocationTuple([(5, 1)]), TypeError),
             ('LocationTuple(mixed strands)', lambda: LocationTuple([Location(1, 2, '+'), Location(3, 4, '-')]), ValueError),
             ('Location(3, 3)', lambda: Location(3, 3), ValueError),
             ('Feature()', lambda: Feature('x'), ValueError)]
    n = 0
    for name, fn, exc in tests:
        n += 1
        try:
            fn()
            yield {'case': {'_k': 'ctor', 'call': name}, 'impl': 'no error', 'spec': '%s must raise %s' % (name, exc.__name__), 'noshrink': True}
        except exc:
            pass
        except Exception as e:
            yield {'case': {'_k': 'ctor', 'call': name}, 'impl': type(e).__name__, 'spec': '%s raised %s, expected %s' % (name, type(e).__name__, exc.__name__), 'noshrink': True}
    lt = LocationTuple(start=3, stop=9, strand='-')
    if [(l.start, l.stop, str(l.strand)) for l in lt] != [(3, 9, '-')]:
        yield {'case': {'_k': 'ctor', 'call': 'LocationTuple(start, stop, strand)'}, 'impl': repr(lt), 'spec': 'keyword form', 'noshrink': True}
    cov['ctor_error_paths'] = n


def python_snippet(case):
    if case['_k'] == 'seqgff':
        return ("import sys; sys.path.insert(0, '/verif/tools')\nfrom props.c02 import impl\ncase = %r\nfor part in impl(case): print(part)" % (case,))
    if case['_k'] == 'ctor':
        return 'from sugar.core.fts import LocationTuple, Location, Feature; ' + case['call']
    if case['_k'] == 'transport':
        return ("import sys; sys.path.insert(0, '/verif/tools')\nfrom props.c02 import build_fts\nfts = build_fts(%r)\n"
                "print(repr(fts.tofmtstr(%r, **%r)))  # compare with the transport %r" % (case['fts'], case['fmt'], case['kw'], case.get('transport')))
    if case['_k'] == 'opt':
        return ("import sys; sys.path.insert(0, '/verif/tools')\nfrom props.c02 import impl\ncase = %r\nfor part in impl(case): print(part)" % (case,))
    if case['_k'] == 'hist':
        return ("import sys; sys.path.insert(0, '/verif/tools')\nfrom props.c02 import impl\ncase = %r\nfor part in impl(case): print(part)" % (case,))
    if case['_k'] in ('xsvw', 'xsvr', 'disp'):
        return ("import sys; sys.path.insert(0, '/verif/tools')\nfrom props.c02 import impl\ncase = %r\nprint(impl(case))" % (case,))
    if isinstance(case.get('_via'), dict):
        return ("import sys; sys.path.insert(0, '/verif/tools')\nfrom props.c02 import impl\ncase = %r\n"
                "# _via: stream kind w (sio/tfh/bio/bfh), det = read without fmt, pre = what the stream holds in front of the table\n"
                "for part in impl(case): print(part)" % (case,))
    if case['_k'] == 'text':
        return ("import io\nfrom sugar import read_fts\nt = %r\nx = read_fts(io.StringIO(t), fmt='gff')\nw1 = x.tofmtstr('gff')\n"
                "x1 = read_fts(io.StringIO(w1), fmt='gff')\nw2 = x1.tofmtstr('gff')\nw3 = read_fts(io.StringIO(w2), fmt='gff').tofmtstr('gff')\n"
                "print(w1); print(w2); print(w1 == w2, w2 == w3)\nfor ft in x1: print(ft, [l._meta for l in ft.locs])" % case['t'])
    if case['_k'] == 'edit':
        return ("import io, sys; sys.path.insert(0, '/verif/tools')\nfrom props.c02 import impl\ncase = %r\nfor part in impl(case): print(part)" % (case,))
    if case['_k'] == 'obj':
        return ("import io, sys; sys.path.insert(0, '/verif/tools')\nfrom sugar import read_fts\nfrom props.c02 import build_fts, obs_fts\n"
                "x = build_fts(%r)\nw1 = x.tofmtstr('gff'); print(w1)\nx1 = read_fts(io.StringIO(w1), fmt='gff'); print(obs_fts(x)); print(obs_fts(x1))\n"
                "w2 = x1.tofmtstr('gff'); print(w2); print(w1 == w2)" % (case['fts'],))
    return ("import io, sys; sys.path.insert(0, '/verif/tools')\nfrom sugar import read_fts\nfrom props.c02 import build_fts, SEPS\n"
            "x = build_fts(%r)\nt = x.tofmtstr(%r, keys=%r, sep=%r); print(t)\nprint(read_fts(io.StringIO(t), fmt=%r, sep=%r).tostr(raw=True))"
            % (case['fts'], case['_fmt'], case['keys'], SEPS[case['_sep']], case['_fmt'], SEPS[case['_sep']]))


LEVEL_TEXT = ('Machine-checked Coq theorems about an executable Gallina model of sugar\'s GFF3 reader/writer (line parser, percent-encoding, '
              'attribute column, same-ID merge with per-location difference dicts, copyattrs aliases, writer with per-location lines and '
              'per-line source, LocationTuple ordering, reader options) and of the TSV/CSV bridge at the text level (str.split() of the keys, '
              'tolists for any list of column names, the table text, reading it back cell by cell, the decision table of frompandas, '
              'ftype) and of the read_fts / write_fts dispatch (fmt in any spelling, extension table regenerated from the plugins). Main theorems: '
              'C02_gff_roundtrip_fix (for every feature list of the domain, write -> read -> write is byte-identical and every feature is '
              'read back with the same type, ordered locations, coordinates, strand and per-location effective attributes), '
              'C02_gff_third_write (also when first locations carry attributes of their own, what is read back lies in that domain, so the '
              'text is stable from the second write on) and C02_xsv_total (for EVERY list of column names, separator and feature list the '
              'written table is read back with range / strand / type exactly when the names hold start and stop or len and one of them, '
              'and is a KeyError otherwise). The model is tied to /repo on every run: copyattrs, the reserved Attr names and '
              'urllib\'s safe set are regenerated, and model and implementation are compared on parsed features and three successive '
              'written texts for generated objects, generated and mutated GFF text, edited features, call histories on shared live objects, '
              'reader/writer options, and on the written table text (byte for byte) and the records read back for TSV/CSV files through '
              'the real pandas, including tables written by other programs, and for tables that lie inside a stream behind earlier content '
              '(text and binary streams, fmt given and detected).')
LEVEL_NOTE = ('Proved (56 theorems, all closed under the global context): unquote(quote s) = s for every byte string and unquote of any mixed '
              'raw / upper- / lower-case escape encoding; quoted fields contain no separator; decimal coordinates round-trip (columns 4/5 are '
              'start+1 and stop); key=value items (also padded with blanks) and the whole attribute column round-trip with order and list '
              'values; one line <-> (type, seqid, source, score, phase, strand, location, attributes) for every combination of present / '
              'absent columns; LocationTuple output is a sorted permutation and idempotent; one line per location; read(write x) has one '
              'feature per feature with the same ordered locations; aliases after reading are the attributes; second write byte-identical '
              'and effective attributes kept (main theorem); third write = second write outside the normalised domain (F39 region '
              'included); comment / blank lines are ignored anywhere and reading stops at ##FASTA; the option reader with options off and '
              'the harness writer (invented IDs canonicalised) are the reader / writer of the theorems; any two of start/stop/len recover the '
              'range for any column selection and order, per feature and over whole lists. '
              'Added in round 7 (TSV/CSV at the text level): C02_keys_str / C02_keys_str_words (keys given as one string, any white space, '
              'select the columns their names select); C02_table_text (for any separator that occurs in no name or cell, the written text '
              'read cell by cell gives back the names and every cell); C02_xrecord_total, C02_xsv_total, C02_xsv_total_dom (for EVERY list of '
              'column names - any order, any subset, repetitions, defect, foreign metadata columns -, every such separator, every ftype and '
              'every feature list: one record per feature with 0-based start, half-open stop, strand if selected else ?, type if selected '
              'or supplied by ftype, iff the names hold start and stop or len and one of them; KeyError otherwise; the _dom form is stated '
              'on the boolean domain flags evaluated for every generated case); the decision table of frompandas on ANY record, also of '
              'tables from elsewhere: C02_xrecord_errors (KeyError iff neither pair of names is there, whatever the cells), C02_len_ignored '
              '(start and stop win over a contradicting len), C02_xrecord_table (a returned record has start < stop, one of the strands '
              '+ - . ?, coordinates from the start / stop columns or stop = start + len, start = stop - len), C02_strand_mapping, '
              'C02_column_order_irrelevant (a record with distinct column names is read the same way in every column order, for ANY table), '
              'C02_blank_lines_skipped, C02_xrecord_bridge (the column-key model of the earlier theorems, still evaluated by the history '
              'stream, is the name model on the five names). The real code differs from the '
              'model in one corner that is kept out of the correspondence domain: a table whose only columns are len yields no records and '
              'no error, because pandas drops the rows of a frame without columns. '
              'Reader / writer options (round 7): C02_read_filt_fast and C02_read_filt (reading with filt_fast= / filt= is reading the file '
              'without the lines that do not contain the text / the data lines of other types, default_ftype standing in for "."; unbounded, '
              'no hypotheses), C02_read_filt_empty, C02_read_comments (comments= receives exactly the comment and blank lines before ##FASTA '
              'that filt_fast lets through, in file order), C02_header_ignored (a header= text of comment / blank lines does not change what '
              'is read back; headers that are data lines, lack the final newline or are ##FASTA are modelled and compared, not claimed). '
              'Dispatch (round 7): C02_fmt_case_insensitive, C02_dispatch_names (over the regenerated registry fts_exts: gff / tsv / csv are '
              'found by name and by their own extension, fmt wins over the extension; which exception an unknown name / extension raises is '
              'compared with the model but kept outside the domain: the property is silent about it), '
              'C02_dispatch_xsv_roundtrip (C02_xsv_total through write_fts / read_fts with fmt in any spelling and the default separator). '
              'Tables inside streams (round 7 follow-up; a stream = content + position of the next read, stream_rest models f.seek(offset) and '
              'n calls of f.readline()): C02_read_at_offset (a GFF text / a table read from the offset behind ANY earlier content is read as '
              'the text / table alone), C02_read_behind_titles (the same behind any number of title lines skipped with readline()), '
              'C02_two_tables and C02_two_tables_xsv (two tables written one after the other into one stream: from the second table\'s '
              'offset that table is read; unbounded, no domain hypotheses), C02_two_tables_joined (read from its START, the stream holding the '
              'tables of two lists of normalised features is read as the table of the joined list: the second version line is a comment). The offset '
              'theorems are statements about the stream model the harness evaluates on the very content and position it hands sugar '
              '(text cases behind a table / a title line / from the start of a two-table stream, xsvr cases); their weight lies in that '
              'per-case comparison. '
              'Refuted with a witness and excluded from the round-trip theorem\'s domain (rt_C02), but generated and checked by the oracle: '
              'features whose first 5\'->3\' location has attributes of its own (C02_firstloc_overrides_refuted; open finding F39, reported as '
              'KNOWN-FINDING only when it is the sole failure of a case and model and code agree); neighbouring features with one '
              '(ID, type, seqid) are one feature to the reader (C02_adjacent_same_id_refuted). Per-line source (F38) is inside the domain: '
              'C02_loc_source_kept. Only tested, not proved: split features without ID (the writer invents distinct IDs); default_ftype beyond its '
              'role in filt; file order of the lines of a split feature (beyond the ordering theorems); '
              'state independence (histories); every transport (file name, Path, text handle, BytesIO, gzip, '
              'archive=, a glob with one match, Feature.write, the write_fts function: relational check against the plain string transport '
              'on every run); tables inside streams (GFF, TSV, CSV written into and read from the current position of a StringIO, a text '
              'file handle, a BytesIO or a binary file handle, with fmt given and with fmt detected, at offset 0, behind an earlier table '
              'written into the same stream and behind a title line skipped with readline(): the whole grid in the relational check on '
              'every run, and as the transport of about 30 % of the obj / text / xsvw cases, where what is read from the second table\'s '
              'offset is compared with the model and with the oracle; for text and xsvr cases the model is handed the whole stream content and '
              'the very seek / readline calls (run_C02_text_at, run_C02_xsvr_at), for obj / xsvw cases the model of the table alone; detection '
              'itself and the position a read leaves behind are not modelled here), format detection by content (C03 has the theorems) and meta._fmt; everything pandas does beyond the unquoted cell grid (quoting of '
              'cells that contain the separator / quotes / line breaks - sugar has no code of its own for it -, dtype inference, NA words: '
              'such cells are outside the model\'s domain flag). '
              'Statement coverage of the modelled functions in the quick tier: 100 % except sugar/_io/tab/xsv.py lines 86-87 and 95-96 '
              '(ImportError branches, unreachable with pandas installed) and sugar/_io/main.py lines 396 and 481 (a registered feature '
              'format without reader / a binary feature format: there is none). Trusted: Coq kernel/vm_compute, tools/gens/c02.py, the '
              'correspondence harness, CPython str/int/float/dict/sorted, urllib quote/unquote on ASCII. Domain: ASCII fields; keys not '
              'starting with "_" and not a public Attr method name (open finding F20); scores are literals of the two shapes repr() gives a float '
              '(d+.d+, or d[.d+]e-XX / e+XX below 1e-4 and from 1e16 on; C02_canon_float_ok covers both) with at most 15 significant digits; that '
              'repr(float(tok)) == tok for such a literal is decided by CPython on every case.')
TECHNIQUE = 'Coq proof over a hand-written executable model + per-run model/implementation correspondence and regenerated constants'
